//! A few small standard-library relations (through `midnight_zk_stdlib::Relation`) used by the
//! proving-API checks: native arithmetic (k=4), Poseidon (k=6), Jubjub scalar multiplication
//! (k=9) and SHA-256 (k=13).

use ff::Field;
use group::Group;
use midnight_circuits::{
    hash::poseidon::PoseidonChip,
    instructions::{hash::HashCPU, ArithInstructions, AssertionInstructions, AssignmentInstructions, EccInstructions, PublicInputInstructions},
    types::{AssignedByte, AssignedNative, AssignedNativePoint, Instantiable},
};
use midnight_curves::{Fr as JubjubScalar, JubjubExtended as Jubjub, JubjubSubgroup};
use midnight_proofs::{
    circuit::{Layouter, Value},
    plonk::Error,
};
use midnight_zk_stdlib::{Relation, ZkStdLib, ZkStdLibArch};
use sha2::Digest;

use crate::fam::F;

#[derive(Clone)]
pub struct RelSq {
    pub c: u64,
}
impl Relation for RelSq {
    type Instance = F;
    type Witness = F;
    fn format_instance(x: &F) -> Result<Vec<F>, Error> {
        Ok(vec![*x])
    }
    fn circuit(&self, s: &ZkStdLib, l: &mut impl Layouter<F>, inst: Value<F>, w: Value<F>) -> Result<(), Error> {
        let i: AssignedNative<F> = s.assign_as_public_input(l, inst)?;
        let w: AssignedNative<F> = s.assign(l, w)?;
        let sq = s.mul(l, &w, &w, None)?;
        let y = s.add_constant(l, &sq, F::from(self.c))?;
        s.assert_equal(l, &i, &y)
    }
    fn write_relation<W: std::io::Write>(&self, w: &mut W) -> std::io::Result<()> {
        w.write_all(&self.c.to_le_bytes())
    }
    fn read_relation<R: std::io::Read>(r: &mut R) -> std::io::Result<Self> {
        let mut b = [0u8; 8];
        r.read_exact(&mut b)?;
        Ok(RelSq { c: u64::from_le_bytes(b) })
    }
}
impl RelSq {
    pub fn statement(&self, w: F) -> F {
        w * w + F::from(self.c)
    }
}

#[derive(Clone)]
pub struct RelPos;
impl Relation for RelPos {
    type Instance = F;
    type Witness = [F; 2];
    fn format_instance(x: &F) -> Result<Vec<F>, Error> {
        Ok(vec![*x])
    }
    fn circuit(&self, s: &ZkStdLib, l: &mut impl Layouter<F>, inst: Value<F>, w: Value<[F; 2]>) -> Result<(), Error> {
        let i: AssignedNative<F> = s.assign_as_public_input(l, inst)?;
        let m: Vec<AssignedNative<F>> = s.assign_many(l, &w.transpose_array())?;
        let h = s.poseidon(l, &m)?;
        s.assert_equal(l, &i, &h)
    }
    fn used_chips(&self) -> ZkStdLibArch {
        ZkStdLibArch {
            poseidon: true,
            ..ZkStdLibArch::default()
        }
    }
    fn write_relation<W: std::io::Write>(&self, _: &mut W) -> std::io::Result<()> {
        Ok(())
    }
    fn read_relation<R: std::io::Read>(_: &mut R) -> std::io::Result<Self> {
        Ok(RelPos)
    }
}
impl RelPos {
    pub fn statement(w: &[F; 2]) -> F {
        <PoseidonChip<F> as HashCPU<F, F>>::hash(w)
    }
}

/// Public point P = s * G for a secret Jubjub scalar s.
#[derive(Clone)]
pub struct RelJub;
impl Relation for RelJub {
    type Instance = JubjubSubgroup;
    type Witness = JubjubScalar;
    fn format_instance(p: &JubjubSubgroup) -> Result<Vec<F>, Error> {
        Ok(AssignedNativePoint::<Jubjub>::as_public_input(p))
    }
    fn circuit(&self, s: &ZkStdLib, l: &mut impl Layouter<F>, inst: Value<JubjubSubgroup>, w: Value<JubjubScalar>) -> Result<(), Error> {
        let sc = s.jubjub().assign(l, w)?;
        let g: AssignedNativePoint<Jubjub> = s.jubjub().assign_fixed(l, JubjubSubgroup::generator())?;
        let r = s.jubjub().msm(l, &[sc], &[g])?;
        let p: AssignedNativePoint<Jubjub> = s.jubjub().assign_as_public_input(l, inst)?;
        s.jubjub().assert_equal(l, &p, &r)
    }
    fn used_chips(&self) -> ZkStdLibArch {
        ZkStdLibArch {
            jubjub: true,
            ..ZkStdLibArch::default()
        }
    }
    fn write_relation<W: std::io::Write>(&self, _: &mut W) -> std::io::Result<()> {
        Ok(())
    }
    fn read_relation<R: std::io::Read>(_: &mut R) -> std::io::Result<Self> {
        Ok(RelJub)
    }
}
impl RelJub {
    pub fn statement(s: &JubjubScalar) -> JubjubSubgroup {
        JubjubSubgroup::generator() * s
    }
}

/// Public digest = SHA-256 of a secret 24-byte preimage.
#[derive(Clone)]
pub struct RelSha;
impl Relation for RelSha {
    type Instance = [u8; 32];
    type Witness = [u8; 24];
    fn format_instance(d: &[u8; 32]) -> Result<Vec<F>, Error> {
        Ok(d.iter().flat_map(AssignedByte::<F>::as_public_input).collect())
    }
    fn circuit(&self, s: &ZkStdLib, l: &mut impl Layouter<F>, _inst: Value<[u8; 32]>, w: Value<[u8; 24]>) -> Result<(), Error> {
        let inp: Vec<AssignedByte<F>> = s.assign_many(l, &w.transpose_array())?;
        let out = s.sha2_256(l, &inp)?;
        out.iter().try_for_each(|b| s.constrain_as_public_input(l, b))
    }
    fn used_chips(&self) -> ZkStdLibArch {
        ZkStdLibArch {
            sha2_256: true,
            ..ZkStdLibArch::default()
        }
    }
    fn write_relation<W: std::io::Write>(&self, _: &mut W) -> std::io::Result<()> {
        Ok(())
    }
    fn read_relation<R: std::io::Read>(_: &mut R) -> std::io::Result<Self> {
        Ok(RelSha)
    }
}
impl RelSha {
    pub fn statement(w: &[u8; 24]) -> [u8; 32] {
        sha2::Sha256::digest(w).into()
    }
}

/// Used to silence unused warnings for `Field` in downstream generic code.
pub fn zero() -> F {
    F::ZERO
}
