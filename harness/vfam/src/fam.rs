//! `Fam(p)` — a parameterised circuit family written directly against `midnight_proofs::plonk`
//! (no gadget code), covering every constraint class of the proving system: custom gates of
//! degree 3..5 with rotations −1..2, table-column lookups, `lookup_any`, copy constraints
//! advice↔advice / advice↔instance / advice↔constant, gates querying instance columns,
//! additive-selector ("trash") gates, unblinded advice, 1–3 challenge phases, 1–3 instance
//! columns, both floor planners.
//!
//! Every advice assignment goes through [`Fam::put`], which (a) logs the cell id and (b) applies
//! an optional *override* (a fault relative to the honest value). The honest values are computed
//! forward in plain Rust from the witness, the instance and the challenges, so an override is a
//! table-only deviation from an otherwise honest assignment.

use std::{
    collections::BTreeMap,
    marker::PhantomData,
    sync::{Arc, Mutex},
};

use ff::{Field, PrimeField};
use midnight_proofs::{
    circuit::{AssignedCell, Layouter, Region, Value},
    plonk::{
        Advice, Challenge, Circuit, Column, ConstraintSystem, Constraints, Error, Expression,
        FirstPhase, Fixed, FloorPlanner, Instance, SecondPhase, Selector, TableColumn, ThirdPhase,
    },
    poly::Rotation,
    verif::{apply_fault, Fault},
};

pub type F = midnight_curves::Fq;

/// Length of every instance column.
pub const ILEN: usize = 4;

#[derive(Clone, Debug, PartialEq, Eq, Hash, PartialOrd, Ord)]
pub struct FamParams {
    /// 0 = no main gate; 1..=4: exponent of `a` in the main gate (gate degree 3..=5).
    pub gate_deg: u8,
    pub rot: bool,
    pub lookup: bool,
    pub lookup_any: bool,
    pub copy_adv: bool,
    pub copy_inst: bool,
    pub copy_const: bool,
    /// A gate that queries instance columns directly (needs the simple floor planner: the region
    /// must start at row 0).
    pub inst_query: bool,
    pub trash: bool,
    pub unblinded: bool,
    /// 1..=3
    pub phases: u8,
    /// 1..=3
    pub n_inst: u8,
    /// number of main rows, 1..=3
    pub rows: u8,
    /// added to the fixed coefficient of main row 0 ("same circuit, one fixed cell changed")
    pub fx_tweak: u8,
    /// an extra column whose gate is configured FIRST and whose first query is at rotation -1,
    /// so that the first opening point of the proof is not x itself
    pub rot_first: bool,
    /// a table lookup whose table does NOT contain the all-zero row (the input expression is
    /// `q*b + (1-q)*3` into {3, 6, .., 24})
    pub lookup_nz: bool,
    /// redundant copy constraints: the same pair tied twice and a triangle of three cells
    pub copy_dup: bool,
}

impl Default for FamParams {
    fn default() -> Self {
        FamParams::minimal()
    }
}

impl FamParams {
    pub fn minimal() -> Self {
        FamParams {
            gate_deg: 0,
            rot: false,
            lookup: false,
            lookup_any: false,
            copy_adv: false,
            copy_inst: false,
            copy_const: false,
            inst_query: false,
            trash: false,
            unblinded: false,
            phases: 1,
            n_inst: 1,
            rows: 1,
            fx_tweak: 0,
            rot_first: false,
            lookup_nz: false,
            copy_dup: false,
        }
    }
    /// Everything on.
    pub fn rich(phases: u8, n_inst: u8) -> Self {
        FamParams {
            gate_deg: 4,
            rot: true,
            lookup: true,
            lookup_any: true,
            copy_adv: true,
            copy_inst: true,
            copy_const: true,
            inst_query: true,
            trash: true,
            unblinded: true,
            phases,
            n_inst,
            rows: 3,
            fx_tweak: 0,
            rot_first: false,
            lookup_nz: true,
            copy_dup: true,
        }
    }
    /// Short canonical name used in case keys.
    pub fn tag(&self) -> String {
        let mut s = format!("g{}", self.gate_deg);
        for (on, c) in [
            (self.rot, 'r'),
            (self.lookup, 'l'),
            (self.lookup_any, 'L'),
            (self.copy_adv, 'a'),
            (self.copy_inst, 'i'),
            (self.copy_const, 'k'),
            (self.inst_query, 'q'),
            (self.trash, 't'),
            (self.unblinded, 'u'),
            (self.rot_first, 'z'),
            (self.lookup_nz, 'n'),
            (self.copy_dup, 'd'),
        ] {
            if on {
                s.push(c);
            }
        }
        if self.fx_tweak != 0 {
            s.push_str(&format!("-fx{}", self.fx_tweak));
        }
        format!("{s}-ph{}-in{}-r{}", self.phases, self.n_inst, self.rows)
    }
}

#[derive(Clone, Debug)]
pub struct FamConfig {
    pub p: FamParams,
    pub a: Column<Advice>,
    pub b: Column<Advice>,
    pub c: Column<Advice>,
    pub u: Option<Column<Advice>>,
    pub d: Option<Column<Advice>>,
    pub e: Option<Column<Advice>>,
    pub ch1: Option<Challenge>,
    pub ch2: Option<Challenge>,
    pub inst: Vec<Column<Instance>>,
    pub kconst: Column<Fixed>,
    pub fx: Column<Fixed>,
    pub tfa: Option<Column<Fixed>>,
    pub tfb: Option<Column<Fixed>>,
    pub t: Option<TableColumn>,
    pub q_main: Option<Selector>,
    pub q_rot: Option<Selector>,
    pub q_lk: Option<Selector>,
    pub q_la: Option<Selector>,
    pub q_tr: Option<Selector>,
    pub q_u: Option<Selector>,
    pub q_p2: Option<Selector>,
    pub q_p3: Option<Selector>,
    pub q_iq: Option<Selector>,
    pub z: Option<Column<Advice>>,
    pub q_z: Option<Selector>,
    pub ch1b: Option<Challenge>,
    pub t_nz: Option<TableColumn>,
    pub q_nz: Option<Selector>,
}

/// Identifier of an assigned advice cell: (region, column tag, offset in region).
pub type CellId = (&'static str, &'static str, usize);

#[derive(Clone, Debug)]
pub struct FamWitness {
    pub xs: Vec<F>,
    pub ys: Vec<F>,
    pub junk: [F; 3],
}

pub struct Fam<PL> {
    pub p: FamParams,
    pub w: Option<FamWitness>,
    /// The instance columns as the prover knows them (needed to compute cells tied to them).
    pub inst: Option<Vec<Vec<F>>>,
    pub overrides: Vec<(CellId, Fault)>,
    pub log: Arc<Mutex<BTreeMap<CellId, Option<F>>>>,
    _pl: PhantomData<PL>,
}

impl<PL> Clone for Fam<PL> {
    fn clone(&self) -> Self {
        Fam {
            p: self.p.clone(),
            w: self.w.clone(),
            inst: self.inst.clone(),
            overrides: self.overrides.clone(),
            log: self.log.clone(),
            _pl: PhantomData,
        }
    }
}

fn fpow(a: F, e: u8) -> F {
    let mut r = F::ONE;
    for _ in 0..e {
        r *= a;
    }
    r
}

fn low_bits(x: &F, m: u64) -> u64 {
    (x.to_repr().as_ref()[0] as u64) % m
}

/// Fixed coefficient of main row `j`.
pub fn fx_value(p: &FamParams, j: usize) -> F {
    F::from(j as u64 + 2 + if j == 0 { p.fx_tweak as u64 } else { 0 })
}

/// Output of main row `j`.
pub fn main_out(p: &FamParams, w: &FamWitness, j: usize) -> F {
    let (a, b) = (w.xs[j], w.ys[j]);
    if p.gate_deg == 0 {
        a + b
    } else {
        fpow(a, p.gate_deg - 1) * b + fx_value(p, j) * a
    }
}

/// The instance the honest prover exposes: slots 0,1 of every column are free values, slots
/// 2,3 carry main-gate outputs (round-robin over the columns) when `copy_inst` is on.
pub fn honest_instance(p: &FamParams, w: &FamWitness, free: &[[F; ILEN]]) -> Vec<Vec<F>> {
    let n = p.n_inst as usize;
    (0..n)
        .map(|i| {
            (0..ILEN)
                .map(|slot| {
                    if slot >= 2 && p.copy_inst {
                        let j = (slot - 2) * n + i;
                        if j < p.rows as usize {
                            return main_out(p, w, j);
                        }
                    }
                    free[i][slot]
                })
                .collect()
        })
        .collect()
}

impl<PL> Fam<PL> {
    pub fn new(p: FamParams, w: Option<FamWitness>, inst: Option<Vec<Vec<F>>>) -> Self {
        assert!((1..=3).contains(&p.phases) && (1..=3).contains(&p.n_inst));
        assert!((1..=3).contains(&p.rows) && p.gate_deg <= 4);
        Fam {
            p,
            w,
            inst,
            overrides: vec![],
            log: Arc::new(Mutex::new(BTreeMap::new())),
            _pl: PhantomData,
        }
    }

    pub fn with_overrides(mut self, o: Vec<(CellId, Fault)>) -> Self {
        self.overrides = o;
        self
    }

    /// Cells assigned so far, with their honest value where it was known.
    pub fn logged_cells(&self) -> Vec<(CellId, Option<F>)> {
        self.log.lock().unwrap().iter().map(|(k, v)| (*k, *v)).collect()
    }

    fn put(
        &self,
        region: &mut Region<'_, F>,
        rname: &'static str,
        cname: &'static str,
        col: Column<Advice>,
        offset: usize,
        honest: Value<F>,
    ) -> Result<AssignedCell<F, F>, Error> {
        let id: CellId = (rname, cname, offset);
        {
            let mut log = self.log.lock().unwrap();
            let e = log.entry(id).or_insert(None);
            honest.map(|h| *e = Some(h));
        }
        let v = match self.overrides.iter().find(|(c, _)| *c == id) {
            Some((_, fault)) => honest.map(|h| apply_fault(fault, h)),
            None => honest,
        };
        region.assign_advice(|| format!("{rname}.{cname}[{offset}]"), col, offset, || v)
    }

    fn wv<T>(&self, f: impl FnOnce(&FamWitness) -> T) -> Value<T> {
        match &self.w {
            Some(w) => Value::known(f(w)),
            None => Value::unknown(),
        }
    }

    fn iv(&self, col: usize, row: usize) -> Value<F> {
        match &self.inst {
            Some(i) => Value::known(i[col][row]),
            None => Value::unknown(),
        }
    }
}

impl<PL: FloorPlanner> Circuit<F> for Fam<PL> {
    type Config = FamConfig;
    type FloorPlanner = PL;
    type Params = FamParams;

    fn without_witnesses(&self) -> Self {
        Fam::new(self.p.clone(), None, None)
    }

    fn params(&self) -> FamParams {
        self.p.clone()
    }

    fn configure(_meta: &mut ConstraintSystem<F>) -> FamConfig {
        unreachable!("Fam is always configured with params")
    }

    fn configure_with_params(meta: &mut ConstraintSystem<F>, p: FamParams) -> FamConfig {
        // must come before anything else queries a column: the first advice query of the
        // constraint system is then (z, Rotation::prev)
        let z = p.rot_first.then(|| meta.advice_column());
        let q_z = p.rot_first.then(|| meta.selector());
        if let (Some(z), Some(q)) = (z, q_z) {
            meta.create_gate("zz", |m| {
                let z_prev = m.query_advice(z, Rotation::prev());
                let z_cur = m.query_advice(z, Rotation::cur());
                Constraints::with_selector(
                    q,
                    vec![("zz", z_cur - z_prev - Expression::Constant(F::ONE))],
                )
            });
        }
        let a = meta.advice_column();
        let b = meta.advice_column();
        let c = meta.advice_column();
        for col in [a, b, c] {
            meta.enable_equality(col);
        }
        let u = p.unblinded.then(|| meta.unblinded_advice_column());
        let (mut d, mut e, mut ch1, mut ch2, mut ch1b) = (None, None, None, None, None);
        if p.phases >= 2 {
            d = Some(meta.advice_column_in(SecondPhase));
            ch1 = Some(meta.challenge_usable_after(FirstPhase));
            // a second challenge usable after the same phase (its index differs from its phase)
            ch1b = Some(meta.challenge_usable_after(FirstPhase));
        }
        if p.phases >= 3 {
            e = Some(meta.advice_column_in(ThirdPhase));
            ch2 = Some(meta.challenge_usable_after(SecondPhase));
        }
        let inst: Vec<Column<Instance>> = (0..p.n_inst).map(|_| meta.instance_column()).collect();
        for col in &inst {
            meta.enable_equality(*col);
        }
        let kconst = meta.fixed_column();
        meta.enable_constant(kconst);
        let fx = meta.fixed_column();

        let q_main = (p.gate_deg > 0).then(|| meta.selector());
        if let Some(q) = q_main {
            let pow = p.gate_deg;
            meta.create_gate("main", |m| {
                let a_ = m.query_advice(a, Rotation::cur());
                let b_ = m.query_advice(b, Rotation::cur());
                let c_ = m.query_advice(c, Rotation::cur());
                let fx_ = m.query_fixed(fx, Rotation::cur());
                let mut term = b_;
                for _ in 0..pow - 1 {
                    term = term * a_.clone();
                }
                Constraints::with_selector(q, vec![("main", term + fx_ * a_ - c_)])
            });
        }
        let q_rot = p.rot.then(|| meta.selector());
        if let Some(q) = q_rot {
            meta.create_gate("rot", |m| {
                let a_prev = m.query_advice(a, Rotation::prev());
                let a_2 = m.query_advice(a, Rotation(2));
                let b_cur = m.query_advice(b, Rotation::cur());
                let b_next = m.query_advice(b, Rotation::next());
                let c_cur = m.query_advice(c, Rotation::cur());
                Constraints::with_selector(
                    q,
                    vec![(
                        "rot",
                        c_cur - a_prev - b_next * F::from(2) - a_2 * b_cur,
                    )],
                )
            });
        }
        let mut t = None;
        let q_lk = p.lookup.then(|| meta.complex_selector());
        if let Some(q) = q_lk {
            let tc = meta.lookup_table_column();
            t = Some(tc);
            meta.lookup("lk", |m| {
                let q_ = m.query_selector(q);
                let b_ = m.query_advice(b, Rotation::cur());
                vec![(q_ * b_, tc)]
            });
        }
        let mut t_nz = None;
        let q_nz = p.lookup_nz.then(|| meta.complex_selector());
        if let Some(q) = q_nz {
            let tc = meta.lookup_table_column();
            t_nz = Some(tc);
            meta.lookup("nz", |m| {
                let q_ = m.query_selector(q);
                let b_ = m.query_advice(b, Rotation::cur());
                let not_q = Expression::Constant(F::ONE) - q_.clone();
                vec![(q_ * b_ + not_q * Expression::Constant(F::from(3)), tc)]
            });
        }
        let (mut tfa, mut tfb) = (None, None);
        let q_la = p.lookup_any.then(|| meta.complex_selector());
        if let Some(q) = q_la {
            let ta = meta.fixed_column();
            let tb = meta.fixed_column();
            tfa = Some(ta);
            tfb = Some(tb);
            meta.lookup_any("la", |m| {
                let q_ = m.query_selector(q);
                let a_ = m.query_advice(a, Rotation::cur());
                let c_ = m.query_advice(c, Rotation::cur());
                let ta_ = m.query_fixed(ta, Rotation::cur());
                let tb_ = m.query_fixed(tb, Rotation::cur());
                vec![(q_.clone() * a_, ta_), (q_ * c_, tb_)]
            });
        }
        let q_tr = p.trash.then(|| meta.complex_selector());
        if let Some(q) = q_tr {
            meta.create_gate("tr", |m| {
                let a_ = m.query_advice(a, Rotation::cur());
                let b_ = m.query_advice(b, Rotation::cur());
                let c_ = m.query_advice(c, Rotation::cur());
                let a_next = m.query_advice(a, Rotation::next());
                let diff = a_.clone() - b_.clone();
                Constraints::with_additive_selector(
                    q,
                    vec![("tr-mul", a_ * b_ - c_), ("tr-sq", diff.clone() * diff - a_next)],
                )
            });
        }
        let q_u = p.unblinded.then(|| meta.selector());
        if let (Some(q), Some(u)) = (q_u, u) {
            meta.create_gate("ub", |m| {
                let a_ = m.query_advice(a, Rotation::cur());
                let u_ = m.query_advice(u, Rotation::cur());
                Constraints::with_selector(
                    q,
                    vec![("ub", u_ - a_ - Expression::Constant(F::from(7)))],
                )
            });
        }
        let q_p2 = (p.phases >= 2).then(|| meta.selector());
        if let (Some(q), Some(d), Some(ch1), Some(ch1b)) = (q_p2, d, ch1, ch1b) {
            meta.create_gate("p2", |m| {
                let a_ = m.query_advice(a, Rotation::cur());
                let b_ = m.query_advice(b, Rotation::cur());
                let d_ = m.query_advice(d, Rotation::cur());
                let ch = m.query_challenge(ch1);
                let chb = m.query_challenge(ch1b);
                Constraints::with_selector(q, vec![("p2", d_ - a_ * ch - b_ * chb)])
            });
        }
        let q_p3 = (p.phases >= 3).then(|| meta.selector());
        if let (Some(q), Some(d), Some(e), Some(ch1), Some(ch2)) = (q_p3, d, e, ch1, ch2) {
            meta.create_gate("p3", |m| {
                let d_ = m.query_advice(d, Rotation::cur());
                let e_ = m.query_advice(e, Rotation::cur());
                let c1 = m.query_challenge(ch1);
                let c2 = m.query_challenge(ch2);
                Constraints::with_selector(q, vec![("p3", e_ - d_ * c2 - c1)])
            });
        }
        let q_iq = p.inst_query.then(|| meta.selector());
        if let Some(q) = q_iq {
            let i0 = inst[0];
            let il = inst[inst.len() - 1];
            meta.create_gate("iq", |m| {
                let a_ = m.query_advice(a, Rotation::cur());
                let x = m.query_instance(i0, Rotation::cur());
                let y = m.query_instance(il, Rotation::next());
                Constraints::with_selector(q, vec![("iq", a_ - x - y)])
            });
        }
        FamConfig {
            p,
            a,
            b,
            c,
            u,
            d,
            e,
            ch1,
            ch2,
            inst,
            kconst,
            fx,
            tfa,
            tfb,
            t,
            q_main,
            q_rot,
            q_lk,
            q_la,
            q_tr,
            q_u,
            q_p2,
            q_p3,
            q_iq,
            z,
            q_z,
            ch1b,
            t_nz,
            q_nz,
        }
    }

    fn synthesize(&self, cfg: FamConfig, mut layouter: impl Layouter<F>) -> Result<(), Error> {
        let p = &self.p;
        let n_inst = p.n_inst as usize;
        let rows = p.rows as usize;

        // --- iq: must be the first region (absolute rows 0, 1)
        if let Some(q) = cfg.q_iq {
            layouter.assign_region(
                || "iq",
                |mut region| {
                    for i in 0..2 {
                        q.enable(&mut region, i)?;
                        let v = self.iv(0, i) + self.iv(n_inst - 1, i + 1);
                        self.put(&mut region, "iq", "a", cfg.a, i, v)?;
                    }
                    Ok(())
                },
            )?;
        }

        // --- main rows
        let main_cells = layouter.assign_region(
            || "mn",
            |mut region| {
                let mut outs = vec![];
                let mut ins = vec![];
                for j in 0..rows {
                    if let Some(q) = cfg.q_main {
                        q.enable(&mut region, j)?;
                    }
                    region.assign_fixed(
                        || "fx",
                        cfg.fx,
                        j,
                        || Value::known(fx_value(p, j)),
                    )?;
                    ins.push(self.put(&mut region, "mn", "a", cfg.a, j, self.wv(|w| w.xs[j]))?);
                    self.put(&mut region, "mn", "b", cfg.b, j, self.wv(|w| w.ys[j]))?;
                    let c =
                        self.put(&mut region, "mn", "c", cfg.c, j, self.wv(|w| main_out(p, w, j)))?;
                    outs.push(c);
                }
                Ok((ins, outs))
            },
        )?;
        let (main_ins, main_cells) = main_cells;
        if p.copy_inst {
            for (j, cell) in main_cells.iter().enumerate() {
                let (col, row) = (j % n_inst, 2 + j / n_inst);
                if row < ILEN {
                    layouter.constrain_instance(cell.cell(), cfg.inst[col], row)?;
                }
            }
        }

        // --- rotations
        if let Some(q) = cfg.q_rot {
            layouter.assign_region(
                || "rt",
                |mut region| {
                    q.enable(&mut region, 1)?;
                    let av = |w: &FamWitness, i: usize| w.xs[i % rows] + F::from(i as u64);
                    let bv = |w: &FamWitness, i: usize| w.ys[i % rows] - F::from(i as u64);
                    for i in 0..4 {
                        self.put(&mut region, "rt", "a", cfg.a, i, self.wv(|w| av(w, i)))?;
                        self.put(&mut region, "rt", "b", cfg.b, i, self.wv(|w| bv(w, i)))?;
                    }
                    let c = self.wv(|w| av(w, 0) + bv(w, 2).double() + av(w, 3) * bv(w, 1));
                    self.put(&mut region, "rt", "c", cfg.c, 1, c)?;
                    Ok(())
                },
            )?;
        }

        // --- table lookup
        if let (Some(q), Some(t)) = (cfg.q_lk, cfg.t) {
            layouter.assign_table(
                || "t",
                |mut table| {
                    for j in 0..8u64 {
                        table.assign_cell(|| "t", t, j as usize, || Value::known(F::from(3 * j)))?;
                    }
                    Ok(())
                },
            )?;
            layouter.assign_region(
                || "lk",
                |mut region| {
                    for j in 0..2 {
                        q.enable(&mut region, j)?;
                        let v = self.wv(|w| F::from(3 * low_bits(&w.xs[j % rows], 8)));
                        self.put(&mut region, "lk", "b", cfg.b, j, v)?;
                    }
                    Ok(())
                },
            )?;
        }

        // --- table lookup into a table without the zero row
        if let (Some(q), Some(t)) = (cfg.q_nz, cfg.t_nz) {
            layouter.assign_table(
                || "t_nz",
                |mut table| {
                    for j in 0..8u64 {
                        table.assign_cell(|| "t_nz", t, j as usize, || Value::known(F::from(3 * (j + 1))))?;
                    }
                    Ok(())
                },
            )?;
            layouter.assign_region(
                || "nz",
                |mut region| {
                    for j in 0..2 {
                        q.enable(&mut region, j)?;
                        let v = self.wv(|w| F::from(3 * (1 + low_bits(&w.ys[j % rows], 8))));
                        self.put(&mut region, "nz", "b", cfg.b, j, v)?;
                    }
                    Ok(())
                },
            )?;
        }

        // --- lookup_any against two fixed columns
        if let (Some(q), Some(ta), Some(tb)) = (cfg.q_la, cfg.tfa, cfg.tfb) {
            layouter.assign_region(
                || "tf",
                |mut region| {
                    for j in 0..7u64 {
                        let (x, y) = if j == 0 {
                            (F::ZERO, F::ZERO)
                        } else {
                            (F::from(j), F::from(j * j + 5))
                        };
                        region.assign_fixed(|| "tfa", ta, j as usize, || Value::known(x))?;
                        region.assign_fixed(|| "tfb", tb, j as usize, || Value::known(y))?;
                    }
                    Ok(())
                },
            )?;
            layouter.assign_region(
                || "la",
                |mut region| {
                    for j in 0..2 {
                        q.enable(&mut region, j)?;
                        let m = |w: &FamWitness| 1 + low_bits(&w.ys[j % rows], 6);
                        self.put(&mut region, "la", "a", cfg.a, j, self.wv(|w| F::from(m(w))))?;
                        self.put(
                            &mut region,
                            "la",
                            "c",
                            cfg.c,
                            j,
                            self.wv(|w| F::from(m(w) * m(w) + 5)),
                        )?;
                    }
                    Ok(())
                },
            )?;
        }

        // --- additive-selector gate
        if let Some(q) = cfg.q_tr {
            layouter.assign_region(
                || "tr",
                |mut region| {
                    q.enable(&mut region, 0)?;
                    self.put(&mut region, "tr", "a", cfg.a, 0, self.wv(|w| w.xs[0]))?;
                    self.put(&mut region, "tr", "b", cfg.b, 0, self.wv(|w| w.ys[0]))?;
                    self.put(&mut region, "tr", "c", cfg.c, 0, self.wv(|w| w.xs[0] * w.ys[0]))?;
                    let sq = self.wv(|w| (w.xs[0] - w.ys[0]).square());
                    self.put(&mut region, "tr", "a", cfg.a, 1, sq)?;
                    Ok(())
                },
            )?;
        }

        // --- unblinded column
        if let (Some(q), Some(u)) = (cfg.q_u, cfg.u) {
            layouter.assign_region(
                || "ub",
                |mut region| {
                    q.enable(&mut region, 0)?;
                    self.put(&mut region, "ub", "a", cfg.a, 0, self.wv(|w| w.xs[0]))?;
                    self.put(&mut region, "ub", "u", u, 0, self.wv(|w| w.xs[0] + F::from(7)))?;
                    Ok(())
                },
            )?;
        }

        // --- later phases
        if let (Some(q2), Some(d), Some(ch1)) = (cfg.q_p2, cfg.d, cfg.ch1) {
            let c1 = layouter.get_challenge(ch1);
            let c1b = layouter.get_challenge(cfg.ch1b.expect("second first-phase challenge"));
            let c2 = cfg.ch2.map(|c| layouter.get_challenge(c));
            layouter.assign_region(
                || "ph",
                |mut region| {
                    q2.enable(&mut region, 0)?;
                    self.put(&mut region, "ph", "a", cfg.a, 0, self.wv(|w| w.xs[0]))?;
                    self.put(&mut region, "ph", "b", cfg.b, 0, self.wv(|w| w.ys[0]))?;
                    let dv = self
                        .wv(|w| (w.xs[0], w.ys[0]))
                        .zip(c1)
                        .zip(c1b)
                        .map(|(((x, y), c), cb)| x * c + y * cb);
                    self.put(&mut region, "ph", "d", d, 0, dv)?;
                    if let (Some(q3), Some(e), Some(c2)) = (cfg.q_p3, cfg.e, c2) {
                        q3.enable(&mut region, 0)?;
                        let ev = dv.zip(c2).zip(c1).map(|((d, c2), c1)| d * c2 + c1);
                        self.put(&mut region, "ph", "e", e, 0, ev)?;
                    }
                    Ok(())
                },
            )?;
        }

        // --- copies
        if p.copy_adv || p.copy_const || p.copy_inst {
            let inst_cell = layouter.assign_region(
                || "cp",
                |mut region| {
                    if p.copy_adv {
                        // tied to an input cell of the main region (a pure advice-advice cycle)
                        let v = self.wv(|w| w.xs[0]);
                        let cell = self.put(&mut region, "cp", "a", cfg.a, 0, v)?;
                        region.constrain_equal(cell.cell(), main_ins[0].cell())?;
                        if p.copy_dup {
                            // the same pair again, in the other direction
                            region.constrain_equal(main_ins[0].cell(), cell.cell())?;
                            // and a triangle cp.a[0] = cp.a[1], cp.a[1] = mn.a[0], (mn.a[0] = cp.a[0])
                            let cell1 = self.put(&mut region, "cp", "a", cfg.a, 1, v)?;
                            region.constrain_equal(cell.cell(), cell1.cell())?;
                            region.constrain_equal(cell1.cell(), main_ins[0].cell())?;
                            region.constrain_equal(main_ins[0].cell(), cell.cell())?;
                        }
                    }
                    if p.copy_const {
                        let cell =
                            self.put(&mut region, "cp", "b", cfg.b, 0, Value::known(F::from(5)))?;
                        region.constrain_constant(cell.cell(), F::from(5))?;
                    }
                    if p.copy_inst {
                        let cell = self.put(&mut region, "cp", "c", cfg.c, 0, self.iv(0, 0))?;
                        return Ok(Some(cell));
                    }
                    Ok(None)
                },
            )?;
            if let Some(cell) = inst_cell {
                layouter.constrain_instance(cell.cell(), cfg.inst[0], 0)?;
            }
        }

        // --- the rotation-first column
        if let (Some(q), Some(z)) = (cfg.q_z, cfg.z) {
            layouter.assign_region(
                || "zz",
                |mut region| {
                    q.enable(&mut region, 1)?;
                    self.put(&mut region, "zz", "z", z, 0, self.wv(|w| w.xs[0]))?;
                    self.put(&mut region, "zz", "z", z, 1, self.wv(|w| w.xs[0] + F::ONE))?;
                    Ok(())
                },
            )?;
        }

        // --- junk: assigned cells that no constraint touches
        layouter.assign_region(
            || "jk",
            |mut region| {
                self.put(&mut region, "jk", "a", cfg.a, 0, self.wv(|w| w.junk[0]))?;
                self.put(&mut region, "jk", "b", cfg.b, 0, self.wv(|w| w.junk[1]))?;
                self.put(&mut region, "jk", "c", cfg.c, 0, self.wv(|w| w.junk[2]))?;
                Ok(())
            },
        )?;
        Ok(())
    }
}

/// Which constraint classes protect a cell (used for anti-vacuity accounting in C02).
pub fn is_junk(cell: &CellId) -> bool {
    cell.0 == "jk"
}

/// What a cell is tied to by a copy constraint.
#[derive(Clone, Debug, PartialEq)]
pub enum Tie {
    Cell(CellId),
    Inst(usize, usize),
    Const(F),
}

/// The copy constraints the family creates, as declared by construction (independent of the
/// permutation assembly of the code under test).
pub fn ties(p: &FamParams) -> Vec<(CellId, Tie)> {
    let mut t = vec![];
    let n = p.n_inst as usize;
    if p.copy_inst {
        for j in 0..p.rows as usize {
            let (col, row) = (j % n, 2 + j / n);
            if row < ILEN {
                t.push((("mn", "c", j), Tie::Inst(col, row)));
            }
        }
        t.push((("cp", "c", 0), Tie::Inst(0, 0)));
    }
    if p.copy_adv {
        t.push((("cp", "a", 0), Tie::Cell(("mn", "a", 0))));
        if p.copy_dup {
            t.push((("cp", "a", 1), Tie::Cell(("mn", "a", 0))));
            t.push((("cp", "a", 1), Tie::Cell(("cp", "a", 0))));
        }
    }
    if p.copy_const {
        t.push((("cp", "b", 0), Tie::Const(F::from(5))));
    }
    t
}
