//! vfam — the proving-API lattice engine (E3): the parameterised circuit family `Fam(p)`, a
//! recording transcript, prove/verify wrappers, an independent row evaluator of constraint
//! systems over MockProver tables, and the Fiat–Shamir schedule model.

pub mod api;
pub mod fam;
pub mod lattice;
pub mod rectrans;
pub mod roweval;
pub mod schedule;
pub mod stdrel;

pub use fam::F;
