//! The Fiat–Shamir schedule model: a third, independent description of the order in which
//! prover and verifier must touch the transcript, written from the protocol description (halo2
//! book transcript order + this fork's additions: committed instances, trash argument,
//! multi-phase advice) and parameterised only by *counts* read from the constraint system.
//!
//! A state of the model is a prefix of the event list; a transition appends one event. The
//! check C01 replays the list against the recorded prover trace and the recorded verifier trace.

use std::collections::{BTreeMap, BTreeSet};

use midnight_proofs::plonk::ConstraintSystem;

use crate::fam::F;

#[derive(Clone, Debug, PartialEq, Eq)]
pub enum Ev {
    /// absorbed by both sides, not in the proof; `'S'` scalar or `'G'` group element
    Common(char, &'static str),
    /// written by the prover / read by the verifier
    Msg(char, &'static str),
    /// challenge
    Squeeze(&'static str),
}

/// Shape of the statement being proven.
pub struct Shape {
    pub num_proofs: usize,
    pub nb_committed: usize,
    /// length of each *plain* instance column, per proof
    pub plain_lens: Vec<Vec<usize>>,
}

pub fn schedule(cs: &ConstraintSystem<F>, quotient_pieces: usize, sh: &Shape) -> Vec<Ev> {
    let mut ev = vec![];
    let np = sh.num_proofs;
    // verifying-key identity
    ev.push(Ev::Common('S', "vk"));
    // statement: per proof, committed instance commitments, then each plain column as
    // (length, values...)
    for p in 0..np {
        for _ in 0..sh.nb_committed {
            ev.push(Ev::Common('G', "committed-instance"));
        }
        for len in &sh.plain_lens[p] {
            ev.push(Ev::Common('S', "instance-len"));
            for _ in 0..*len {
                ev.push(Ev::Common('S', "instance-value"));
            }
        }
    }
    // advice, phase by phase
    let col_phase = cs.advice_column_phase();
    let ch_phase = cs.challenge_phase();
    let max_phase = col_phase.iter().chain(ch_phase.iter()).copied().max().unwrap_or(0);
    for phase in 0..=max_phase {
        for _ in 0..np {
            for _ in col_phase.iter().filter(|p| **p == phase) {
                ev.push(Ev::Msg('G', "advice"));
            }
        }
        for _ in ch_phase.iter().filter(|p| **p == phase) {
            ev.push(Ev::Squeeze("phase-challenge"));
        }
    }
    ev.push(Ev::Squeeze("theta"));
    let n_lookups = cs.lookups().len();
    for _ in 0..np {
        for _ in 0..n_lookups {
            ev.push(Ev::Msg('G', "lookup-permuted-input"));
            ev.push(Ev::Msg('G', "lookup-permuted-table"));
        }
    }
    ev.push(Ev::Squeeze("beta"));
    ev.push(Ev::Squeeze("gamma"));
    // permutation products: the columns are split into chunks of (degree − 2)
    let n_perm_cols = cs.permutation().get_columns().len();
    let chunk = cs.degree() - 2;
    let n_chunks = n_perm_cols.div_ceil(chunk);
    for _ in 0..np {
        for _ in 0..n_chunks {
            ev.push(Ev::Msg('G', "permutation-product"));
        }
    }
    for _ in 0..np {
        for _ in 0..n_lookups {
            ev.push(Ev::Msg('G', "lookup-product"));
        }
    }
    ev.push(Ev::Squeeze("trash-challenge"));
    let n_trash = cs.trashcans().len();
    for _ in 0..np {
        for _ in 0..n_trash {
            ev.push(Ev::Msg('G', "trash"));
        }
    }
    ev.push(Ev::Msg('G', "vanishing-random"));
    ev.push(Ev::Squeeze("y"));
    for _ in 0..quotient_pieces {
        ev.push(Ev::Msg('G', "h-piece"));
    }
    ev.push(Ev::Squeeze("x"));
    // evaluations
    let committed_inst_queries =
        cs.instance_queries().iter().filter(|(c, _)| c.index() < sh.nb_committed).count();
    for _ in 0..np {
        for _ in 0..committed_inst_queries {
            ev.push(Ev::Msg('S', "committed-instance-eval"));
        }
    }
    for _ in 0..np {
        for _ in 0..cs.advice_queries().len() {
            ev.push(Ev::Msg('S', "advice-eval"));
        }
    }
    for _ in 0..cs.fixed_queries().len() {
        ev.push(Ev::Msg('S', "fixed-eval"));
    }
    ev.push(Ev::Msg('S', "vanishing-random-eval"));
    for _ in 0..n_perm_cols {
        ev.push(Ev::Msg('S', "permutation-common-eval"));
    }
    for _ in 0..np {
        for c in 0..n_chunks {
            ev.push(Ev::Msg('S', "permutation-product-eval"));
            ev.push(Ev::Msg('S', "permutation-product-next-eval"));
            if c + 1 != n_chunks {
                ev.push(Ev::Msg('S', "permutation-product-last-eval"));
            }
        }
    }
    for _ in 0..np {
        for _ in 0..n_lookups {
            for name in [
                "lookup-product-eval",
                "lookup-product-next-eval",
                "lookup-permuted-input-eval",
                "lookup-permuted-input-inv-eval",
                "lookup-permuted-table-eval",
            ] {
                ev.push(Ev::Msg('S', name));
            }
        }
    }
    for _ in 0..np {
        for _ in 0..n_trash {
            ev.push(Ev::Msg('S', "trash-eval"));
        }
    }
    // multi-opening: one q-evaluation per distinct set of opening points
    ev.push(Ev::Squeeze("x1"));
    ev.push(Ev::Squeeze("x2"));
    ev.push(Ev::Msg('G', "f"));
    ev.push(Ev::Squeeze("x3"));
    for _ in 0..distinct_point_sets(cs, sh, n_chunks) {
        ev.push(Ev::Msg('S', "q-eval"));
    }
    ev.push(Ev::Squeeze("x4"));
    ev.push(Ev::Msg('G', "pi"));
    ev
}

/// Number of distinct rotation sets over all opened polynomials.
fn distinct_point_sets(cs: &ConstraintSystem<F>, sh: &Shape, n_chunks: usize) -> usize {
    let mut sets: BTreeSet<BTreeSet<i32>> = BTreeSet::new();
    let mut per_col: BTreeMap<(u8, usize), BTreeSet<i32>> = BTreeMap::new();
    for (c, r) in cs.instance_queries() {
        if c.index() < sh.nb_committed {
            per_col.entry((0, c.index())).or_default().insert(r.0);
        }
    }
    for (c, r) in cs.advice_queries() {
        per_col.entry((1, c.index())).or_default().insert(r.0);
    }
    for (c, r) in cs.fixed_queries() {
        per_col.entry((2, c.index())).or_default().insert(r.0);
    }
    for s in per_col.into_values() {
        sets.insert(s);
    }
    let last = -((cs.blinding_factors() + 1) as i32);
    for c in 0..n_chunks {
        let mut s: BTreeSet<i32> = [0, 1].into_iter().collect();
        if c + 1 != n_chunks {
            s.insert(last);
        }
        sets.insert(s);
    }
    if !cs.lookups().is_empty() {
        sets.insert([0, 1].into_iter().collect()); // product
        sets.insert([0, -1].into_iter().collect()); // permuted input
        sets.insert([0].into_iter().collect()); // permuted table
    }
    // trash, permutation-common (sigma), h and the vanishing random polynomial: {0}
    sets.insert([0].into_iter().collect());
    sets.len()
}
