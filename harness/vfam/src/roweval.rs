//! Independent row evaluator: decides satisfaction of a constraint system over the tables of a
//! `MockProver` — gates on usable rows, lookups as set inclusion, copy constraints along the
//! permutation cycles, and additive-selector ("trash") constraints — without using any of
//! `MockProver::verify`. Used as the arbiter R in C02 and as the trash evaluation of E1.
//!
//! Semantics (from the PLONK/halo2 argument, not from the code under test):
//! * a gate polynomial must vanish on every row of the domain (rotations wrap modulo n); cells of
//!   the unusable rows are random in a real proof and read as poisoned here;
//! * for a lookup, the tuple of input expressions on every usable row must equal the tuple of
//!   table expressions on some usable row;
//! * for every cell of a permutation column, its value equals the value of the cell the
//!   permutation maps it to;
//! * for a trash argument, on every usable row where the selector evaluates to 1 every
//!   constraint expression must vanish (when the selector is not 1 the free `trash` column can
//!   absorb any value).
//! Unassigned cells read as 0, as in the real prover. Blinding rows are never read by an
//! enabled constraint of the circuits this is applied to; if one is, it is reported.

use std::collections::HashSet;

use blake2b_simd::blake2b;
use ff::{Field, FromUniformBytes};
use midnight_proofs::{
    dev::{CellValue, InstanceValue, MockProver},
    plonk::{Any, Expression},
};
use rayon::iter::ParallelIterator;

use crate::fam::F;

#[derive(Clone, Debug, PartialEq, Eq, Hash, PartialOrd, Ord)]
pub enum Class {
    Gate(String),
    Lookup(String),
    CopyAdvAdv,
    CopyAdvInst,
    CopyAdvFixed,
    CopyOther,
    Trash(String),
    /// an enabled constraint reads a blinding ("poisoned") row
    Poisoned(String),
}

impl Class {
    pub fn short(&self) -> String {
        match self {
            Class::Gate(n) => format!("gate:{n}"),
            Class::Lookup(n) => format!("lookup:{n}"),
            Class::CopyAdvAdv => "copy:adv-adv".into(),
            Class::CopyAdvInst => "copy:adv-inst".into(),
            Class::CopyAdvFixed => "copy:adv-const".into(),
            Class::CopyOther => "copy:other".into(),
            Class::Trash(n) => format!("trash:{n}"),
            Class::Poisoned(n) => format!("poisoned:{n}"),
        }
    }
}

/// The challenges `MockProver` derives (a public, documented hash chain).
pub fn mock_challenges(n: usize) -> Vec<F> {
    let mut hash: [u8; 64] = blake2b(b"Halo2-MockProver").as_bytes().try_into().unwrap();
    (0..n)
        .map(|_| {
            hash = blake2b(&hash).as_bytes().try_into().unwrap();
            F::from_uniform_bytes(&hash)
        })
        .collect()
}

pub struct Tables<'a> {
    pub n: usize,
    pub usable: std::ops::Range<usize>,
    pub advice: &'a [Vec<CellValue<F>>],
    pub fixed: &'a [Vec<CellValue<F>>],
    pub instance: &'a [Vec<InstanceValue<F>>],
    pub challenges: Vec<F>,
}

#[derive(Clone, Copy)]
struct Ev {
    v: F,
    poisoned: bool,
}

impl<'a> Tables<'a> {
    fn cell(&self, c: &CellValue<F>) -> Ev {
        match c {
            CellValue::Assigned(v) => Ev {
                v: *v,
                poisoned: false,
            },
            CellValue::Unassigned => Ev {
                v: F::ZERO,
                poisoned: false,
            },
            CellValue::Poison(_) => Ev {
                v: F::ZERO,
                poisoned: true,
            },
        }
    }
    fn row(&self, row: usize, rot: i32) -> usize {
        ((row as i64 + rot as i64).rem_euclid(self.n as i64)) as usize
    }
    fn eval(&self, e: &Expression<F>, row: usize) -> Ev {
        let clean = |v: F| Ev {
            v,
            poisoned: false,
        };
        e.evaluate(
            &|c| clean(c),
            &|_| panic!("selectors must have been converted to fixed columns"),
            &|q| self.cell(&self.fixed[q.column_index()][self.row(row, q.rotation().0)]),
            &|q| self.cell(&self.advice[q.column_index()][self.row(row, q.rotation().0)]),
            &|q| match &self.instance[q.column_index()][self.row(row, q.rotation().0)] {
                InstanceValue::Assigned(v) => clean(*v),
                InstanceValue::Padding => clean(F::ZERO),
            },
            &|ch| clean(self.challenges[ch.index()]),
            &|a| Ev {
                v: -a.v,
                poisoned: a.poisoned,
            },
            &|a, b| Ev {
                v: a.v + b.v,
                poisoned: a.poisoned || b.poisoned,
            },
            // a product with an exact zero factor does not depend on the other factor
            &|a, b| {
                let za = !a.poisoned && a.v.is_zero_vartime();
                let zb = !b.poisoned && b.v.is_zero_vartime();
                Ev {
                    v: a.v * b.v,
                    poisoned: (a.poisoned || b.poisoned) && !za && !zb,
                }
            },
            &|a, s| Ev {
                v: a.v * s,
                poisoned: a.poisoned && !s.is_zero_vartime(),
            },
        )
    }
}

/// Evaluates every constraint class; returns the set of violated classes.
pub fn violated_classes(prover: &MockProver<F>) -> Vec<Class> {
    let cs = prover.cs();
    let n = prover.advice().first().map(|c| c.len()).unwrap_or_else(|| prover.fixed()[0].len());
    let t = Tables {
        n,
        usable: prover.usable_rows().clone(),
        advice: prover.advice(),
        fixed: prover.fixed(),
        instance: prover.instance(),
        challenges: mock_challenges(cs.num_challenges()),
    };
    let mut out: HashSet<Class> = HashSet::new();

    // gates: on every row of the domain. On the unusable rows advice cells read as poisoned (the
    // prover fills them with randomness); an honest circuit has no enabled constraint there,
    // because selectors cannot be assigned on those rows — but a flag read at a negative rotation
    // can reach the first of them.
    for gate in cs.gates() {
        for poly in gate.polynomials() {
            for row in 0..t.n {
                let e = t.eval(poly, row);
                if e.poisoned {
                    out.insert(Class::Poisoned(gate.name().to_string()));
                } else if !e.v.is_zero_vartime() {
                    out.insert(Class::Gate(gate.name().to_string()));
                }
            }
        }
    }

    // lookups
    for lk in cs.lookups() {
        let table: HashSet<Vec<[u8; 32]>> = t
            .usable
            .clone()
            .map(|row| {
                lk.table_expressions()
                    .iter()
                    .map(|e| {
                        use ff::PrimeField;
                        t.eval(e, row).v.to_repr()
                    })
                    .collect::<Vec<_>>()
            })
            .collect();
        for row in t.usable.clone() {
            let mut poisoned = false;
            let input: Vec<[u8; 32]> = lk
                .input_expressions()
                .iter()
                .map(|e| {
                    use ff::PrimeField;
                    let ev = t.eval(e, row);
                    poisoned |= ev.poisoned;
                    ev.v.to_repr()
                })
                .collect();
            if poisoned {
                out.insert(Class::Poisoned(lk.name().to_string()));
            } else if !table.contains(&input) {
                out.insert(Class::Lookup(lk.name().to_string()));
            }
        }
    }

    // copy constraints
    let perm = prover.permutation();
    let cols = perm.columns().to_vec();
    let mapping: Vec<Vec<(usize, usize)>> = perm.mapping().map(|c| c.collect()).collect();
    let value = |ci: usize, row: usize| -> F {
        let col = cols[ci];
        match col.column_type() {
            Any::Advice(_) => t.cell(&t.advice[col.index()][row]).v,
            Any::Fixed => t.cell(&t.fixed[col.index()][row]).v,
            Any::Instance => match &t.instance[col.index()][row] {
                InstanceValue::Assigned(v) => *v,
                InstanceValue::Padding => F::ZERO,
            },
        }
    };
    for (ci, col_map) in mapping.iter().enumerate() {
        for (row, &(cj, rj)) in col_map.iter().enumerate() {
            if (cj, rj) == (ci, row) {
                continue;
            }
            if value(ci, row) != value(cj, rj) {
                let ty = |k: usize| match cols[k].column_type() {
                    Any::Advice(_) => 0,
                    Any::Instance => 1,
                    Any::Fixed => 2,
                };
                let mut pair = [ty(ci), ty(cj)];
                pair.sort();
                out.insert(match pair {
                    [0, 0] => Class::CopyAdvAdv,
                    [0, 1] => Class::CopyAdvInst,
                    [0, 2] => Class::CopyAdvFixed,
                    _ => Class::CopyOther,
                });
            }
        }
    }

    // trash arguments
    for tr in cs.trashcans() {
        for row in t.usable.clone() {
            let q = t.eval(tr.selector(), row);
            if q.poisoned {
                out.insert(Class::Poisoned(tr.name().to_string()));
                continue;
            }
            if q.v == F::ONE {
                for e in tr.constraint_expressions() {
                    let ev = t.eval(e, row);
                    if ev.poisoned {
                        out.insert(Class::Poisoned(tr.name().to_string()));
                    } else if !ev.v.is_zero_vartime() {
                        out.insert(Class::Trash(tr.name().to_string()));
                    }
                }
            }
        }
    }

    let mut v: Vec<Class> = out.into_iter().collect();
    v.sort();
    v
}

/// Only the trash classes (used by E1 to complement `MockProver::verify`).
pub fn trash_violations(prover: &MockProver<F>) -> Vec<Class> {
    violated_classes(prover).into_iter().filter(|c| matches!(c, Class::Trash(_))).collect()
}
