//! Thin wrappers over the real proving API (`keygen_*`, `create_proof`, `prepare`, `verify`).

use std::collections::HashMap;
use std::sync::{Arc, Mutex, OnceLock};

use blake2b_simd::State as Blake2bState;
use midnight_circuits::hash::poseidon::PoseidonState;
use midnight_curves::{Bls12, G1Projective};
use midnight_proofs::{
    plonk::{
        commit_to_instances, create_proof, keygen_pk, keygen_vk_with_k, prepare, Circuit, Error,
        ProvingKey, VerifyingKey,
    },
    poly::{
        commitment::Guard,
        kzg::{
            params::{ParamsKZG, ParamsVerifierKZG},
            KZGCommitmentScheme,
        },
    },
    transcript::{CircuitTranscript, Hashable, Sampleable, Transcript},
};
use rand_chacha::ChaCha20Rng;
use rand_core::SeedableRng;

use crate::fam::F;

pub type Kzg = KZGCommitmentScheme<Bls12>;
pub type Params = ParamsKZG<Bls12>;
pub type VParams = ParamsVerifierKZG<Bls12>;
pub type Vk = VerifyingKey<F, Kzg>;
pub type Pk = ProvingKey<F, Kzg>;
pub type BlakeT = CircuitTranscript<Blake2bState>;
pub type PoseidonT = CircuitTranscript<PoseidonState<F>>;

/// SRS from a seeded RNG (so the harness knows the toxic secret if it wants to), cached.
pub fn setup(k: u32, seed: u64) -> Arc<Params> {
    static CACHE: OnceLock<Mutex<HashMap<(u32, u64), Arc<Params>>>> = OnceLock::new();
    let cache = CACHE.get_or_init(|| Mutex::new(HashMap::new()));
    if let Some(p) = cache.lock().unwrap().get(&(k, seed)) {
        return p.clone();
    }
    let p = Arc::new(Params::unsafe_setup(k, vcore::rng_for(seed, "srs")));
    cache.lock().unwrap().insert((k, seed), p.clone());
    p
}

pub fn keygen<C: Circuit<F>>(params: &Params, circuit: &C, k: u32) -> Result<Pk, Error> {
    let vk = keygen_vk_with_k::<F, Kzg, C>(params, circuit, k)?;
    keygen_pk(vk, circuit)
}

#[derive(Clone, Debug, PartialEq, Eq)]
pub enum Verdict {
    Accept,
    /// error from `prepare` (parsing / algebraic part)
    RejectPrepare(String),
    /// trailing bytes
    RejectTrailing,
    /// the final pairing check failed
    RejectPairing,
}

impl Verdict {
    pub fn accepted(&self) -> bool {
        *self == Verdict::Accept
    }
    pub fn name(&self) -> &'static str {
        match self {
            Verdict::Accept => "accept",
            Verdict::RejectPrepare(_) => "reject-prepare",
            Verdict::RejectTrailing => "reject-trailing",
            Verdict::RejectPairing => "reject-pairing",
        }
    }
}

/// Proves `circuits` together. `instances[proof][column]`.
pub fn prove<T, C>(
    params: &Params,
    pk: &Pk,
    circuits: &[C],
    nb_committed: usize,
    instances: &[Vec<Vec<F>>],
    blind_seed: u64,
) -> Result<Vec<u8>, Error>
where
    T: Transcript,
    C: Circuit<F>,
    G1Projective: Hashable<T::Hash>,
    F: Hashable<T::Hash> + Sampleable<T::Hash>,
{
    let inst_refs: Vec<Vec<&[F]>> =
        instances.iter().map(|p| p.iter().map(|c| c.as_slice()).collect()).collect();
    let inst_refs2: Vec<&[&[F]]> = inst_refs.iter().map(|p| p.as_slice()).collect();
    let mut transcript = T::init();
    create_proof::<F, Kzg, T, C>(
        params,
        pk,
        circuits,
        nb_committed,
        &inst_refs2,
        ChaCha20Rng::seed_from_u64(blind_seed),
        &mut transcript,
    )?;
    Ok(transcript.finalize())
}

/// Commitments to the first `nb_committed` instance columns of every proof.
pub fn commit_instances(
    params: &Params,
    vk: &Vk,
    nb_committed: usize,
    instances: &[Vec<Vec<F>>],
) -> Vec<Vec<G1Projective>> {
    instances
        .iter()
        .map(|p| {
            p[..nb_committed]
                .iter()
                .map(|col| commit_to_instances::<F, Kzg>(params, vk.get_domain(), col))
                .collect()
        })
        .collect()
}

/// `prepare` + trailing-bytes check + final `verify`, exactly the sequence C01 names.
pub fn verify<T>(
    vparams: &VParams,
    vk: &Vk,
    committed: &[Vec<G1Projective>],
    plain: &[Vec<Vec<F>>],
    proof: &[u8],
) -> Verdict
where
    T: Transcript,
    G1Projective: Hashable<T::Hash>,
    F: Hashable<T::Hash> + Sampleable<T::Hash>,
{
    let com_refs: Vec<&[G1Projective]> = committed.iter().map(|c| c.as_slice()).collect();
    let inst_refs: Vec<Vec<&[F]>> =
        plain.iter().map(|p| p.iter().map(|c| c.as_slice()).collect()).collect();
    let inst_refs2: Vec<&[&[F]]> = inst_refs.iter().map(|p| p.as_slice()).collect();
    let mut transcript = T::init_from_bytes(proof);
    let guard = match prepare::<F, Kzg, T>(vk, &com_refs, &inst_refs2, &mut transcript) {
        Ok(g) => g,
        Err(e) => return Verdict::RejectPrepare(format!("{e:?}")),
    };
    if transcript.assert_empty().is_err() {
        return Verdict::RejectTrailing;
    }
    match guard.verify(vparams) {
        Ok(()) => Verdict::Accept,
        Err(_) => Verdict::RejectPairing,
    }
}

/// Splits full instances into (committed commitments, plain columns) as the verifier wants.
pub fn split_instances(
    params: &Params,
    vk: &Vk,
    nb_committed: usize,
    instances: &[Vec<Vec<F>>],
) -> (Vec<Vec<G1Projective>>, Vec<Vec<Vec<F>>>) {
    let committed = commit_instances(params, vk, nb_committed, instances);
    let plain = instances.iter().map(|p| p[nb_committed..].to_vec()).collect();
    (committed, plain)
}
