//! `RecordingTranscript<T>` wraps a real transcript and logs every Fiat–Shamir event
//! (kind, value type, bytes). `Transcript` is a public trait, so no hook is needed.

use std::{
    io,
    sync::{Arc, Mutex},
};

use midnight_proofs::transcript::{Hashable, Sampleable, Transcript};

#[derive(Clone, Debug, PartialEq, Eq)]
pub enum Kind {
    /// absorbed without being part of the proof
    Common,
    /// absorbed and written to the proof (prover) 
    Write,
    /// read from the proof and absorbed (verifier)
    Read,
    /// challenge squeezed
    Squeeze,
}

#[derive(Clone, Debug, PartialEq, Eq)]
pub struct Event {
    pub kind: Kind,
    /// `G` for a group element, `S` for a scalar, `?` otherwise
    pub ty: char,
    pub bytes: Vec<u8>,
}

pub type Log = Arc<Mutex<Vec<Event>>>;

thread_local! {
    /// The log that the next `RecordingTranscript::init*()` on this thread attaches to.
    static CURRENT: std::cell::RefCell<Option<Log>> = const { std::cell::RefCell::new(None) };
}

/// Creates a fresh log and makes it the one new transcripts on this thread record into.
pub fn new_log() -> Log {
    let l: Log = Arc::new(Mutex::new(vec![]));
    CURRENT.with(|c| *c.borrow_mut() = Some(l.clone()));
    l
}

fn ty_of<X>() -> char {
    let n = std::any::type_name::<X>();
    if n.contains("G1") || n.contains("G2") {
        'G'
    } else if n.ends_with("Fq") || n.ends_with("Fr") || n.ends_with("Fp") {
        'S'
    } else {
        '?'
    }
}

#[derive(Clone)]
pub struct RecordingTranscript<T: Transcript> {
    inner: T,
    log: Log,
}

impl<T: Transcript> RecordingTranscript<T> {
    fn push(&self, kind: Kind, ty: char, bytes: Vec<u8>) {
        self.log.lock().unwrap().push(Event { kind, ty, bytes });
    }
    pub fn log(&self) -> Log {
        self.log.clone()
    }
}

impl<T: Transcript> Transcript for RecordingTranscript<T> {
    type Hash = T::Hash;

    fn init() -> Self {
        let log = CURRENT.with(|c| c.borrow().clone()).unwrap_or_else(new_log);
        RecordingTranscript {
            inner: T::init(),
            log,
        }
    }

    fn init_from_bytes(bytes: &[u8]) -> Self {
        let log = CURRENT.with(|c| c.borrow().clone()).unwrap_or_else(new_log);
        RecordingTranscript {
            inner: T::init_from_bytes(bytes),
            log,
        }
    }

    fn squeeze_challenge<X: Sampleable<Self::Hash>>(&mut self) -> X {
        self.push(Kind::Squeeze, ty_of::<X>(), vec![]);
        self.inner.squeeze_challenge()
    }

    fn common<X: Hashable<Self::Hash>>(&mut self, input: &X) -> io::Result<()> {
        self.push(Kind::Common, ty_of::<X>(), input.to_bytes());
        self.inner.common(input)
    }

    fn read<X: Hashable<Self::Hash>>(&mut self) -> io::Result<X> {
        let v: X = self.inner.read()?;
        self.push(Kind::Read, ty_of::<X>(), v.to_bytes());
        Ok(v)
    }

    fn write<X: Hashable<Self::Hash>>(&mut self, input: &X) -> io::Result<()> {
        self.push(Kind::Write, ty_of::<X>(), input.to_bytes());
        self.inner.write(input)
    }

    fn finalize(self) -> Vec<u8> {
        self.inner.finalize()
    }

    fn assert_empty(&mut self) -> io::Result<()> {
        self.inner.assert_empty()
    }
}
