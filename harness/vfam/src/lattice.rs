//! Configurations of the proving-API lattice and the honest prove/verify round with recorded
//! transcripts.

use std::{
    collections::HashMap,
    sync::{Arc, Mutex, OnceLock},
};

use ff::Field;
use midnight_curves::G1Projective;
use midnight_proofs::{
    circuit::floor_planner::V1,
    circuit::SimpleFloorPlanner,
    dev::MockProver,
    plonk::{Circuit, Error},
    transcript::{Hashable, Sampleable, Transcript},
};
use rand_core::RngCore;

use crate::{
    api::{self, BlakeT, Params, Pk, PoseidonT, Verdict},
    fam::{honest_instance, Fam, FamParams, FamWitness, F, ILEN},
    rectrans::{self, Event, RecordingTranscript},
};

#[derive(Clone, Copy, Debug, PartialEq, Eq, Hash, PartialOrd, Ord)]
pub enum Hash {
    Blake2b,
    Poseidon,
}

#[derive(Clone, Copy, Debug, PartialEq, Eq, Hash, PartialOrd, Ord)]
pub enum Wit {
    Zero,
    Max,
    Seeded(u64),
}

#[derive(Clone, Debug, PartialEq, Eq, Hash, PartialOrd, Ord)]
pub struct Config {
    pub p: FamParams,
    pub v1: bool,
    pub num_proofs: usize,
    pub nb_committed: usize,
    pub k: u32,
    pub hash: Hash,
    pub wit: Wit,
}

impl Config {
    pub fn key(&self) -> String {
        format!(
            "{}{}-np{}-c{}-k{}-{:?}-{:?}",
            self.p.tag(),
            if self.v1 { "-v1" } else { "" },
            self.num_proofs,
            self.nb_committed,
            self.k,
            self.hash,
            self.wit
        )
    }
}

pub fn witness(p: &FamParams, wit: Wit, proof_idx: usize, seed: u64) -> (FamWitness, Vec<[F; ILEN]>) {
    let rows = p.rows as usize;
    let n = p.n_inst as usize;
    let mut rng = vcore::rng_for(seed, &format!("fam-wit-{wit:?}-{proof_idx}"));
    let gen = |rng: &mut dyn RngCore| match wit {
        Wit::Zero => F::ZERO,
        Wit::Max => -F::ONE,
        Wit::Seeded(_) => F::random(rng),
    };
    let xs = (0..rows).map(|_| gen(&mut rng)).collect();
    let ys = (0..rows).map(|_| gen(&mut rng)).collect();
    let junk = [gen(&mut rng), gen(&mut rng), gen(&mut rng)];
    let free = (0..n)
        .map(|_| {
            let mut a = [F::ZERO; ILEN];
            for x in a.iter_mut() {
                *x = gen(&mut rng);
            }
            a
        })
        .collect();
    (
        FamWitness {
            xs,
            ys,
            junk,
        },
        free,
    )
}

/// Honest (circuit, instance) for proof `idx` of a configuration.
pub fn honest<PL>(cfg: &Config, idx: usize, seed: u64) -> (Fam<PL>, Vec<Vec<F>>) {
    let (w, free) = witness(&cfg.p, cfg.wit, idx, seed);
    let inst = honest_instance(&cfg.p, &w, &free);
    (Fam::new(cfg.p.clone(), Some(w), Some(inst.clone())), inst)
}

type PkCache = Mutex<HashMap<(FamParams, bool, u32, u64), Result<Arc<Pk>, String>>>;

fn pk_cache() -> &'static PkCache {
    static C: OnceLock<PkCache> = OnceLock::new();
    C.get_or_init(|| Mutex::new(HashMap::new()))
}

/// Key generation from the witness-less circuit, cached per (params, planner, k, srs seed).
pub fn keys(p: &FamParams, v1: bool, k: u32, seed: u64) -> Result<(Arc<Params>, Arc<Pk>), String> {
    let params = api::setup(k, seed);
    let key = (p.clone(), v1, k, seed);
    if let Some(r) = pk_cache().lock().unwrap().get(&key) {
        return r.clone().map(|pk| (params, pk));
    }
    let r = vcore::catch(|| {
        if v1 {
            api::keygen(&params, &Fam::<V1>::new(p.clone(), None, None), k)
        } else {
            api::keygen(&params, &Fam::<SimpleFloorPlanner>::new(p.clone(), None, None), k)
        }
    });
    let r: Result<Arc<Pk>, String> = match r {
        Ok(Ok(pk)) => Ok(Arc::new(pk)),
        Ok(Err(e)) => Err(format!("{e:?}")),
        Err(p) => Err(format!("panic: {p}")),
    };
    pk_cache().lock().unwrap().insert(key, r.clone());
    r.map(|pk| (params, pk))
}

/// Smallest k in 4..=9 at which the circuit fits (keygen succeeds).
pub fn min_k(p: &FamParams, v1: bool, seed: u64) -> Option<u32> {
    // keygen only lays out fixed columns and copies: it does not notice advice rows that do
    // not fit. The circuit "fits" at k when a full synthesis (MockProver) succeeds as well.
    (4..=9).find(|k| {
        let cfg = Config {
            p: p.clone(),
            v1,
            num_proofs: 1,
            nb_committed: 0,
            k: *k,
            hash: Hash::Blake2b,
            wit: Wit::Seeded(0),
        };
        let fits = vcore::catch(|| {
            if v1 {
                let (c, i) = honest::<V1>(&cfg, 0, seed);
                MockProver::run(*k, &c, i).is_ok()
            } else {
                let (c, i) = honest::<SimpleFloorPlanner>(&cfg, 0, seed);
                MockProver::run(*k, &c, i).is_ok()
            }
        })
        .unwrap_or(false);
        fits && keys(p, v1, *k, seed).is_ok()
    })
}

pub struct Round {
    pub proof: Result<Vec<u8>, String>,
    pub prover_log: Vec<Event>,
    pub verdict: Option<Verdict>,
    pub verifier_log: Vec<Event>,
    pub instances: Vec<Vec<Vec<F>>>,
    pub committed: Vec<Vec<G1Projective>>,
    pub plain: Vec<Vec<Vec<F>>>,
    pub mock_ok: Option<bool>,
}

fn round_t<T, PL>(cfg: &Config, params: &Params, pk: &Pk, seed: u64, mock: bool) -> Round
where
    T: Transcript,
    PL: midnight_proofs::plonk::FloorPlanner,
    G1Projective: Hashable<T::Hash>,
    F: Hashable<T::Hash> + Sampleable<T::Hash>,
{
    let mut circuits = vec![];
    let mut instances = vec![];
    for idx in 0..cfg.num_proofs {
        let (c, i) = honest::<PL>(cfg, idx, seed);
        circuits.push(c);
        instances.push(i);
    }
    let mock_ok = mock.then(|| {
        MockProver::run(cfg.k, &circuits[0], instances[0].clone())
            .map(|m| m.verify().is_ok())
            .unwrap_or(false)
    });
    let plog = rectrans::new_log();
    let proof: Result<Vec<u8>, Error> = api::prove::<RecordingTranscript<T>, Fam<PL>>(
        params,
        pk,
        &circuits,
        cfg.nb_committed,
        &instances,
        seed ^ 0x5eed,
    );
    let prover_log = plog.lock().unwrap().clone();
    let (committed, plain) = api::split_instances(params, pk.get_vk(), cfg.nb_committed, &instances);
    let (verdict, verifier_log) = match &proof {
        Ok(bytes) => {
            let vlog = rectrans::new_log();
            let v = api::verify::<RecordingTranscript<T>>(
                &params.verifier_params(),
                pk.get_vk(),
                &committed,
                &plain,
                bytes,
            );
            let l = vlog.lock().unwrap().clone();
            (Some(v), l)
        }
        Err(_) => (None, vec![]),
    };
    Round {
        proof: proof.map_err(|e| format!("{e:?}")),
        prover_log,
        verdict,
        verifier_log,
        instances,
        committed,
        plain,
        mock_ok,
    }
}

/// One honest prove + verify round of a configuration, with both transcripts recorded.
pub fn round(cfg: &Config, seed: u64, mock: bool) -> Result<Round, String> {
    let (params, pk) = keys(&cfg.p, cfg.v1, cfg.k, seed)?;
    Ok(match (cfg.hash, cfg.v1) {
        (Hash::Blake2b, false) => round_t::<BlakeT, SimpleFloorPlanner>(cfg, &params, &pk, seed, mock),
        (Hash::Blake2b, true) => round_t::<BlakeT, V1>(cfg, &params, &pk, seed, mock),
        (Hash::Poseidon, false) => round_t::<PoseidonT, SimpleFloorPlanner>(cfg, &params, &pk, seed, mock),
        (Hash::Poseidon, true) => round_t::<PoseidonT, V1>(cfg, &params, &pk, seed, mock),
    })
}

/// Uniform way to call a generic function with the transcript type selected at run time.
pub fn verify_with(
    hash: Hash,
    params: &Params,
    vk: &api::Vk,
    committed: &[Vec<G1Projective>],
    plain: &[Vec<Vec<F>>],
    proof: &[u8],
) -> Verdict {
    match hash {
        Hash::Blake2b => {
            api::verify::<BlakeT>(&params.verifier_params(), vk, committed, plain, proof)
        }
        Hash::Poseidon => {
            api::verify::<PoseidonT>(&params.verifier_params(), vk, committed, plain, proof)
        }
    }
}

pub fn circuit_params<C: Circuit<F>>(c: &C) -> C::Params {
    c.params()
}
