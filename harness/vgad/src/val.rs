//! Value helpers: conversions between the native field and big integers, boundary alphabets,
//! decoders of raw public-input vectors for the simple types.

use ff::{Field, PrimeField};
use num_bigint::BigUint;
use num_traits::{One, Zero};

use crate::F;

pub fn modulus() -> BigUint {
    BigUint::parse_bytes(F::MODULUS.trim_start_matches("0x").as_bytes(), 16).unwrap()
}

pub fn to_big(x: &F) -> BigUint {
    BigUint::from_bytes_le(x.to_repr().as_ref())
}

pub fn from_big(x: &BigUint) -> F {
    let x = x % modulus();
    let mut b = x.to_bytes_le();
    b.resize(32, 0);
    let mut repr = <F as PrimeField>::Repr::default();
    repr.as_mut().copy_from_slice(&b);
    Option::from(F::from_repr(repr)).expect("canonical")
}

pub fn hex(x: &F) -> String {
    format!("0x{}", to_big(x).to_str_radix(16))
}

/// Boundary alphabet of the native field; `ks` adds 2^k-1, 2^k, 2^k+1 for the op's own bit sizes.
pub fn native_alphabet(ks: &[u32], n_seeded: usize, seed: u64, stream: &str) -> Vec<(String, F)> {
    let p = modulus();
    let mut out: Vec<(String, F)> = vec![];
    let mut push = |n: String, v: BigUint| {
        let f = from_big(&v);
        if !out.iter().any(|(_, x)| *x == f) {
            out.push((n, f));
        }
    };
    push("0".into(), BigUint::zero());
    push("1".into(), BigUint::one());
    push("2".into(), BigUint::from(2u32));
    push("p-1".into(), &p - 1u32);
    push("p-2".into(), &p - 2u32);
    push("(p-1)/2".into(), (&p - 1u32) >> 1);
    push("(p+1)/2".into(), (&p + 1u32) >> 1);
    for k in ks {
        let b = BigUint::one() << *k;
        push(format!("2^{k}-1"), &b - 1u32);
        push(format!("2^{k}"), b.clone());
        push(format!("2^{k}+1"), &b + 1u32);
    }
    let mut rng = vcore::rng_for(seed, stream);
    for i in 0..n_seeded {
        out.push((format!("seeded{i}"), F::random(&mut rng)));
    }
    out
}

pub fn as_bool(v: &F) -> Option<bool> {
    if *v == F::ZERO {
        Some(false)
    } else if *v == F::ONE {
        Some(true)
    } else {
        None
    }
}

pub fn as_u8(v: &F) -> Option<u8> {
    let b = to_big(v);
    if b < BigUint::from(256u32) {
        Some(b.to_u32_digits().first().copied().unwrap_or(0) as u8)
    } else {
        None
    }
}

pub fn fb(b: bool) -> F {
    if b {
        F::ONE
    } else {
        F::ZERO
    }
}
