//! vgad — the op-circuit explorer (engine E1) for the gadget properties C04–C09.
//!
//! An *op case* is (operation, static parameters, concrete inputs). The harness relation
//! assigns the inputs, runs the operation through the standard library, and exposes inputs and
//! outputs as public inputs. Every run goes through the real `MidnightCircuit` + `MockProver`.
//!
//! Deviation-bounded exploration of the prover's freedom (DESIGN §2.2-E1):
//!  * 0 deviations: honest witness ⇒ satisfiable and the exposed vector satisfies the reference
//!    relation; out-of-domain inputs ⇒ not satisfiable.
//!  * instance binding: every single-position edit of the exposed vector ⇒ rejected.
//!  * exposed-value lies ("cycle faults"): an exposed value and every cell copy-constrained to
//!    it are changed together ⇒ rejected, or the relation still holds.
//!  * 1 deviation, propagate mode: for every advice assignment index i and every fault value,
//!    the i-th assigned value is replaced *and returned to the library's own witness code*, which
//!    continues from the lie; acceptance is only allowed if the exposed vector still satisfies
//!    the reference relation.

use std::cell::RefCell;

use midnight_circuits::{instructions::PublicInputInstructions, types::{AssignedNative, Instantiable}};
use midnight_proofs::{
    circuit::{Layouter, Value},
    dev::{CellValue, InstanceValue, MockProver},
    plonk::{Any, Error},
    verif::{self, Fault, Mode},
};
use midnight_zk_stdlib::{MidnightCircuit, Relation, ZkStdLib, ZkStdLibArch};
use rayon::iter::ParallelIterator;
use serde_json::json;
use vcore::{catch, CaseOut, Viol};

pub mod laws;
pub mod val;

pub type F = midnight_curves::Fq;

/// What the reference says about an accepted execution, given the raw exposed vectors.
#[derive(Clone, Debug, PartialEq, Eq)]
pub enum Judgement {
    /// the exposed (inputs, outputs) satisfy the operation's definition, inputs in domain
    Holds,
    /// they do not
    Wrong(String),
}

pub trait OpCase: Clone + Send + Sync {
    /// unique, canonical description of the case (operation + parameters + inputs)
    fn key(&self) -> String;
    /// operation name (for finding keys and k caching)
    fn op(&self) -> String;
    fn arch(&self) -> ZkStdLibArch;
    fn max_bit_len(&self) -> u8 {
        8
    }
    /// Assign inputs, run the operation, expose inputs then outputs through `ex`.
    fn synth<L: Layouter<F>>(&self, std: &ZkStdLib, layouter: &mut L, ex: &Exposer) -> Result<(), Error>;
    /// Must the honest run be satisfiable (inputs inside the documented domain)?
    fn expect_sat(&self) -> bool;
    /// Judge an accepted execution from the raw exposed vectors (one Vec per exposure call).
    fn judge(&self, ins: &[Vec<F>], outs: &[Vec<F>]) -> Judgement;
}

/// Anything the explorer can run: a case that can build a `MockProver` of its circuit.
pub trait Runnable: Clone + Send + Sync {
    fn r_key(&self) -> String;
    fn r_op(&self) -> String;
    fn r_expect_sat(&self) -> bool;
    fn r_judge(&self, ins: &[Vec<F>], outs: &[Vec<F>]) -> Judgement;
    /// Synthesises the circuit with the (already installed) tamper plan.
    fn r_mock(&self, k: u32) -> Result<MockProver<F>, Error>;
}

impl<C: OpCase> Runnable for C {
    fn r_key(&self) -> String {
        self.key()
    }
    fn r_op(&self) -> String {
        self.op()
    }
    fn r_expect_sat(&self) -> bool {
        self.expect_sat()
    }
    fn r_judge(&self, ins: &[Vec<F>], outs: &[Vec<F>]) -> Judgement {
        self.judge(ins, outs)
    }
    fn r_mock(&self, k: u32) -> Result<MockProver<F>, Error> {
        let rel = OpRel(self.clone());
        let circuit = MidnightCircuit::new(&rel, Value::known(()), Value::known(()), Some(self.max_bit_len()));
        MockProver::run(k, &circuit, vec![vec![], vec![]])
    }
}

// ---------------------------------------------------------------------------------------------
// exposure log (thread-local: `Relation::circuit` has no side channel)
// ---------------------------------------------------------------------------------------------

#[derive(Default, Clone, Debug)]
struct ExpoLog {
    ins: Vec<Vec<Option<F>>>,
    outs: Vec<Vec<Option<F>>>,
    /// (is_output, exposure index, element index) in instance-row order
    order: Vec<(bool, usize, usize)>,
}

thread_local! {
    static EXPO: RefCell<ExpoLog> = RefCell::new(ExpoLog::default());
}

/// Handle given to `OpCase::synth` for exposing values.
pub struct Exposer;

impl Exposer {
    fn expose<T, CH, N, L>(&self, is_out: bool, chip: &CH, std: &N, layouter: &mut L, x: &T) -> Result<(), Error>
    where
        L: Layouter<F>,
        T: Instantiable<F>,
        CH: PublicInputInstructions<F, T>,
        N: PublicInputInstructions<F, AssignedNative<F>>,
    {
        let cells: Vec<AssignedNative<F>> = chip.as_public_input(layouter, x)?;
        let mut vals = vec![];
        for c in &cells {
            let mut v = None;
            c.value().map(|x| v = Some(*x));
            vals.push(v);
        }
        EXPO.with(|e| {
            let mut e = e.borrow_mut();
            let idx = if is_out { e.outs.len() } else { e.ins.len() };
            for j in 0..vals.len() {
                e.order.push((is_out, idx, j));
            }
            if is_out {
                e.outs.push(vals)
            } else {
                e.ins.push(vals)
            }
        });
        for c in &cells {
            std.constrain_as_public_input(layouter, c)?;
        }
        Ok(())
    }
    /// Expose an input value through `chip`'s in-circuit public-input encoding.
    pub fn input_with<T, CH, N, L>(&self, chip: &CH, std: &N, layouter: &mut L, x: &T) -> Result<(), Error>
    where
        L: Layouter<F>,
        T: Instantiable<F>,
        CH: PublicInputInstructions<F, T>,
        N: PublicInputInstructions<F, AssignedNative<F>>,
    {
        self.expose(false, chip, std, layouter, x)
    }
    pub fn output_with<T, CH, N, L>(&self, chip: &CH, std: &N, layouter: &mut L, x: &T) -> Result<(), Error>
    where
        L: Layouter<F>,
        T: Instantiable<F>,
        CH: PublicInputInstructions<F, T>,
        N: PublicInputInstructions<F, AssignedNative<F>>,
    {
        self.expose(true, chip, std, layouter, x)
    }
    pub fn input<T, N, L>(&self, std: &N, layouter: &mut L, x: &T) -> Result<(), Error>
    where
        L: Layouter<F>,
        T: Instantiable<F>,
        N: PublicInputInstructions<F, T> + PublicInputInstructions<F, AssignedNative<F>>,
    {
        self.expose(false, std, std, layouter, x)
    }
    pub fn output<T, N, L>(&self, std: &N, layouter: &mut L, x: &T) -> Result<(), Error>
    where
        L: Layouter<F>,
        T: Instantiable<F>,
        N: PublicInputInstructions<F, T> + PublicInputInstructions<F, AssignedNative<F>>,
    {
        self.expose(true, std, std, layouter, x)
    }
}

// ---------------------------------------------------------------------------------------------
// the harness relation
// ---------------------------------------------------------------------------------------------

#[derive(Clone)]
pub struct OpRel<C: OpCase>(pub C);

impl<C: OpCase> Relation for OpRel<C> {
    type Instance = ();
    type Witness = ();

    fn format_instance(_: &()) -> Result<Vec<F>, Error> {
        Ok(vec![])
    }

    fn circuit(&self, std_lib: &ZkStdLib, layouter: &mut impl Layouter<F>, _i: Value<()>, _w: Value<()>) -> Result<(), Error> {
        self.0.synth(std_lib, layouter, &Exposer)
    }

    fn used_chips(&self) -> ZkStdLibArch {
        self.0.arch()
    }

    fn write_relation<W: std::io::Write>(&self, _: &mut W) -> std::io::Result<()> {
        unimplemented!()
    }

    fn read_relation<R: std::io::Read>(_: &mut R) -> std::io::Result<Self> {
        unimplemented!()
    }
}

// ---------------------------------------------------------------------------------------------
// single runs
// ---------------------------------------------------------------------------------------------

#[derive(Clone, Debug, PartialEq, Eq)]
pub enum Outcome {
    Sat,
    Unsat(String),
    SynthErr(String),
    Panic(String),
}

impl Outcome {
    pub fn name(&self) -> &'static str {
        match self {
            Outcome::Sat => "sat",
            Outcome::Unsat(_) => "unsat",
            Outcome::SynthErr(_) => "synth-err",
            Outcome::Panic(_) => "crash-unsat",
        }
    }
}

pub struct RunOut {
    pub outcome: Outcome,
    pub ins: Vec<Vec<F>>,
    pub outs: Vec<Vec<F>>,
    /// the exposed vector in instance-row order
    pub flat: Vec<F>,
    order: Vec<(bool, usize, usize)>,
    pub n_assign: u64,
    pub untamperable: u64,
    pub applied: Vec<verif::Applied>,
    pub prover: Option<MockProver<F>>,
}

fn summarize(errs: &[midnight_proofs::dev::VerifyFailure]) -> String {
    let mut s: Vec<String> = errs
        .iter()
        .take(3)
        .map(|e| format!("{e:?}").split_whitespace().collect::<Vec<_>>().join(" ").chars().take(120).collect())
        .collect();
    if errs.len() > 3 {
        s.push(format!("… {} failures", errs.len()));
    }
    s.join(" | ")
}

/// One synthesis of the case under a tamper plan, with the instance set to the exposed vector.
pub fn run_once<C: Runnable>(case: &C, k: u32, plan: Vec<(u64, Fault, Mode)>, keep_prover: bool) -> RunOut {
    EXPO.with(|e| *e.borrow_mut() = ExpoLog::default());
    verif::set_plan(plan);
    let r = catch(|| case.r_mock(k));
    let (n_assign, untamperable) = verif::counters();
    let applied = verif::applied();
    verif::reset();
    let log = EXPO.with(|e| std::mem::take(&mut *e.borrow_mut()));
    let conv = |v: &Vec<Vec<Option<F>>>| -> Vec<Vec<F>> { v.iter().map(|x| x.iter().map(|y| y.unwrap_or(F::from(0))).collect()).collect() };
    let (ins, outs) = (conv(&log.ins), conv(&log.outs));
    let flat: Vec<F> = log.order.iter().map(|(o, i, j)| if *o { outs[*i][*j] } else { ins[*i][*j] }).collect();
    let mut out = RunOut {
        outcome: Outcome::Sat,
        ins,
        outs,
        flat,
        order: log.order,
        n_assign,
        untamperable,
        applied,
        prover: None,
    };
    let mut prover = match r {
        Err(p) => {
            out.outcome = Outcome::Panic(p);
            return out;
        }
        Ok(Err(e)) => {
            out.outcome = Outcome::SynthErr(format!("{e:?}"));
            return out;
        }
        Ok(Ok(p)) => p,
    };
    {
        let inst = prover.instance_mut();
        for (i, v) in out.flat.iter().enumerate() {
            inst[1][i] = InstanceValue::Assigned(*v);
        }
    }
    match catch(|| prover.verify()) {
        Err(p) => out.outcome = Outcome::Panic(format!("verify: {p}")),
        Ok(Err(errs)) => out.outcome = Outcome::Unsat(summarize(&errs)),
        Ok(Ok(())) => {}
    }
    if keep_prover {
        out.prover = Some(prover);
    }
    out
}

/// Evaluates the table expressions of the lookup argument called `name` on every usable row of
/// a synthesised `MockProver` (unassigned cells read as 0, rotations wrap): the rows of a
/// *dynamic* table as the lookup argument sees them. `None` if there is no such lookup.
pub fn lookup_table_tuples(prover: &MockProver<F>, name: &str) -> Option<Vec<(usize, Vec<F>)>> {
    use midnight_proofs::dev::CellValue;
    let cs = prover.cs();
    let lk = cs.lookups().iter().find(|l| l.name() == name)?;
    let n = prover.fixed().first().map(|c| c.len()).or_else(|| prover.advice().first().map(|c| c.len()))?;
    let cell = |c: &CellValue<F>| match c {
        CellValue::Assigned(v) => *v,
        _ => F::from(0),
    };
    let at = |row: usize, rot: i32| ((row as i64 + rot as i64).rem_euclid(n as i64)) as usize;
    let mut out = vec![];
    for row in prover.usable_rows().clone() {
        let t: Vec<F> = lk
            .table_expressions()
            .iter()
            .map(|e| {
                e.evaluate(
                    &|c| c,
                    &|_| panic!("selectors are fixed columns in a MockProver"),
                    &|q| cell(&prover.fixed()[q.column_index()][at(row, q.rotation().0)]),
                    &|q| cell(&prover.advice()[q.column_index()][at(row, q.rotation().0)]),
                    &|q| match &prover.instance()[q.column_index()][at(row, q.rotation().0)] {
                        InstanceValue::Assigned(v) => *v,
                        InstanceValue::Padding => F::from(0),
                    },
                    &|_| F::from(0),
                    &|a| -a,
                    &|a, b| a + b,
                    &|a, b| a * b,
                    &|a, s| a * s,
                )
            })
            .collect();
        out.push((row, t));
    }
    Some(out)
}

/// As [`lookup_table_tuples`] for the *input* expressions, together with the advice columns the
/// input expressions read at the current row.
pub fn lookup_input_tuples(prover: &MockProver<F>, name: &str) -> Option<(Vec<(usize, Vec<F>)>, Vec<usize>)> {
    use midnight_proofs::dev::CellValue;
    let cs = prover.cs();
    let lk = cs.lookups().iter().find(|l| l.name() == name)?;
    let n = prover.fixed().first().map(|c| c.len()).or_else(|| prover.advice().first().map(|c| c.len()))?;
    let cell = |c: &CellValue<F>| match c {
        CellValue::Assigned(v) => *v,
        _ => F::from(0),
    };
    let at = |row: usize, rot: i32| ((row as i64 + rot as i64).rem_euclid(n as i64)) as usize;
    let mut cols: Vec<usize> = vec![];
    for e in lk.input_expressions() {
        let q: Vec<(usize, i32)> = e.evaluate(
            &|_| vec![],
            &|_| vec![],
            &|_| vec![],
            &|q| vec![(q.column_index(), q.rotation().0)],
            &|_| vec![],
            &|_| vec![],
            &|a| a,
            &|mut a: Vec<(usize, i32)>, b| {
                a.extend(b);
                a
            },
            &|mut a: Vec<(usize, i32)>, b| {
                a.extend(b);
                a
            },
            &|a, _| a,
        );
        cols.extend(q.into_iter().filter(|(_, r)| *r == 0).map(|(c, _)| c));
    }
    cols.sort();
    cols.dedup();
    let mut out = vec![];
    for row in prover.usable_rows().clone() {
        let t: Vec<F> = lk
            .input_expressions()
            .iter()
            .map(|e| {
                e.evaluate(
                    &|c| c,
                    &|_| panic!("selectors are fixed columns in a MockProver"),
                    &|q| cell(&prover.fixed()[q.column_index()][at(row, q.rotation().0)]),
                    &|q| cell(&prover.advice()[q.column_index()][at(row, q.rotation().0)]),
                    &|q| match &prover.instance()[q.column_index()][at(row, q.rotation().0)] {
                        InstanceValue::Assigned(v) => *v,
                        InstanceValue::Padding => F::from(0),
                    },
                    &|_| F::from(0),
                    &|a| -a,
                    &|a, b| a + b,
                    &|a, b| a * b,
                    &|a, s| a * s,
                )
            })
            .collect();
        out.push((row, t));
    }
    Some((out, cols))
}

/// Rows of a dynamic table whose key coordinates coincide while another coordinate differs: a
/// lookup into such a table can be answered with either row. Rows whose key is all-zero (the
/// default of unused rows) are ignored. Returns (row a, row b) pairs, at most `max`.
pub fn ambiguous_table_keys(tuples: &[(usize, Vec<F>)], key: &[usize], max: usize) -> Vec<(usize, usize)> {
    use ff::PrimeField;
    let mut seen: std::collections::HashMap<Vec<[u8; 32]>, (usize, &Vec<F>)> = Default::default();
    let mut out = vec![];
    for (row, t) in tuples {
        let k: Vec<[u8; 32]> = key.iter().map(|i| t[*i].to_repr()).collect();
        if k.iter().all(|b| b.iter().all(|x| *x == 0)) {
            continue;
        }
        match seen.get(&k) {
            Some((r0, t0)) => {
                if *t0 != t && out.len() < max {
                    out.push((*r0, *row));
                }
            }
            None => {
                seen.insert(k, (*row, t));
            }
        }
    }
    out
}

/// Groups the assignment indices of one traced honest synthesis by *cell kind* = (region name,
/// column, region-relative offset), in order of first appearance. A strided index sweep can miss
/// a rarely used region shape entirely; sweeping one (or the first and the last) representative
/// of every kind cannot.
pub fn kinds_of_trace(names: &[String], trace: &[verif::TraceEntry]) -> Vec<(String, Vec<u64>)> {
    let mut pos: std::collections::HashMap<String, usize> = Default::default();
    let mut kinds: Vec<(String, Vec<u64>)> = vec![];
    for (i, t) in trace.iter().enumerate() {
        let name = names.get(t.region as usize).map(|s| s.as_str()).unwrap_or("?");
        let key = format!("{name}|c{}|o{}", t.column, t.offset);
        let at = *pos.entry(key.clone()).or_insert_with(|| {
            kinds.push((key, vec![]));
            kinds.len() - 1
        });
        kinds[at].1.push(i as u64);
    }
    kinds
}

/// One honest synthesis with the assignment trace on; `None` if it panics or fails.
pub fn trace_kinds<C: Runnable>(case: &C, k: u32) -> Option<Vec<(String, Vec<u64>)>> {
    EXPO.with(|e| *e.borrow_mut() = ExpoLog::default());
    verif::set_plan(vec![]);
    verif::set_tracing(true);
    let r = catch(|| case.r_mock(k));
    let (names, trace) = verif::take_trace();
    verif::reset();
    EXPO.with(|e| *e.borrow_mut() = ExpoLog::default());
    match r {
        Ok(Ok(_)) => Some(kinds_of_trace(&names, &trace)),
        _ => None,
    }
}

/// `per_kind` = 1: the first occurrence of every kind; 2: first and last; sorted, deduplicated.
pub fn kind_representatives(kinds: &[(String, Vec<u64>)], per_kind: usize) -> Vec<u64> {
    let mut v: Vec<u64> = vec![];
    for (_, idxs) in kinds {
        if let Some(f) = idxs.first() {
            v.push(*f);
        }
        if per_kind >= 2 {
            if let Some(l) = idxs.last() {
                v.push(*l);
            }
        }
    }
    v.sort();
    v.dedup();
    v
}

impl RunOut {
    /// Rebuild (ins, outs) from a modified flat vector.
    pub fn unflatten(&self, flat: &[F]) -> (Vec<Vec<F>>, Vec<Vec<F>>) {
        let (mut ins, mut outs) = (self.ins.clone(), self.outs.clone());
        for (pos, (o, i, j)) in self.order.iter().enumerate() {
            if *o {
                outs[*i][*j] = flat[pos]
            } else {
                ins[*i][*j] = flat[pos]
            }
        }
        (ins, outs)
    }
}

/// Smallest k for the case's circuit (cached by `op` + arch + max_bit_len by the caller).
pub fn min_k<C: OpCase>(case: &C) -> Result<u32, String> {
    let rel = OpRel(case.clone());
    catch(|| {
        EXPO.with(|e| *e.borrow_mut() = ExpoLog::default());
        verif::reset();
        let circuit = MidnightCircuit::new(&rel, Value::unknown(), Value::unknown(), Some(case.max_bit_len()));
        circuit.min_k()
    })
}

// ---------------------------------------------------------------------------------------------
// exploration
// ---------------------------------------------------------------------------------------------

pub fn default_faults(seed: u64) -> Vec<(&'static str, Fault)> {
    vec![
        ("+1", Fault::Add(1)),
        ("-1", Fault::Add(-1)),
        ("zero", Fault::Set([0; 4])),
        ("1-v", Fault::OneMinus),
        ("+2", Fault::AddPow2(1)),
        ("+2^8", Fault::AddPow2(8)),
        ("+2^64", Fault::AddPow2(64)),
        ("random", Fault::Random(seed)),
    ]
}

pub struct HonestReport {
    pub outcome: Outcome,
    pub n_assign: u64,
    pub untamperable: u64,
    pub exposed: usize,
}

fn viol_key(case: &impl Runnable, what: &str) -> String {
    format!("{}:{what}", case.r_op())
}

/// 0 deviations + instance binding + exposed-value lies. Returns the number of advice
/// assignments (the index space of the 1-deviation exploration).
pub fn explore_honest<C: Runnable>(case: &C, k: u32, out: &mut CaseOut) -> HonestReport {
    let mut run = run_once(case, k, vec![], true);
    let rep = HonestReport {
        outcome: run.outcome.clone(),
        n_assign: run.n_assign,
        untamperable: run.untamperable,
        exposed: run.flat.len(),
    };
    let detail = || json!({"case": case.r_key()});
    out.eval(&format!("honest:{}", run.outcome.name()), true);
    match (&run.outcome, case.r_expect_sat()) {
        (Outcome::Sat, true) => {
            if let Judgement::Wrong(w) = case.r_judge(&run.ins, &run.outs) {
                out.viol(Viol::new(viol_key(case, "honest-result-wrong"), format!("honest circuit is satisfied but its exposed result contradicts the reference: {w}"), detail()));
                return rep;
            }
        }
        (Outcome::Sat, false) => {
            // an out-of-domain input was accepted: only fine if the reference still calls it valid
            if let Judgement::Wrong(w) = case.r_judge(&run.ins, &run.outs) {
                out.viol(Viol::new(viol_key(case, "out-of-domain-accepted"), format!("input outside the documented domain is accepted: {w}"), detail()));
            }
            return rep;
        }
        (o, true) => {
            let what = match o {
                Outcome::Unsat(e) => format!("unsatisfiable: {e}"),
                Outcome::SynthErr(e) => format!("synthesis error: {e}"),
                Outcome::Panic(e) => format!("panic: {e}"),
                Outcome::Sat => unreachable!(),
            };
            out.viol(Viol::new(viol_key(case, &format!("completeness:{}", o.name())), format!("honest witness for an admissible input is not accepted — {what}"), detail()));
            return rep;
        }
        (_, false) => return rep,
    }
    // --- from here: honest, satisfiable, correct
    let mut prover = run.prover.take().unwrap();
    let n_rows = prover.instance()[1].len();
    let _ = n_rows;
    let empty = std::iter::empty::<usize>();
    // instance binding: every single-position edit must be rejected
    for pos in 0..run.flat.len() {
        for (name, newv) in [("+1", InstanceValue::Assigned(run.flat[pos] + F::from(1))), ("padding", InstanceValue::Padding)] {
            if name == "padding" && run.flat[pos] == F::from(0) {
                continue; // padding reads as 0
            }
            let old = prover.instance()[1][pos].clone();
            prover.instance_mut()[1][pos] = newv;
            let ok = catch(|| prover.verify_at_rows(empty.clone(), empty.clone()).is_ok()).unwrap_or(false);
            prover.instance_mut()[1][pos] = old;
            out.eval(if ok { "instance-edit:accepted" } else { "instance-edit:rejected" }, true);
            if ok {
                out.viol(Viol::new(viol_key(case, "instance-not-bound"), format!("editing exposed position {pos} ({name}) is not rejected"), detail()));
            }
        }
    }
    // exposed-value lies: change an exposed value together with its whole copy cycle
    let perm = prover.permutation();
    let cols = perm.columns().to_vec();
    let mapping: Vec<Vec<(usize, usize)>> = perm.mapping().map(|c| c.collect()).collect();
    let inst_col_idx = cols.iter().position(|c| matches!(c.column_type(), Any::Instance) && c.index() == 1);
    if let Some(ici) = inst_col_idx {
        for pos in 0..run.flat.len() {
            // walk the cycle of (instance col 1, row pos)
            let mut cycle = vec![];
            let mut cur = (ici, pos);
            loop {
                cycle.push(cur);
                cur = mapping[cur.0][cur.1];
                if cur == (ici, pos) || cycle.len() > 10_000 {
                    break;
                }
            }
            for (fname, fault) in [("+1", Fault::Add(1)), ("zero", Fault::Set([0; 4])), ("1-v", Fault::OneMinus)] {
                let newv = verif::apply_fault(&fault, run.flat[pos]);
                if newv == run.flat[pos] {
                    continue;
                }
                // apply
                let mut saved = vec![];
                let mut rows = vec![];
                for (ci, row) in &cycle {
                    let col = cols[*ci];
                    match col.column_type() {
                        Any::Advice(_) => {
                            saved.push((*ci, *row, prover.advice()[col.index()][*row]));
                            prover.advice_mut()[col.index()][*row] = CellValue::Assigned(newv);
                            rows.push(*row);
                        }
                        Any::Instance => {
                            prover.instance_mut()[col.index()][*row] = InstanceValue::Assigned(newv);
                        }
                        Any::Fixed => {}
                    }
                }
                // (a panic of MockProver while *reporting* a failure still means it found one)
                let ok = catch(|| prover.verify().is_ok()).unwrap_or(false);
                // restore
                for (ci, row, v) in saved {
                    prover.advice_mut()[cols[ci].index()][row] = v;
                }
                for (ci, row) in &cycle {
                    if matches!(cols[*ci].column_type(), Any::Instance) && cols[*ci].index() == 1 {
                        prover.instance_mut()[cols[*ci].index()][*row] = InstanceValue::Assigned(run.flat[*row]);
                    }
                }
                out.eval(if ok { "cycle-lie:accepted" } else { "cycle-lie:rejected" }, true);
                if ok {
                    let mut flat = run.flat.clone();
                    for (ci, row) in &cycle {
                        if matches!(cols[*ci].column_type(), Any::Instance) && *ci == ici {
                            flat[*row] = newv;
                        }
                    }
                    let (ins, outs) = run.unflatten(&flat);
                    match case.r_judge(&ins, &outs) {
                        Judgement::Holds => out.count("cycle-lie:accepted-benign", 1),
                        Judgement::Wrong(w) => out.viol(Viol::new(
                            viol_key(case, "exposed-value-not-constrained"),
                            format!("exposed position {pos} and its copy cycle changed by {fname}: still satisfied although {w}"),
                            detail(),
                        )),
                    }
                }
            }
        }
    }
    rep
}

/// 1 deviation, propagate mode, for the assignment indices `idxs`.
pub fn explore_faults<C: Runnable>(case: &C, k: u32, idxs: &[u64], faults: &[(&'static str, Fault)], out: &mut CaseOut) {
    for &idx in idxs {
        for (fname, fault) in faults {
            let run = run_once(case, k, vec![(idx, fault.clone(), Mode::Propagate)], false);
            let fired = run.applied.first().map(|a| a.changed);
            match fired {
                None => {
                    // the index was not reached (synthesis took another path before it): nothing injected
                    out.count("fault:not-reached", 1);
                    continue;
                }
                Some(false) => {
                    out.count("fault:value-unchanged", 1);
                    continue;
                }
                Some(true) => {}
            }
            out.eval(&format!("fault:{}", run.outcome.name()), true);
            if run.outcome == Outcome::Sat {
                match case.r_judge(&run.ins, &run.outs) {
                    Judgement::Holds => out.count("fault:accepted-benign", 1),
                    Judgement::Wrong(w) => {
                        let a = &run.applied[0];
                        out.viol(Viol::new(
                            viol_key(case, "unsound-under-1-deviation"),
                            format!(
                                "advice assignment #{idx} (column {}, region offset {}) replaced by fault {fname}: circuit still satisfied although {w}",
                                a.column, a.offset
                            ),
                            json!({"case": case.r_key(), "assignment_index": idx, "fault": fname}),
                        ));
                    }
                }
            }
        }
    }
}

/// 2 deviations, propagate mode: every pair of assignment indices (i < j) taken from `pairs`,
/// with every combination of the reduced fault set.
pub fn explore_pairs<C: Runnable>(case: &C, k: u32, pairs: &[(u64, u64)], faults: &[(&'static str, Fault)], out: &mut CaseOut) {
    for &(i, j) in pairs {
        for (fa_name, fa) in faults {
            for (fb_name, fb) in faults {
                let run = run_once(case, k, vec![(i, fa.clone(), Mode::Propagate), (j, fb.clone(), Mode::Propagate)], false);
                let changed = run.applied.iter().filter(|a| a.changed).count();
                if run.applied.len() < 2 || changed < 2 {
                    out.count("pair:not-a-2-deviation", 1);
                    continue;
                }
                out.eval(&format!("pair:{}", run.outcome.name()), true);
                if run.outcome == Outcome::Sat {
                    match case.r_judge(&run.ins, &run.outs) {
                        Judgement::Holds => out.count("pair:accepted-benign", 1),
                        Judgement::Wrong(w) => out.viol(Viol::new(
                            viol_key(case, "unsound-under-2-deviations"),
                            format!("advice assignments #{i} ({fa_name}) and #{j} ({fb_name}) replaced: circuit still satisfied although {w}"),
                            json!({"case": case.r_key(), "assignment_indices": [i, j], "faults": [fa_name, fb_name]}),
                        )),
                    }
                }
            }
        }
    }
}

// ---------------------------------------------------------------------------------------------
// FromScratch front-end: chips that are not reachable through ZkStdLib
// ---------------------------------------------------------------------------------------------

/// A case over a chip configured "from scratch" (feature `testing` of midnight-circuits). The
/// chip must be able to expose native cells as public inputs.
pub trait ScratchCase: Clone + Send + Sync {
    type Chip: midnight_circuits::testing_utils::FromScratch<F> + PublicInputInstructions<F, AssignedNative<F>>;
    fn key(&self) -> String;
    fn op(&self) -> String;
    fn expect_sat(&self) -> bool;
    fn judge(&self, ins: &[Vec<F>], outs: &[Vec<F>]) -> Judgement;
    fn synth<L: Layouter<F>>(&self, chip: &Self::Chip, layouter: &mut L, ex: &Exposer) -> Result<(), Error>;
}

#[derive(Clone)]
pub struct Scratch<C: ScratchCase>(pub C);

pub struct ScratchCircuit<C: ScratchCase>(pub C);

impl<C: ScratchCase> midnight_proofs::plonk::Circuit<F> for ScratchCircuit<C> {
    type Config = <C::Chip as midnight_circuits::testing_utils::FromScratch<F>>::Config;
    type FloorPlanner = midnight_proofs::circuit::SimpleFloorPlanner;
    type Params = ();

    fn without_witnesses(&self) -> Self {
        unreachable!()
    }

    fn configure(meta: &mut midnight_proofs::plonk::ConstraintSystem<F>) -> Self::Config {
        let committed = meta.instance_column();
        let plain = meta.instance_column();
        <C::Chip as midnight_circuits::testing_utils::FromScratch<F>>::configure_from_scratch(meta, &[committed, plain])
    }

    fn synthesize(&self, config: Self::Config, mut layouter: impl Layouter<F>) -> Result<(), Error> {
        use midnight_circuits::testing_utils::FromScratch;
        let chip = C::Chip::new_from_scratch(&config);
        self.0.synth(&chip, &mut layouter, &Exposer)?;
        chip.load_from_scratch(&mut layouter)
    }
}

impl<C: ScratchCase> Runnable for Scratch<C> {
    fn r_key(&self) -> String {
        self.0.key()
    }
    fn r_op(&self) -> String {
        self.0.op()
    }
    fn r_expect_sat(&self) -> bool {
        self.0.expect_sat()
    }
    fn r_judge(&self, ins: &[Vec<F>], outs: &[Vec<F>]) -> Judgement {
        self.0.judge(ins, outs)
    }
    fn r_mock(&self, k: u32) -> Result<MockProver<F>, Error> {
        MockProver::run(k, &ScratchCircuit(self.0.clone()), vec![vec![], vec![]])
    }
}

/// Smallest k in `from..=to` at which the from-scratch circuit of the case synthesises.
pub fn scratch_min_k<C: ScratchCase>(case: &C, from: u32, to: u32) -> Option<u32> {
    (from..=to).find(|k| {
        verif::reset();
        EXPO.with(|e| *e.borrow_mut() = ExpoLog::default());
        matches!(catch(|| MockProver::run(*k, &ScratchCircuit(case.clone()), vec![vec![], vec![]]).is_ok()), Ok(true))
    })
}
