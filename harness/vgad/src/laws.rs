//! Region-local alternative-witness search ("laws").
//!
//! One- and two-cell deviations from the honest witness generator cannot exhibit a lookup whose
//! range tag is too loose: the alternative decomposition changes several limbs, their looked-up
//! images and the recomposed output *together*. This module explores, for one region of the
//! synthesised honest circuit, a bounded space of such coordinated alternatives on the
//! constraint system itself, and validates every survivor on the real circuit:
//!
//! 1. the honest circuit is synthesised once with the assignment trace on; the region's cells and
//!    the constraint system (gates, lookups) come from the `MockProver`;
//! 2. *lookup rows* of the region = (lookup argument, row) whose input tuple depends on a region
//!    cell. A move replaces the advice coordinates of one lookup row by those of another row of
//!    the *actual* table with the same non-advice (tag) coordinates and a first advice coordinate
//!    at distance ±1 or ±2^j (j <= max_pow) from the honest one — lookup-consistent by
//!    construction;
//! 3. every set of <= `max_rows` moves is applied; gates that no longer vanish on the rows around
//!    the region may be *repaired* through one region cell in which the gate is affine (the
//!    recomposed output), at most `max_repairs` times; a combination under which every gate and
//!    every lookup on those rows holds again and some cell differs from the honest one is a
//!    *candidate*;
//! 4. each candidate is replayed on the real circuit: a multi-cell `Set` plan in propagate mode,
//!    so that the library's own witness code continues from the alternative cells; the case's
//!    reference judges the exposed (inputs, outputs) if the circuit is still satisfied.
//!
//! Only step 4 produces violations, so the search cannot raise an alarm on a sound circuit; steps
//! 1-3 are an explicit-state exploration of the local constraint model whose every reported trace
//! is validated against the implementation.

use std::collections::{HashMap, HashSet};

use ff::{Field, PrimeField};
use midnight_proofs::{
    dev::{CellValue, InstanceValue, MockProver},
    plonk::{Any, Expression},
    verif::{self, Fault, Mode, TraceEntry},
};
use serde_json::json;
use vcore::{catch, CaseOut, Viol};

use crate::{run_once, val::hex, Judgement, Outcome, Runnable, F};

#[derive(Clone, Debug)]
pub struct Cfg {
    /// lookup rows changed together
    pub max_rows: usize,
    /// gate repairs through an affine region cell
    pub max_repairs: usize,
    /// distances ±2^j, j = 1..=max_pow (and ±1)
    pub max_pow: u32,
    /// candidates replayed on the real circuit per region
    pub max_real_runs: usize,
    /// combinations evaluated per region before giving up (reported as a cap)
    pub max_combinations: u64,
    /// also start from a free region cell (neither pinned by a copy nor constrained by an active
    /// lookup row) moved by +1, at most one per combination; with enough repairs this follows a
    /// chain of cells each defined from the previous one (the skipped rounds of a permutation)
    pub seed_free_cells: bool,
    /// affine cells tried per repair step / states kept per repair depth
    pub repair_branch: usize,
    pub repair_beam: usize,
    /// repairs only through cells that no gate of an earlier row reads (strictly forward chains)
    pub forward_repairs_only: bool,
    /// repair through the not-yet-set affine cell of smallest (row, column) among all violated
    /// gates (one successor per state) instead of gate by gate
    pub repair_in_cell_order: bool,
    /// a copy cycle that reaches an instance cell is pinned to its honest value (default); switch
    /// off to let the region's exposed outputs change (the replay exposes what the circuit computes)
    pub instance_pins: bool,
}

impl Default for Cfg {
    fn default() -> Self {
        Cfg { max_rows: 3, max_repairs: 2, max_pow: 12, max_real_runs: 8, max_combinations: 3_000_000, seed_free_cells: false, repair_branch: 8, repair_beam: 64, forward_repairs_only: false, repair_in_cell_order: false, instance_pins: true }
    }
}

#[derive(Clone, Debug, Default)]
pub struct Stats {
    pub regions: u64,
    pub lookup_rows: u64,
    pub moves: u64,
    pub combinations: u64,
    pub candidates: u64,
    pub real_runs: u64,
    pub capped_regions: u64,
}

type Cell = (usize, usize); // (advice column, absolute row)

struct Tables<'a> {
    n: usize,
    fixed: &'a [Vec<CellValue<F>>],
    advice: &'a [Vec<CellValue<F>>],
    instance: &'a [Vec<InstanceValue<F>>],
}

fn cv(c: &CellValue<F>) -> F {
    match c {
        CellValue::Assigned(v) => *v,
        _ => F::ZERO,
    }
}

impl<'a> Tables<'a> {
    fn at(&self, row: usize, rot: i32) -> usize {
        ((row as i64 + rot as i64).rem_euclid(self.n as i64)) as usize
    }
    fn adv(&self, c: Cell, ov: &HashMap<Cell, F>) -> F {
        ov.get(&c).copied().unwrap_or_else(|| cv(&self.advice[c.0][c.1]))
    }
    fn eval(&self, e: &Expression<F>, row: usize, ov: &HashMap<Cell, F>) -> F {
        e.evaluate(
            &|c| c,
            &|_| panic!("selectors are fixed columns in a MockProver"),
            &|q| cv(&self.fixed[q.column_index()][self.at(row, q.rotation().0)]),
            &|q| self.adv((q.column_index(), self.at(row, q.rotation().0)), ov),
            &|q| match &self.instance[q.column_index()][self.at(row, q.rotation().0)] {
                InstanceValue::Assigned(v) => *v,
                InstanceValue::Padding => F::ZERO,
            },
            &|_| F::ZERO,
            &|a| -a,
            &|a, b| a + b,
            &|a, b| a * b,
            &|a, s| a * s,
        )
    }
}

/// advice (column, rotation) pairs queried by an expression
fn advice_queries(e: &Expression<F>) -> Vec<(usize, i32)> {
    let mut v = e.evaluate(
        &|_| vec![],
        &|_| vec![],
        &|_| vec![],
        &|q| vec![(q.column_index(), q.rotation().0)],
        &|_| vec![],
        &|_| vec![],
        &|a| a,
        &|mut a: Vec<(usize, i32)>, b| {
            a.extend(b);
            a
        },
        &|mut a: Vec<(usize, i32)>, b| {
            a.extend(b);
            a
        },
        &|a, _| a,
    );
    v.sort();
    v.dedup();
    v
}

fn key_of(t: &[F]) -> Vec<[u8; 32]> {
    t.iter().map(|x| x.to_repr()).collect()
}

struct LookupInfo {
    /// index into `cs.lookups()` (names are not unique)
    idx: usize,
    /// per coordinate: the single advice query it depends on (None: fixed / constant coordinate)
    adv_query: Vec<Option<(usize, i32)>>,
    /// usable table tuples grouped by their non-advice coordinates
    by_tag: HashMap<Vec<[u8; 32]>, Vec<Vec<F>>>,
    all: HashSet<Vec<[u8; 32]>>,
}

/// A move: the cells of one lookup row set to another table row's advice coordinates.
#[derive(Clone, Debug)]
struct Move {
    #[allow(dead_code)]
    row_id: usize,
    sets: Vec<(Cell, F)>,
}

fn f_pow2(j: u32) -> F {
    let mut a = F::ONE;
    for _ in 0..j {
        a = a.double();
    }
    a
}

fn limbs_of(v: &F) -> [u64; 4] {
    let r = v.to_repr();
    let mut l = [0u64; 4];
    for i in 0..4 {
        l[i] = u64::from_le_bytes(r[8 * i..8 * i + 8].try_into().unwrap());
    }
    l
}

/// What the search needs from a circuit under test; implemented for every `Runnable` through
/// [`Of`], and by checks that drive circuits with their own runner.
pub trait Subject {
    fn s_key(&self) -> String;
    fn s_op(&self) -> String;
    /// one honest synthesis with the assignment trace on
    fn s_traced(&self, k: u32) -> Option<(MockProver<F>, Vec<String>, Vec<TraceEntry>)>;
    /// one synthesis under a tamper plan: (outcome, exposed inputs, exposed outputs)
    fn s_replay(&self, k: u32, plan: Vec<(u64, Fault, Mode)>) -> (Outcome, Vec<Vec<F>>, Vec<Vec<F>>);
    fn s_judge(&self, ins: &[Vec<F>], outs: &[Vec<F>]) -> Judgement;
}

/// Adapter: any `Runnable` as a search subject.
pub struct Of<'a, C: Runnable>(pub &'a C);

impl<'a, C: Runnable> Subject for Of<'a, C> {
    fn s_key(&self) -> String {
        self.0.r_key()
    }
    fn s_op(&self) -> String {
        self.0.r_op()
    }
    fn s_traced(&self, k: u32) -> Option<(MockProver<F>, Vec<String>, Vec<TraceEntry>)> {
        traced_run(self.0, k)
    }
    fn s_replay(&self, k: u32, plan: Vec<(u64, Fault, Mode)>) -> (Outcome, Vec<Vec<F>>, Vec<Vec<F>>) {
        let r = run_once(self.0, k, plan, false);
        (r.outcome, r.ins, r.outs)
    }
    fn s_judge(&self, ins: &[Vec<F>], outs: &[Vec<F>]) -> Judgement {
        self.0.r_judge(ins, outs)
    }
}

/// One honest synthesis with tracing; returns the run (prover kept) and the trace.
fn traced_run<C: Runnable>(case: &C, k: u32) -> Option<(MockProver<F>, Vec<String>, Vec<TraceEntry>)> {
    crate::EXPO.with(|e| *e.borrow_mut() = crate::ExpoLog::default());
    verif::set_plan(vec![]);
    verif::set_tracing(true);
    let r = catch(|| case.r_mock(k));
    let (names, trace) = verif::take_trace();
    verif::reset();
    crate::EXPO.with(|e| *e.borrow_mut() = crate::ExpoLog::default());
    match r {
        Ok(Ok(p)) => Some((p, names, trace)),
        _ => None,
    }
}

/// Regions of a traced honest run: (region index, name, number of tamperable assignments).
pub fn regions_of<C: Runnable>(case: &C, k: u32) -> Option<Vec<(u32, String, usize)>> {
    regions_of_subject(&Of(case), k)
}

pub fn regions_of_subject<S: Subject>(case: &S, k: u32) -> Option<Vec<(u32, String, usize)>> {
    let (_, names, trace) = case.s_traced(k)?;
    let mut cnt: HashMap<u32, usize> = HashMap::new();
    for t in &trace {
        *cnt.entry(t.region).or_default() += 1;
    }
    let mut v: Vec<(u32, String, usize)> = cnt.into_iter().map(|(r, n)| (r, names.get(r as usize).cloned().unwrap_or_default(), n)).collect();
    v.sort();
    Some(v)
}

/// Explores the listed regions (indices into the trace's region list) of `case`.
pub fn explore<C: Runnable>(case: &C, k: u32, region_ids: &[u32], cfg: &Cfg, out: &mut CaseOut) -> Stats {
    explore_subject(&Of(case), k, region_ids, cfg, out)
}

/// As [`explore`], for any [`Subject`].
pub fn explore_subject<S: Subject>(case: &S, k: u32, region_ids: &[u32], cfg: &Cfg, out: &mut CaseOut) -> Stats {
    let mut st = Stats::default();
    let Some((prover, names, trace)) = case.s_traced(k) else {
        out.eval("laws:no-honest-circuit", false);
        return st;
    };
    let cs = prover.cs();
    let n = prover.fixed().first().map(|c| c.len()).unwrap_or(0);
    if n == 0 {
        return st;
    }
    let t = Tables { n, fixed: prover.fixed(), advice: prover.advice(), instance: prover.instance() };
    let usable = prover.usable_rows().clone();
    let none: HashMap<Cell, F> = HashMap::new();

    // ---- lookups of the constraint system
    let mut lks: Vec<LookupInfo> = vec![];
    for (lk_idx, lk) in cs.lookups().iter().enumerate() {
        if std::env::var("LAWS_DEBUG").is_ok() {
            eprintln!(
                "LAWS lookup {:?}: inputs {:?}",
                lk.name(),
                lk.input_expressions().iter().map(|e| advice_queries(e)).collect::<Vec<_>>()
            );
        }
        let adv_query: Vec<Option<(usize, i32)>> = lk
            .input_expressions()
            .iter()
            .map(|e| {
                let q = advice_queries(e);
                if q.len() == 1 {
                    Some(q[0])
                } else {
                    None
                }
            })
            .collect();
        // coordinates with several advice queries are not handled: skip such a lookup
        if lk.input_expressions().iter().zip(&adv_query).any(|(e, q)| q.is_none() && !advice_queries(e).is_empty()) {
            continue;
        }
        if adv_query.iter().all(|q| q.is_none()) {
            continue;
        }
        let mut by_tag: HashMap<Vec<[u8; 32]>, Vec<Vec<F>>> = HashMap::new();
        let mut all: HashSet<Vec<[u8; 32]>> = HashSet::new();
        for row in usable.clone() {
            let tup: Vec<F> = lk.table_expressions().iter().map(|e| t.eval(e, row, &none)).collect();
            if all.insert(key_of(&tup)) {
                let tag: Vec<F> = tup.iter().zip(&adv_query).filter(|(_, q)| q.is_none()).map(|(v, _)| *v).collect();
                by_tag.entry(key_of(&tag)).or_default().push(tup);
            }
        }
        lks.push(LookupInfo { idx: lk_idx, adv_query, by_tag, all });
    }

    // ---- deltas
    let mut deltas: Vec<F> = vec![F::ONE, -F::ONE];
    for j in 1..=cfg.max_pow {
        deltas.push(f_pow2(j));
        deltas.push(-f_pow2(j));
    }

    // ---- cell -> last assignment index
    let mut index_of: HashMap<Cell, u64> = HashMap::new();
    for (i, e) in trace.iter().enumerate() {
        index_of.insert((e.column as usize, e.row as usize), i as u64);
    }

    // ---- copy constraints: the permutation of the synthesised circuit
    let perm = prover.permutation();
    let perm_cols: Vec<(Any, usize)> = perm.columns().iter().map(|c| (*c.column_type(), c.index())).collect();
    let mapping: Vec<Vec<(usize, usize)>> = {
        use rayon::iter::ParallelIterator;
        perm.mapping().map(|c| c.collect()).collect()
    };
    let perm_index_of_advice: HashMap<usize, usize> =
        perm_cols.iter().enumerate().filter(|(_, (ty, _))| matches!(ty, Any::Advice(_))).map(|(i, (_, idx))| (*idx, i)).collect();

    for &rid in region_ids {
        let cells: HashSet<Cell> = trace.iter().filter(|e| e.region == rid).map(|e| (e.column as usize, e.row as usize)).collect();
        if cells.is_empty() {
            continue;
        }
        st.regions += 1;
        let rname = names.get(rid as usize).cloned().unwrap_or_default();
        let (rmin, rmax) = (cells.iter().map(|c| c.1).min().unwrap(), cells.iter().map(|c| c.1).max().unwrap());
        let rows: Vec<usize> = (rmin.saturating_sub(3)..=(rmax + 3).min(n - 1)).filter(|r| usable.contains(r)).collect();

        // ---- copy constraints touching the region. A cycle member outside the region that was
        // assigned before the region (or is not a traced advice cell: fixed, instance, untraced)
        // pins the cycle to its honest value; members assigned after the region are the region's
        // outputs and will be recomputed when the witness generation continues.
        let first_index: u64 = trace.iter().enumerate().filter(|(_, e)| e.region == rid).map(|(i, _)| i as u64).min().unwrap_or(0);
        let last_index: u64 = trace.iter().enumerate().filter(|(_, e)| e.region == rid).map(|(i, _)| i as u64).max().unwrap_or(0);
        let mut groups: Vec<(Vec<Cell>, bool)> = vec![]; // (region members, pinned)
        let mut pinned: HashSet<Cell> = HashSet::new();
        {
            let mut done: HashSet<Cell> = HashSet::new();
            for c in &cells {
                if done.contains(c) {
                    continue;
                }
                let Some(&pi) = perm_index_of_advice.get(&c.0) else { continue };
                let mut members: Vec<Cell> = vec![];
                let mut pin = false;
                let (mut ci, mut cr) = (pi, c.1);
                let mut steps = 0usize;
                loop {
                    let (ty, idx) = perm_cols[ci];
                    match ty {
                        Any::Advice(_) => {
                            let cell = (idx, cr);
                            if cells.contains(&cell) {
                                members.push(cell);
                                done.insert(cell);
                            } else {
                                match index_of.get(&cell) {
                                    Some(i) if *i > last_index => {}
                                    Some(i) if *i < first_index => pin = true,
                                    _ => pin = true,
                                }
                            }
                        }
                        // with `instance_pins = false` an instance cell does not pin: the exposed vector of the replay is whatever
                        // the circuit exposes (a different output for the same exposed inputs is exactly
                        // what the reference judges); exposed inputs are pinned by their earlier advice cells
                        Any::Instance => {
                            if cfg.instance_pins {
                                pin = true
                            }
                        }
                        Any::Fixed => pin = true,
                    }
                    let nx = mapping[ci][cr];
                    ci = nx.0;
                    cr = nx.1;
                    steps += 1;
                    if (ci, cr) == (pi, c.1) || steps > 1_000_000 {
                        break;
                    }
                }
                if members.len() > 1 || pin {
                    if pin {
                        pinned.extend(members.iter().copied());
                    }
                    groups.push((members, pin));
                }
            }
        }
        let copies_hold = |ov: &HashMap<Cell, F>| -> bool {
            for (members, pin) in &groups {
                let v0 = if *pin { t.adv(members[0], &none) } else { t.adv(members[0], ov) };
                if members.iter().any(|m| t.adv(*m, ov) != v0) {
                    return false;
                }
            }
            true
        };

        // ---- lookup rows of the region and their moves
        struct LRow {
            lk: usize,
            row: usize,
        }
        let mut lrows: Vec<LRow> = vec![];
        let mut moves: Vec<Vec<Move>> = vec![];
        // cells that an active lookup row of the region constrains (they cannot absorb a repair)
        let mut lookup_cells: HashSet<Cell> = HashSet::new();
        for (li, lk_info) in lks.iter().enumerate() {
            let lk = &cs.lookups()[lk_info.idx];
            for &row in &rows {
                let coord_cells: Vec<Option<Cell>> = lk_info.adv_query.iter().map(|q| q.map(|(c, rot)| (c, t.at(row, rot)))).collect();
                if !coord_cells.iter().flatten().all(|c| cells.contains(c)) {
                    continue;
                }
                let honest: Vec<F> = lk.input_expressions().iter().map(|e| t.eval(e, row, &none)).collect();
                // is the row active? (the coordinate must move with its cell)
                let first = coord_cells.iter().position(|c| c.is_some()).unwrap();
                let c0 = coord_cells[first].unwrap();
                let mut probe = HashMap::new();
                probe.insert(c0, t.adv(c0, &none) + F::ONE);
                if t.eval(&lk.input_expressions()[first], row, &probe) != honest[first] + F::ONE {
                    continue;
                }
                lookup_cells.extend(coord_cells.iter().flatten().copied());
                let tag: Vec<F> = honest.iter().zip(&lk_info.adv_query).filter(|(_, q)| q.is_none()).map(|(v, _)| *v).collect();
                let Some(cands) = lk_info.by_tag.get(&key_of(&tag)) else { continue };
                let want: HashSet<[u8; 32]> = deltas.iter().map(|d| (honest[first] + *d).to_repr()).collect();
                let mut ms = vec![];
                for tup in cands {
                    if !want.contains(&tup[first].to_repr()) {
                        continue;
                    }
                    let sets: Vec<(Cell, F)> = coord_cells.iter().enumerate().filter_map(|(i, c)| c.map(|c| (c, tup[i]))).collect();
                    if sets.iter().any(|(c, v)| pinned.contains(c) && t.adv(*c, &none) != *v) {
                        continue;
                    }
                    ms.push(Move { row_id: lrows.len(), sets });
                }
                if !ms.is_empty() {
                    lrows.push(LRow { lk: li, row });
                    moves.push(ms);
                }
            }
        }
        st.lookup_rows += lrows.len() as u64;
        st.moves += moves.iter().map(|m| m.len() as u64).sum::<u64>();
        if lrows.is_empty() && !cfg.seed_free_cells {
            out.count("laws:region-without-lookup-rows", 1);
            continue;
        }

        // ---- gates active around the region
        // gates, and the constraints of the additive-selector ("trash") arguments: where the
        // selector is 1 every constraint expression must vanish, which `selector * constraint = 0`
        // states exactly for a 0/1 selector
        let trash_polys: Vec<(String, Expression<F>)> = cs
            .trashcans()
            .iter()
            .flat_map(|tc| tc.constraint_expressions().iter().map(move |c| (tc.name().to_string(), tc.selector().clone() * c.clone())))
            .collect();
        let mut gate_polys: Vec<(&str, &Expression<F>)> = cs.gates().iter().flat_map(|g| g.polynomials().iter().map(move |p| (g.name(), p))).collect();
        gate_polys.extend(trash_polys.iter().map(|(n, p)| (n.as_str(), p)));
        // (gate polynomial, row) pairs whose value really depends on a region cell (the selector is
        // on and the cell is queried): only these can be broken or repaired by the search
        let mut sens_gates: Vec<(usize, usize)> = vec![];
        for (gi, (_, p)) in gate_polys.iter().enumerate() {
            let qs = advice_queries(p);
            for &row in &rows {
                let base = t.eval(p, row, &none);
                let mut dep = false;
                for (col, rot) in &qs {
                    let c = (*col, t.at(row, *rot));
                    if !cells.contains(&c) {
                        continue;
                    }
                    let mut probe = HashMap::new();
                    probe.insert(c, t.adv(c, &none) + F::ONE);
                    if t.eval(p, row, &probe) != base {
                        dep = true;
                        break;
                    }
                }
                if dep {
                    sens_gates.push((gi, row));
                }
            }
        }
        let mut sens_lookups: Vec<(usize, usize)> = vec![];
        for (li, lk_info) in lks.iter().enumerate() {
            for &row in &rows {
                if lk_info.adv_query.iter().flatten().any(|(c, rot)| cells.contains(&(*c, t.at(row, *rot)))) {
                    sens_lookups.push((li, row));
                }
            }
        }
        // the first (lowest) row of a sensitive gate that reads each region cell: a repair through
        // a cell that an earlier row's gate also reads would push the inconsistency backwards
        let mut first_reader: HashMap<Cell, usize> = HashMap::new();
        for (gi, row) in &sens_gates {
            for (col, rot) in advice_queries(gate_polys[*gi].1) {
                let c = (col, t.at(*row, rot));
                if cells.contains(&c) {
                    let e = first_reader.entry(c).or_insert(*row);
                    if *row < *e {
                        *e = *row;
                    }
                }
            }
        }
        let lk_refs: Vec<_> = lks.iter().map(|i| &cs.lookups()[i.idx]).collect();
        let holds = |ov: &HashMap<Cell, F>| -> Vec<(usize, usize)> {
            // violated (gate poly index, row)
            let mut bad = vec![];
            for &(gi, row) in &sens_gates {
                if !t.eval(gate_polys[gi].1, row, ov).is_zero_vartime() {
                    bad.push((gi, row));
                }
            }
            bad
        };
        let lookups_hold = |ov: &HashMap<Cell, F>| -> bool {
            for &(li, row) in &sens_lookups {
                let tup: Vec<F> = lk_refs[li].input_expressions().iter().map(|e| t.eval(e, row, ov)).collect();
                if !lks[li].all.contains(&key_of(&tup)) {
                    return false;
                }
            }
            true
        };
        // sanity: the honest witness holds locally
        if !holds(&none).is_empty() {
            out.count("laws:honest-region-not-locally-satisfied", 1);
            continue;
        }

        // ---- a cheap necessary condition for combinations. For a sensitive gate that is affine
        // in the region's cells (decomposition and spreaded-sum gates are), the residual of a
        // combination of moves on disjoint cells is the sum of the residuals of its moves; such a
        // gate with a non-zero residual must contain a cell that can absorb a repair (a region
        // cell that is neither pinned by a copy nor constrained by an active lookup row).
        // Combinations failing this are not evaluated exactly; they cannot be locally consistent.
        let region_degree = |p: &Expression<F>, row: usize| -> u32 {
            p.evaluate(
                &|_| 0u32,
                &|_| 0,
                &|_| 0,
                &|q| if cells.contains(&(q.column_index(), t.at(row, q.rotation().0))) { 1 } else { 0 },
                &|_| 0,
                &|_| 0,
                &|a| a,
                &|a, b| a.max(b),
                &|a, b| a + b,
                &|a, _| a,
            )
        };
        let affine_g: Vec<bool> = sens_gates.iter().map(|(gi, row)| region_degree(gate_polys[*gi].1, *row) <= 1).collect();
        let affine = affine_g.iter().any(|a| *a);
        let g_n = sens_gates.len();
        let mut repairable = vec![false; g_n];
        for (g, (gi, row)) in sens_gates.iter().enumerate() {
            let p = gate_polys[*gi].1;
            for (col, rot) in advice_queries(p) {
                let c = (col, t.at(*row, rot));
                if !cells.contains(&c) || pinned.contains(&c) || lookup_cells.contains(&c) {
                    continue;
                }
                let mut probe = HashMap::new();
                probe.insert(c, t.adv(c, &none) + F::ONE);
                if !t.eval(p, *row, &probe).is_zero_vartime() {
                    repairable[g] = true;
                    break;
                }
            }
        }
        // ---- seed moves: one free cell moved by +1 (all in one group: at most one per combination)
        if cfg.seed_free_cells {
            let mut free: Vec<Cell> = cells.iter().filter(|c| !pinned.contains(c) && !lookup_cells.contains(c)).copied().collect();
            free.sort();
            let mut seeds = vec![];
            for c in free {
                let mut probe = HashMap::new();
                probe.insert(c, t.adv(c, &none) + F::ONE);
                if sens_gates.iter().any(|(gi, row)| !t.eval(gate_polys[*gi].1, *row, &probe).is_zero_vartime()) {
                    seeds.push(Move { row_id: lrows.len(), sets: vec![(c, t.adv(c, &none) + F::ONE)] });
                }
            }
            out.counter("laws_seed_moves", seeds.len() as u64);
            if !seeds.is_empty() {
                lrows.push(LRow { lk: usize::MAX, row: rmin });
                moves.push(seeds);
            }
        }
        if lrows.is_empty() {
            out.count("laws:region-without-moves", 1);
            continue;
        }
        let mv_vals: Vec<Vec<Vec<F>>> = moves
            .iter()
            .map(|ms| {
                ms.iter()
                    .map(|mv| {
                        let ov: HashMap<Cell, F> = mv.sets.iter().copied().collect();
                        sens_gates.iter().map(|(gi, row)| t.eval(gate_polys[*gi].1, *row, &ov)).collect()
                    })
                    .collect()
            })
            .collect();
        let mut prefiltered: u64 = 0;

        // ---- combinations of <= max_rows moves
        let mut candidates: Vec<HashMap<Cell, F>> = vec![];
        let mut seen: HashSet<Vec<(Cell, [u8; 32])>> = HashSet::new();
        let mut combos: u64 = 0;
        let mut capped = false;
        let m = lrows.len();
        // (next lookup row, chosen (row, move) indices, sum of residuals)
        let mut stack: Vec<(usize, Vec<(usize, usize)>, Vec<F>)> = vec![(0, vec![], vec![F::ZERO; g_n])];
        while let Some((from, chosen_idx, sum)) = stack.pop() {
            if chosen_idx.len() < cfg.max_rows {
                for r in from..m {
                    for j in 0..moves[r].len() {
                        let mut c2 = chosen_idx.clone();
                        c2.push((r, j));
                        let s2: Vec<F> = sum.iter().zip(&mv_vals[r][j]).map(|(a, b)| *a + *b).collect();
                        stack.push((r + 1, c2, s2));
                    }
                }
            }
            let chosen: Vec<&Move> = chosen_idx.iter().map(|(r, j)| &moves[*r][*j]).collect();
            if !chosen.is_empty() {
                combos += 1;
                if combos > cfg.max_combinations {
                    capped = true;
                    break;
                }
                if affine {
                    let mut touched: Vec<Cell> = chosen.iter().flat_map(|mv| mv.sets.iter().map(|(c, _)| *c)).collect();
                    let total = touched.len();
                    touched.sort();
                    touched.dedup();
                    if touched.len() == total && (0..g_n).any(|g| affine_g[g] && !repairable[g] && !sum[g].is_zero_vartime()) {
                        prefiltered += 1;
                        continue;
                    }
                }
                let mut ov: HashMap<Cell, F> = HashMap::new();
                let mut clash = false;
                for mv in &chosen {
                    for (c, v) in &mv.sets {
                        if let Some(old) = ov.insert(*c, *v) {
                            if old != *v {
                                clash = true;
                            }
                        }
                    }
                }
                if !clash {
                    // repairs
                    let mut frontier: Vec<HashMap<Cell, F>> = vec![ov];
                    for depth in 0..=cfg.max_repairs {
                        let mut next = vec![];
                        for ov in frontier.drain(..) {
                            let bad = holds(&ov);
                            if bad.is_empty() {
                                if copies_hold(&ov) && lookups_hold(&ov) && ov.iter().any(|(c, v)| t.adv(*c, &none) != *v) {
                                    let mut sig: Vec<(Cell, [u8; 32])> = ov.iter().filter(|(c, v)| t.adv(**c, &none) != **v).map(|(c, v)| (*c, v.to_repr())).collect();
                                    sig.sort();
                                    if seen.insert(sig) {
                                        candidates.push(ov);
                                    }
                                }
                                continue;
                            }
                            if depth == cfg.max_repairs {
                                continue;
                            }
                            if cfg.repair_in_cell_order {
                                // dependency order: among all violated gates, repair through the
                                // not-yet-set affine cell with the smallest (row, column) — in a
                                // chain of cells each defined from the previous ones, that is the
                                // next cell of the chain; one successor per state
                                let mut best: Option<(Cell, usize, usize)> = None;
                                for &(gi, row) in &bad {
                                    for (col, rot) in advice_queries(gate_polys[gi].1) {
                                        let c = (col, t.at(row, rot));
                                        if !cells.contains(&c) || ov.contains_key(&c) || pinned.contains(&c) {
                                            continue;
                                        }
                                        if first_reader.get(&c).map(|r| *r < row).unwrap_or(false) {
                                            continue;
                                        }
                                        if best.map(|(b, _, _)| (c.1, c.0) < (b.1, b.0)).unwrap_or(true) {
                                            // affine in c?
                                            let p = gate_polys[gi].1;
                                            let v0 = t.adv(c, &ov);
                                            let mut o1 = ov.clone();
                                            let p0 = t.eval(p, row, &o1);
                                            o1.insert(c, v0 + F::ONE);
                                            let p1 = t.eval(p, row, &o1);
                                            o1.insert(c, v0 + F::ONE.double());
                                            let p2 = t.eval(p, row, &o1);
                                            let slope = p1 - p0;
                                            if !slope.is_zero_vartime() && (p2 - p1) == slope {
                                                best = Some((c, gi, row));
                                            }
                                        }
                                    }
                                }
                                if let Some((c, gi, row)) = best {
                                    let p = gate_polys[gi].1;
                                    let v0 = t.adv(c, &ov);
                                    let mut o1 = ov.clone();
                                    let p0 = t.eval(p, row, &o1);
                                    o1.insert(c, v0 + F::ONE);
                                    let slope = t.eval(p, row, &o1) - p0;
                                    if let Some(inv) = Option::<F>::from(slope.invert()) {
                                        o1.insert(c, v0 - p0 * inv);
                                        next.push(o1);
                                    }
                                }
                                continue;
                            }
                            // repair the earliest violated gate (by row) through one affine region
                            // cell; later cells are tried first (a chain of cells each defined from
                            // the previous one is followed forwards), at most `repair_branch` of them
                            let (gi, row) = *bad.iter().min_by_key(|(gi, row)| (*row, *gi)).unwrap();
                            let p = gate_polys[gi].1;
                            let mut cand_cells: Vec<Cell> = advice_queries(p).into_iter().map(|(col, rot)| (col, t.at(row, rot))).collect();
                            cand_cells.sort_by_key(|c| std::cmp::Reverse((c.1, c.0)));
                            cand_cells.dedup();
                            if std::env::var("LAWS_DEBUG3").is_ok() {
                                eprintln!(
                                    "LAWS3 depth {depth}: {} violated, earliest gate {:?} row {row}; candidates {:?} (in region {:?}, set {:?}, pinned {:?})",
                                    bad.len(),
                                    gate_polys[gi].0,
                                    cand_cells,
                                    cand_cells.iter().map(|c| cells.contains(c)).collect::<Vec<_>>(),
                                    cand_cells.iter().map(|c| ov.contains_key(c)).collect::<Vec<_>>(),
                                    cand_cells.iter().map(|c| pinned.contains(c)).collect::<Vec<_>>()
                                );
                            }
                            let mut taken = 0usize;
                            for c in cand_cells {
                                if taken >= cfg.repair_branch {
                                    break;
                                }
                                if !cells.contains(&c) || ov.contains_key(&c) || pinned.contains(&c) {
                                    continue;
                                }
                                if cfg.forward_repairs_only && first_reader.get(&c).map(|r| *r < row).unwrap_or(false) {
                                    continue;
                                }
                                let v0 = t.adv(c, &ov);
                                let mut o1 = ov.clone();
                                let p0 = t.eval(p, row, &o1);
                                o1.insert(c, v0 + F::ONE);
                                let p1 = t.eval(p, row, &o1);
                                o1.insert(c, v0 + F::ONE.double());
                                let p2 = t.eval(p, row, &o1);
                                let slope = p1 - p0;
                                if slope.is_zero_vartime() || (p2 - p1) != slope {
                                    continue;
                                }
                                let Some(inv) = Option::<F>::from(slope.invert()) else { continue };
                                o1.insert(c, v0 - p0 * inv);
                                next.push(o1);
                                taken += 1;
                            }
                        }
                        next.truncate(cfg.repair_beam);
                        if std::env::var("LAWS_DEBUG2").is_ok() && next.is_empty() {
                            eprintln!("LAWS2 region #{rid}: combination {:?} died at repair depth {depth}", chosen.iter().map(|m| m.sets[0].0).collect::<Vec<_>>());
                        }
                        frontier = next;
                        if frontier.is_empty() {
                            break;
                        }
                    }
                }
            }
        }
        out.counter("laws_combinations_prefiltered", prefiltered);
        let _ = &lrows.iter().map(|l| (l.lk, l.row)).count();
        st.combinations += combos;
        if capped {
            st.capped_regions += 1;
        }
        st.candidates += candidates.len() as u64;
        if std::env::var("LAWS_DEBUG").is_ok() {
            eprintln!(
                "LAWS region #{rid} {rname:?}: {} cells, {} pinned, {} copy groups, {} lookup rows, {} sensitive gates, {} combos, {} candidates",
                cells.len(),
                pinned.len(),
                groups.len(),
                lrows.len(),
                sens_gates.len(),
                combos,
                candidates.len()
            );
            for ov in candidates.iter().take(3) {
                let mut d: Vec<String> = ov
                    .iter()
                    .filter(|(c, v)| t.adv(**c, &none) != **v)
                    .map(|(c, v)| format!("[{}][{}]: {} -> {}", c.0, c.1, hex(&t.adv(*c, &none)), hex(v)))
                    .collect();
                d.sort();
                eprintln!("   cand: {}", d.join("; "));
            }
        }
        out.eval(if candidates.is_empty() { "laws:region:no-alternative" } else { "laws:region:alternative-found" }, true);

        // ---- replay the candidates on the real circuit; when there are more than the replay
        // budget, those whose new values are all small (< 2^64: what range-checked cells can hold)
        // and that change the fewest cells go first
        let big = |v: &F| limbs_of(v)[1..].iter().any(|l| *l != 0);
        candidates.sort_by_key(|ov| {
            let ch: Vec<&F> = ov.iter().filter(|(c, v)| t.adv(**c, &none) != **v).map(|(_, v)| v).collect();
            (ch.iter().filter(|v| big(v)).count(), ch.len())
        });
        if candidates.len() > cfg.max_real_runs {
            out.count("laws:candidates-beyond-replay-budget", (candidates.len() - cfg.max_real_runs) as u64);
        }
        for ov in candidates.iter().take(cfg.max_real_runs) {
            let changed: Vec<(Cell, F)> = ov.iter().filter(|(c, v)| t.adv(**c, &none) != **v).map(|(c, v)| (*c, *v)).collect();
            let mut plan = vec![];
            let mut ok = true;
            for (c, v) in &changed {
                match index_of.get(c) {
                    Some(i) => plan.push((*i, Fault::Set(limbs_of(v)), Mode::Propagate)),
                    None => ok = false,
                }
            }
            if !ok {
                out.count("laws:candidate-touches-untraced-cell", 1);
                continue;
            }
            st.real_runs += 1;
            let (outcome, r_ins, r_outs) = case.s_replay(k, plan);
            out.eval(&format!("laws:replay:{}", outcome.name()), true);
            if outcome == Outcome::Sat {
                match case.s_judge(&r_ins, &r_outs) {
                    Judgement::Holds => out.count("laws:replay:accepted-benign", 1),
                    Judgement::Wrong(w) => {
                        let mut desc: Vec<String> = changed.iter().map(|((c, r), v)| format!("advice[{c}][{r}] := {}", hex(v))).collect();
                        desc.sort();
                        out.viol(Viol::new(
                            format!("{}:unsound-under-coordinated-region-alternative", case.s_op()),
                            format!(
                                "region #{rid} ({rname}): {} cells replaced by a lookup-consistent alternative ({}), witness generation continued from them: circuit still satisfied although {w}",
                                changed.len(),
                                desc.join(", ")
                            ),
                            json!({"case": case.s_key(), "region": rid, "region_name": rname, "cells": desc}),
                        ));
                    }
                }
            }
        }
    }
    out.counter("laws_regions", st.regions);
    out.counter("laws_lookup_rows", st.lookup_rows);
    out.counter("laws_moves", st.moves);
    out.counter("laws_combinations", st.combinations);
    out.counter("laws_candidates", st.candidates);
    out.counter("laws_real_runs", st.real_runs);
    out.counter("laws_regions_capped", st.capped_regions);
    st
}

/// All regions of the case's circuit (at most `max_regions`, the last ones first — they hold the
/// operation proper, after the input assignments).
pub fn explore_all<C: Runnable>(case: &C, k: u32, cfg: &Cfg, max_regions: usize, out: &mut CaseOut) -> Stats {
    let Some(regs) = regions_of(case, k) else {
        out.eval("laws:no-honest-circuit", false);
        return Stats::default();
    };
    let mut ids: Vec<u32> = regs.iter().rev().take(max_regions).map(|r| r.0).collect();
    ids.sort();
    if regs.len() > max_regions {
        out.count("laws:regions-not-explored", (regs.len() - max_regions) as u64);
    }
    explore(case, k, &ids, cfg, out)
}
