//! Jubjub point (de)compression through ZKIR (`IntoBytes(32)` / `FromBytes(JubjubPoint)`): the
//! in-circuit code lives in a private module of the zkir crate, so it is driven through
//! `ZkirRelation` instead of the vgad op-circuit.
//!
//! Statement = the public-input vector `[x, y, b0..b31]` (compress) or `[b0..b31, x, y]`
//! (decompress). Oracle:
//!  * the reference statement (bytes = repr_J(x, y): y little-endian, bit 255 = x mod 2) is accepted
//!    with the honest witness and equals what the off-circuit interpreter publishes;
//!  * every *wrong* statement from a fixed list (sign bit flipped, one byte changed, point negated,
//!    y replaced by -y) is rejected with the honest witness and with every 1-deviation fault in
//!    propagate mode (the witness code continues from the lie).

use std::collections::HashMap;

use midnight_proofs::{
    circuit::Value,
    dev::MockProver,
    verif::{self, Fault, Mode},
};
use midnight_zk_stdlib::{MidnightCircuit, Relation};
use midnight_zkir::{IrValue, ZkirRelation};
use num_bigint::BigUint;
use serde_json::json;
use vcore::{catch, CaseOut, Viol};
use vgad::{val::*, F};

use crate::refs::*;

const COMPRESS: &str = r#"{
    "version": { "major": 3, "minor": 0 },
    "instructions": [
        { "op": {"load": "JubjubPoint"}, "outputs": ["p"] },
        { "op": "publish", "inputs": ["p"] },
        { "op": {"into_bytes": 32}, "inputs": ["p"], "outputs": ["b"] },
        { "op": "publish", "inputs": ["b"] }
    ]
}"#;

const DECOMPRESS: &str = r#"{
    "version": { "major": 3, "minor": 0 },
    "instructions": [
        { "op": {"load": {"Bytes": 32}}, "outputs": ["b"] },
        { "op": "publish", "inputs": ["b"] },
        { "op": {"from_bytes": "JubjubPoint"}, "inputs": ["b"], "outputs": ["p"] },
        { "op": "publish", "inputs": ["p"] }
    ]
}"#;

#[derive(Clone, Copy, Debug, PartialEq, Eq)]
pub enum Dir {
    Compress,
    Decompress,
}

/// repr_J: y little-endian in 32 bytes, the most significant bit carries x mod 2.
pub fn repr_j(x: &BigUint, y: &BigUint) -> Vec<u8> {
    let mut b = vcore::big::to_le(y, 32);
    if x.bit(0) {
        b[31] |= 0x80;
    }
    b
}

#[derive(Clone, Debug)]
pub struct ZCase {
    pub dir: Dir,
    pub label: String,
    /// the point (for Compress: the witness; for Decompress: what the bytes should decode to)
    pub x: BigUint,
    pub y: BigUint,
    /// the byte string given as witness in the Decompress direction (may be invalid)
    pub bytes: Vec<u8>,
    /// is (x, y) a subgroup point and `bytes` its canonical encoding?
    pub valid: bool,
    /// assignment indices for the fault sweep
    pub idxs: Vec<u64>,
}

impl ZCase {
    pub fn key(&self) -> String {
        format!("zkir:{:?}[{}]", self.dir, self.label)
    }
    fn relation(&self) -> ZkirRelation {
        ZkirRelation::read(match self.dir {
            Dir::Compress => COMPRESS,
            Dir::Decompress => DECOMPRESS,
        })
        .expect("valid IR")
    }
    fn witness(&self) -> HashMap<&'static str, IrValue> {
        match self.dir {
            Dir::Compress => {
                let p = RP::from_xy(Cv::Jub, &self.x, &self.y).expect("on curve").jub_value();
                HashMap::from_iter([("p", p.into())])
            }
            Dir::Decompress => HashMap::from_iter([("b", self.bytes.clone().into())]),
        }
    }
    /// the reference statement
    pub fn statement(&self) -> Vec<F> {
        let pt = vec![from_big(&self.x), from_big(&self.y)];
        let by: Vec<F> = self.bytes.iter().map(|b| F::from(*b as u64)).collect();
        match self.dir {
            Dir::Compress => [pt, by].concat(),
            Dir::Decompress => [by, pt].concat(),
        }
    }
    /// wrong statements: (name, vector)
    pub fn wrong_statements(&self, all: bool) -> Vec<(&'static str, Vec<F>)> {
        let q = Cv::Jub.p();
        let st = self.statement();
        let (px, by0) = match self.dir {
            Dir::Compress => (0usize, 2usize),
            Dir::Decompress => (32, 0),
        };
        let mut out = vec![];
        let mut s = st.clone();
        // sign bit of the compressed form flipped
        s[by0 + 31] = if self.bytes[31] & 0x80 != 0 { st[by0 + 31] - F::from(128) } else { st[by0 + 31] + F::from(128) };
        out.push(("sign-bit-flipped", s));
        // the point negated (x -> -x), bytes unchanged
        if self.x != BigUint::from(0u32) {
            let mut s = st.clone();
            s[px] = from_big(&(&q - &self.x));
            out.push(("point-negated", s));
        }
        if all {
            for (name, k) in [("byte0+1", 0usize), ("byte15+1", 15), ("byte31+1", 31)] {
                let mut s = st.clone();
                s[by0 + k] += F::from(1);
                out.push((name, s));
            }
            let mut s = st.clone();
            s[px + 1] = from_big(&((&q - &self.y) % &q));
            out.push(("y-negated", s));
            let mut s = st.clone();
            s[by0] += from_big(&(BigUint::from(1u32) << 8)); // a "byte" of 256 + b0
            out.push(("byte0+256", s));
        }
        out.retain(|(_, v)| *v != st);
        out
    }
}

#[derive(Clone, Debug, PartialEq, Eq)]
pub enum Z {
    Sat,
    Unsat,
    SynthErr,
    Panic(String),
}

impl Z {
    fn name(&self) -> &'static str {
        match self {
            Z::Sat => "sat",
            Z::Unsat => "unsat",
            Z::SynthErr => "synth-err",
            Z::Panic(_) => "crash-unsat",
        }
    }
}

pub fn zk_min_k(c: &ZCase) -> Result<u32, String> {
    let rel = c.relation();
    catch(|| MidnightCircuit::new(&rel, Value::unknown(), Value::unknown(), Some(8)).min_k())
}

/// One MockProver verdict of the statement `pi` with the case's witness under a tamper plan.
/// Returns the verdict, the number of advice assignments and whether the planned fault changed a
/// value.
fn zk_run(c: &ZCase, k: u32, pi: &[F], plan: Vec<(u64, Fault, Mode)>) -> (Z, u64, Option<bool>) {
    let rel = c.relation();
    let witness = c.witness();
    verif::set_plan(plan);
    let r = catch(|| {
        // the instance value is only used by `format_instance`; the circuit reads the witness
        let circuit = MidnightCircuit::new(&rel, Value::unknown(), Value::known(witness), Some(8));
        MockProver::run(k, &circuit, vec![vec![], pi.to_vec()])
    });
    let (n, _) = verif::counters();
    let fired = verif::applied().first().map(|a| a.changed);
    verif::reset();
    let z = match r {
        Err(p) => Z::Panic(p),
        Ok(Err(_)) => Z::SynthErr,
        Ok(Ok(prover)) => match catch(|| prover.verify()) {
            Err(p) => Z::Panic(format!("verify: {p}")),
            Ok(Ok(())) => Z::Sat,
            Ok(Err(_)) => Z::Unsat,
        },
    };
    (z, n, fired)
}

/// Honest phase of one case; returns the number of advice assignments if the case is usable for
/// the fault sweep.
pub fn zk_honest(c: &ZCase, k: u32, out: &mut CaseOut) -> Option<u64> {
    let st = c.statement();
    let (z, n, _) = zk_run(c, k, &st, vec![]);
    out.eval(&format!("zkir-honest:{}", z.name()), true);
    let opname = format!("zkir:{:?}(JubjubPoint)", c.dir);
    if !c.valid {
        // the bytes are not the canonical encoding of a subgroup point: no statement about them
        // may be provable; with the honest witness path the circuit must not be satisfied
        if z == Z::Sat {
            out.viol(Viol::new(format!("{opname}:invalid-encoding-accepted"), format!("bytes {} are accepted as the encoding of (0x{}, 0x{})", vcore::hex(&c.bytes), c.x.to_str_radix(16), c.y.to_str_radix(16)), json!({"case": c.key()})));
        }
        return None;
    }
    if z != Z::Sat {
        out.viol(Viol::new(format!("{opname}:completeness:{}", z.name()), format!("the reference statement (bytes = repr_J of the point) is not accepted with the honest witness: {z:?}"), json!({"case": c.key()})));
        return None;
    }
    // the off-circuit interpreter publishes the same statement
    let rel = c.relation();
    match catch(|| rel.public_inputs(c.witness()).map(|i| ZkirRelation::format_instance(&i))) {
        Ok(Ok(Ok(v))) => {
            out.eval(if v == st { "zkir-offcircuit:agrees" } else { "zkir-offcircuit:differs" }, false);
            if v != st {
                out.viol(Viol::new(format!("{opname}:off-circuit-result-wrong"), format!("the off-circuit interpreter publishes [{}], reference [{}]", v.iter().map(hex).collect::<Vec<_>>().join(","), st.iter().map(hex).collect::<Vec<_>>().join(",")), json!({"case": c.key()})));
            }
        }
        other => out.viol(Viol::new(format!("{opname}:off-circuit-failure"), format!("off-circuit run failed on a valid input: {other:?}"), json!({"case": c.key()}))),
    }
    // wrong statements with the honest witness
    for (name, w) in c.wrong_statements(true) {
        let (z, _, _) = zk_run(c, k, &w, vec![]);
        out.eval(&format!("zkir-wrong-statement:{}", z.name()), true);
        if z == Z::Sat {
            out.viol(Viol::new(format!("{opname}:wrong-statement-accepted"), format!("statement '{name}' is accepted with the honest witness"), json!({"case": c.key(), "statement": name})));
        }
    }
    Some(n)
}

/// 1 deviation (propagate) x wrong statements: never satisfiable.
pub fn zk_faults(c: &ZCase, k: u32, idxs: &[u64], faults: &[(&'static str, Fault)], all_statements: bool, out: &mut CaseOut) {
    let opname = format!("zkir:{:?}(JubjubPoint)", c.dir);
    let wrong = c.wrong_statements(all_statements);
    let st = c.statement();
    for &idx in idxs {
        for (fname, fault) in faults {
            // with the reference statement: any verdict is fine (accept = benign freedom)
            let (z, _, fired) = zk_run(c, k, &st, vec![(idx, fault.clone(), Mode::Propagate)]);
            match fired {
                None => {
                    out.count("zkir-fault:not-reached", 1);
                    continue;
                }
                Some(false) => {
                    out.count("zkir-fault:value-unchanged", 1);
                    continue;
                }
                Some(true) => {}
            }
            out.eval(&format!("zkir-fault:true-statement:{}", z.name()), true);
            for (name, w) in &wrong {
                let (z, _, _) = zk_run(c, k, w, vec![(idx, fault.clone(), Mode::Propagate)]);
                out.eval(&format!("zkir-fault:wrong-statement:{}", z.name()), true);
                if z == Z::Sat {
                    out.viol(Viol::new(
                        format!("{opname}:wrong-statement-accepted-under-1-deviation"),
                        format!("statement '{name}' is accepted when advice assignment #{idx} is replaced by fault {fname}"),
                        json!({"case": c.key(), "statement": name, "assignment_index": idx, "fault": fname}),
                    ));
                }
            }
        }
    }
}
