//! C06 — elliptic-curve gadgets compute the group law and accept nothing else.

mod ops;
mod refs;

use num_bigint::BigUint;
use ops::*;
use refs::*;
use vgad::OpCase;

fn main() {
    vcore::install_panic_hook();
    // bring-up probe
    for cv in [Cv::Jub, Cv::Secp, Cv::Bls] {
        let g = RP::generator(cv);
        let p = |l: &str, rp: RP| V::Pt(P { label: l.into(), rp });
        let s = |v: u64| V::Sc(S { label: format!("{v}"), v: BigUint::from(v) });
        let big = V::Sc(S { label: "r-1".into(), v: cv.r() - 1u32 });
        let cases = vec![
            Case { cv, op: Op::Assign, ins: vec![p("G", g)] },
            Case { cv, op: Op::Double, ins: vec![p("G", g)] },
            Case { cv, op: Op::Add, ins: vec![p("G", g), p("2G", g.double())] },
            Case { cv, op: Op::Negate, ins: vec![p("G", g)] },
            Case { cv, op: Op::MulByConst(S { label: "5".into(), v: BigUint::from(5u32) }), ins: vec![p("G", g)] },
            Case { cv, op: Op::Msm { ns: 1, nb: 1, terms: vec![(SRef::In(0), BRef::In(0))], bounds: None }, ins: vec![s(7), p("G", g)] },
            Case { cv, op: Op::Msm { ns: 1, nb: 1, terms: vec![(SRef::In(0), BRef::In(0))], bounds: None }, ins: vec![big, p("G", g)] },
            Case { cv, op: Op::Msm { ns: 2, nb: 2, terms: vec![(SRef::In(0), BRef::In(0)), (SRef::In(1), BRef::In(1))], bounds: None }, ins: vec![s(7), s(9), p("G", g), p("2G", g.double())] },
        ];
        for c in cases {
            let t = std::time::Instant::now();
            let k = vgad::min_k(&c);
            let tk = t.elapsed();
            let r = vcore::in_pool(1, || vgad::run_once(&c, k.clone().unwrap(), vec![], false));
            println!("{} k={k:?} ({tk:?}) {:?} n={} untamp={} t={:?} judge={:?}", c.key(), r.outcome, r.n_assign, r.untamperable, t.elapsed(), c.judge(&r.ins, &r.outs));
        }
    }
}
