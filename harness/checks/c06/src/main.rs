//! C06 — elliptic-curve gadgets compute the group law and accept nothing else.

mod ops;
mod refs;

use ops::*;
use refs::*;
use vgad::OpCase;

fn main() {
    // bring-up probe
    let g = RP::generator(Cv::Jub);
    let c = Case { cv: Cv::Jub, op: Op::Double, ins: vec![V::Pt(P { label: "G".into(), rp: g })] };
    let t = std::time::Instant::now();
    let k = vgad::min_k(&c);
    println!("k={k:?} {:?}", t.elapsed());
    let r = vgad::run_once(&c, k.unwrap(), vec![], false);
    println!("{:?} n={} {:?} judge={:?}", r.outcome, r.n_assign, t.elapsed(), c.judge(&r.ins, &r.outs));
}
