//! C06 — elliptic-curve gadgets compute the group law and accept nothing else.

mod ops;
mod refs;
mod zk;

use std::{
    collections::{BTreeMap, BTreeSet, HashMap},
    sync::{atomic::Ordering, Mutex},
};

use ff::Field;
use midnight_proofs::verif::{Fault, Mode};
use num_bigint::BigUint;
use num_traits::{One, Zero};
use ops::*;
use refs::*;
use serde_json::json;
use vcore::{big::Fp as ModP, catch, CaseOut, Ctx, Level, Tier, Viol};
use vgad::{val::*, Judgement, OpCase, Outcome, F};

// ---------------------------------------------------------------------------------------------
// operand alphabets
// ---------------------------------------------------------------------------------------------

struct Alph {
    cv: Cv,
    /// valid values of the curve's assignment type: Id, G, 2G, P0, -P0, P1
    pts: Vec<P>,
    /// curve points outside the prime-order subgroup (BLS: assignable; Jubjub: only usable as
    /// coordinates, must be rejected)
    outside: Vec<P>,
    /// coordinate pairs that are not on the curve
    off_curve: Vec<(String, BigUint, BigUint)>,
    /// scalars < r
    scalars: Vec<S>,
}

fn pt(label: &str, rp: RP) -> P {
    P { label: label.to_string(), rp }
}

fn sc(label: &str, v: BigUint) -> S {
    S { label: label.to_string(), v }
}

fn seeded_scalar(cv: Cv, seed: u64, stream: &str) -> BigUint {
    let mut rng = vcore::rng_for(seed, &format!("c06-{}-{stream}", cv.name()));
    vcore::big::random_below(&mut rng, &cv.r())
}

/// Jubjub point with the given v (= y) coordinate, if any.
fn jub_from_y(y: &BigUint) -> Option<RP> {
    let p = Cv::Jub.p();
    let m = ModP::new(p.clone());
    // d = -(10240/10241)
    let d = m.neg(&m.div(&BigUint::from(10240u32), &BigUint::from(10241u32)).unwrap());
    let y2 = m.sqr(y);
    let num = m.sub(&y2, &BigUint::one());
    let den = m.add(&BigUint::one(), &m.mul(&d, &y2));
    let x2 = m.div(&num, &den)?;
    let x = sqrt_mod(Cv::Jub, &x2)?;
    RP::from_xy(Cv::Jub, &x, y)
}

fn alphabet(cv: Cv, seed: u64) -> Alph {
    let g = RP::generator(cv);
    let r = cv.r();
    let p = cv.p();
    let p0 = g.mul_int(&seeded_scalar(cv, seed, "p0"));
    let p1 = g.mul_int(&seeded_scalar(cv, seed, "p1"));
    let pts = vec![pt("Id", RP::identity(cv)), pt("G", g), pt("2G", g.double()), pt("P0", p0), pt("-P0", p0.neg()), pt("P1", p1)];
    let mut outside = vec![];
    match cv {
        Cv::Jub => {
            // a point of order 8: r * Q for a curve point Q whose 8-torsion component is a generator
            let mut y = BigUint::from(2u32);
            let t8 = loop {
                if let Some(q) = jub_from_y(&y) {
                    let t = q.mul_int(&r);
                    if !t.double().double().is_identity() {
                        break t;
                    }
                }
                y += 1u32;
            };
            outside.push(pt("T8", t8));
            outside.push(pt("T4", t8.double()));
            outside.push(pt("T2", t8.double().double()));
            outside.push(pt("P0+T8", p0.add(&t8)));
            outside.push(pt("P0+T2", p0.add(&t8.double().double())));
        }
        Cv::Secp => {}
        Cv::Bls => {
            // order-3 point (0, 2) and a point of large order outside G1
            outside.push(pt("T3", RP::from_xy(cv, &BigUint::zero(), &BigUint::from(2u32)).expect("(0,2) is on y^2 = x^3 + 4")));
            let mut x = BigUint::from(1u32);
            let n0 = loop {
                let rhs = (&x * &x * &x + 4u32) % &p;
                if let Some(y) = sqrt_mod(cv, &rhs) {
                    let q = RP::from_xy(cv, &x, &y).expect("on curve");
                    if !q.in_subgroup() {
                        break q;
                    }
                }
                x += 1u32;
            };
            outside.push(pt("N0", n0));
        }
    }
    let (x0, y0, _) = p0.xy();
    let (gx, gy, _) = g.xy();
    let mut off_curve = vec![
        ("(0,0)".to_string(), BigUint::zero(), BigUint::zero()),
        ("(1,1)".to_string(), BigUint::one(), BigUint::one()),
        ("(P0.x+1,P0.y)".to_string(), (&x0 + 1u32) % &p, y0.clone()),
        ("(P0.x,P0.y+1)".to_string(), x0.clone(), (&y0 + 1u32) % &p),
        ("(G.y,G.x)".to_string(), gy.clone(), gx.clone()),
        ("(p-1,p-1)".to_string(), &p - 1u32, &p - 1u32),
    ];
    if cv != Cv::Jub {
        // the Jubjub identity convention must not leak into the Weierstrass chips
        off_curve.push(("(0,1)".to_string(), BigUint::zero(), BigUint::one()));
    }
    off_curve.retain(|(_, x, y)| !on_curve(cv, x, y));
    let scalars = vec![
        sc("0", BigUint::zero()),
        sc("1", BigUint::one()),
        sc("2", BigUint::from(2u32)),
        sc("r-1", &r - 1u32),
        sc("(r-1)/2", (&r - 1u32) >> 1),
        sc("2^128", BigUint::one() << 128),
        sc("s0", seeded_scalar(cv, seed, "s0")),
        sc("s1", seeded_scalar(cv, seed, "s1")),
    ];
    Alph { cv, pts, outside, off_curve, scalars }
}

impl Alph {
    fn p(&self, label: &str) -> P {
        self.pts.iter().chain(self.outside.iter()).find(|p| p.label == label).unwrap_or_else(|| panic!("no point {label}")).clone()
    }
    fn s(&self, label: &str) -> S {
        self.scalars.iter().find(|s| s.label == label).unwrap_or_else(|| panic!("no scalar {label}")).clone()
    }
}

// ---------------------------------------------------------------------------------------------
// case generation
// ---------------------------------------------------------------------------------------------

fn msm_case(cv: Cv, scalars: Vec<S>, bases: Vec<P>, terms: Vec<(SRef, BRef)>, bounds: Option<Vec<usize>>) -> Case {
    let mut ins: Vec<V> = scalars.iter().cloned().map(V::Sc).collect();
    ins.extend(bases.iter().cloned().map(V::Pt));
    Case { cv, op: Op::Msm { ns: scalars.len(), nb: bases.len(), terms, bounds }, ins, lenient: false }
}

/// plain msm: term i = scalar i * base i
fn msm_plain(cv: Cv, scalars: Vec<S>, bases: Vec<P>) -> Case {
    let terms = (0..scalars.len()).map(|i| (SRef::In(i), BRef::In(i))).collect();
    msm_case(cv, scalars, bases, terms, None)
}

fn bytes_of(v: &BigUint, n: usize) -> Vec<V> {
    vcore::big::to_le(v, n).into_iter().map(V::Byte).collect()
}


/// BLS: a point outside G1 together with a cofactor "root" that the (defective) constant
/// multiplication of the subgroup check maps onto it, if one exists. The check multiplies by the
/// constant mul_by_constant really applies to the 126-bit cofactor; with a correct multiplication
/// no such root exists (h * R is always in G1).
fn forged_subgroup_case(a: &Alph) -> Option<Case> {
    let cv = Cv::Bls;
    let h = BigUint::parse_bytes(b"396c8c005555e1568c00aaab0000aaab", 16).unwrap();
    let group_order = &h * cv.r();
    // the root is built for the sum of the 64-bit digits of h: the multiplier observed in the
    // honest MulByConst violations (mul_by_constant(2^64, P) = P, mul_by_constant(2^64+1, P) = 2P)
    let mask = (BigUint::one() << 64) - 1u32;
    let n_eff = (&h & &mask) + (&h >> 64);
    // p = 3 * N0 has order dividing |E|/3, which is coprime to n_eff
    let p = a.p("N0").rp.mul_int(&BigUint::from(3u32));
    if p.in_subgroup() || p.is_identity() {
        return None;
    }
    let m = &group_order / 3u32;
    let inv = mod_inverse(&n_eff, &m)?;
    let root = p.mul_int(&inv);
    if root.mul_int(&n_eff) != p {
        return None;
    }
    Some(Case { cv, op: Op::SubgroupCheckChosenRoot, ins: vec![V::Pt(pt("3*N0", p)), V::Pt(pt("root(3*N0)", root))], lenient: false })
}

fn mod_inverse(a: &BigUint, m: &BigUint) -> Option<BigUint> {
    use num_bigint::BigInt;
    use num_integer::Integer;
    let (a, m) = (BigInt::from(a.clone()), BigInt::from(m.clone()));
    let e = a.extended_gcd(&m);
    if !e.gcd.is_one() {
        return None;
    }
    Some(e.x.mod_floor(&m).to_biguint().unwrap())
}

/// `full`: the complete registry of the curve; otherwise the reduced "light" list used for the
/// BLS curve in the quick tier.
fn cases_for(a: &Alph, tier: Tier, seed: u64, full: bool) -> Vec<Case> {
    let cv = a.cv;
    let r = cv.r();
    let mut out: Vec<Case> = vec![];
    let mut push = |c: Case| out.push(c);
    let vp = |p: &P| V::Pt(p.clone());
    // points that can be assigned on this curve
    let mut assignable: Vec<P> = a.pts.clone();
    if cv == Cv::Bls {
        assignable.extend(a.outside.iter().cloned());
    }
    if !full {
        // BLS in the quick tier: honest runs around the points outside G1 and the constants of
        // mul_by_constant
        for p in &assignable {
            push(Case { cv, op: Op::Assign, ins: vec![vp(p)], lenient: false });
            push(Case { cv, op: Op::Double, ins: vec![vp(p)], lenient: false });
        }
        for (x, y) in [("T3", "T3"), ("T3", "N0"), ("N0", "N0"), ("G", "T3"), ("P0", "-P0"), ("Id", "N0")] {
            push(Case { cv, op: Op::Add, ins: vec![vp(&a.p(x)), vp(&a.p(y))], lenient: false });
        }
        // a full-size constant (windowed-msm path of mul_by_constant) on a generic and on the identity base
        for p in ["P0", "Id"] {
            push(Case { cv, op: Op::MulByConst(a.s("2^128")), ins: vec![vp(&a.p(p))], lenient: false });
        }
        for k in [sc("3", BigUint::from(3u32)), sc("2^64+1", (BigUint::one() << 64) + 1u32)] {
            for p in ["G", "T3", "N0"] {
                // the foreign chip assumes "no low-order points": multiples of the order-3 point run
                // into its incomplete additions, completeness is not required there
                push(Case { cv, op: Op::MulByConst(k.clone()), ins: vec![vp(&a.p(p))], lenient: p == "T3" });
            }
        }
        for p in ["G", "Id", "N0", "T3"] {
            push(Case { cv, op: Op::AssertInSubgroup, ins: vec![vp(&a.p(p))], lenient: false });
        }
        if let Some(c) = forged_subgroup_case(a) {
            push(c);
        }
        return out;
    }
    // ---- unary
    for p in &assignable {
        push(Case { cv, op: Op::Assign, ins: vec![vp(p)], lenient: false });
    }
    for p in &a.pts {
        push(Case { cv, op: Op::AssignFixed(p.clone()), ins: vec![], lenient: false });
    }
    for p in &assignable {
        for op in [Op::Negate, Op::Double, Op::Coords, Op::IsZero, Op::AssertZero, Op::AssertNonZero] {
            push(Case { cv, op, ins: vec![vp(p)], lenient: false });
        }
    }
    for q in ["Id", "G", "P0"] {
        for p in ["Id", "G", "P0", "-P0"] {
            for op in [Op::IsEqualToFixed(a.p(q)), Op::AssertEqualToFixed(a.p(q)), Op::AssertNotEqualToFixed(a.p(q))] {
                push(Case { cv, op, ins: vec![vp(&a.p(p))], lenient: false });
            }
        }
    }
    // ---- point_from_coordinates: on-curve, outside the subgroup, off-curve
    for p in a.pts.iter().chain(a.outside.iter()) {
        let (x, y, id) = p.rp.xy();
        if id && cv != Cv::Jub {
            continue; // (0,0) is in the off-curve list
        }
        push(Case { cv, op: Op::FromCoords, ins: vec![V::Co(format!("{}.x", p.label), x), V::Co(format!("{}.y", p.label), y)], lenient: false });
    }
    for (l, x, y) in &a.off_curve {
        push(Case { cv, op: Op::FromCoords, ins: vec![V::Co(format!("{l}.x"), x.clone()), V::Co(format!("{l}.y"), y.clone())], lenient: false });
    }
    // ---- add: the full product of the assignable points (quick, foreign: a covering list)
    if cv == Cv::Jub || tier.is_thorough() {
        for p in &assignable {
            for q in &assignable {
                push(Case { cv, op: Op::Add, ins: vec![vp(p), vp(q)], lenient: false });
            }
        }
    } else {
        for (x, y) in [("G", "2G"), ("Id", "Id"), ("Id", "G"), ("G", "Id"), ("G", "G"), ("P0", "-P0"), ("-P0", "P0"), ("P0", "P0"), ("P0", "P1"), ("2G", "G"), ("P1", "Id")] {
            push(Case { cv, op: Op::Add, ins: vec![vp(&a.p(x)), vp(&a.p(y))], lenient: false });
        }
    }
    // ---- binary predicates / control flow on a diagonal of pairs
    let pairs = [("Id", "Id"), ("Id", "G"), ("G", "Id"), ("G", "G"), ("P0", "-P0"), ("P0", "P1"), ("P0", "P0")];
    for (x, y) in pairs {
        for op in [Op::IsEqual, Op::IsNotEqual, Op::AssertEqual, Op::AssertNotEqual] {
            push(Case { cv, op, ins: vec![vp(&a.p(x)), vp(&a.p(y))], lenient: false });
        }
        for b in [false, true] {
            for op in [Op::Select, Op::CondSwap, Op::CondAssertEqual] {
                push(Case { cv, op, ins: vec![V::Bit(b), vp(&a.p(x)), vp(&a.p(y))], lenient: false });
            }
        }
    }
    // ---- mul_by_constant
    let mut consts = vec![
        sc("0", BigUint::zero()),
        sc("1", BigUint::one()),
        sc("2", BigUint::from(2u32)),
        sc("3", BigUint::from(3u32)),
        sc("8", BigUint::from(8u32)),
        sc("2^64-1", (BigUint::one() << 64) - 1u32),
        sc("2^64", BigUint::one() << 64),
        sc("2^64+1", (BigUint::one() << 64) + 1u32),
        sc("2^127+5", (BigUint::one() << 127) + 5u32),
        sc("2^128-1", (BigUint::one() << 128) - 1u32),
        sc("2^128", BigUint::one() << 128),
        sc("r-1", &r - 1u32),
        a.s("s0"),
    ];
    if !tier.is_thorough() && cv != Cv::Jub {
        // the full-size constants go through the windowed msm (k >= 14): thorough only
        // (one of them, 2^128, is kept for an honest run)
        consts.retain(|c| c.v.bits() <= 128 || c.label == "2^128");
    }
    for k in &consts {
        for p in ["P0", "Id", "G"] {
            if p == "G" && k.v.bits() > 3 && !tier.is_thorough() {
                continue;
            }
            push(Case { cv, op: Op::MulByConst(k.clone()), ins: vec![vp(&a.p(p))], lenient: false });
        }
    }
    if cv == Cv::Bls {
        for k in ["2", "3", "2^64+1"] {
            for p in ["T3", "N0"] {
                push(Case { cv, op: Op::MulByConst(consts.iter().find(|c| c.label == k).unwrap().clone()), ins: vec![vp(&a.p(p))], lenient: p == "T3" });
            }
        }
        for p in ["G", "P0", "Id", "N0", "T3"] {
            push(Case { cv, op: Op::AssertInSubgroup, ins: vec![vp(&a.p(p))], lenient: false });
        }
        if let Some(c) = forged_subgroup_case(a) {
            push(c);
        }
    }
    // ---- msm
    let foreign = cv != Cv::Jub;
    // size 1: every scalar class on P0; a few on Id and G
    for s in &a.scalars {
        push(msm_plain(cv, vec![s.clone()], vec![a.p("P0")]));
    }
    for s in ["0", "1", "s0"] {
        push(msm_plain(cv, vec![a.s(s)], vec![a.p("Id")]));
        push(msm_plain(cv, vec![a.s(s)], vec![a.p("G")]));
    }
    // fixed scalars / fixed bases (for the foreign chip: scalar 1 is peeled off, 0 * P, fixed identity base)
    for s in ["0", "1", "2", "r-1"] {
        push(msm_case(cv, vec![], vec![a.p("P0")], vec![(SRef::Fixed(a.s(s)), BRef::In(0))], None));
    }
    push(msm_case(cv, vec![a.s("s0")], vec![], vec![(SRef::In(0), BRef::Fixed(a.p("G")))], None));
    push(msm_case(cv, vec![a.s("s0")], vec![], vec![(SRef::In(0), BRef::Fixed(a.p("Id")))], None));
    // size 2: the accumulator reaches the identity / equals the next addend
    let in2 = || vec![(SRef::In(0), BRef::In(0)), (SRef::In(1), BRef::In(1))];
    push(msm_case(cv, vec![a.s("1"), a.s("r-1")], vec![a.p("P0"), a.p("P0")], in2(), None)); // P - P, two variables with the same value
    push(msm_case(cv, vec![a.s("1"), a.s("r-1")], vec![a.p("P0")], vec![(SRef::In(0), BRef::In(0)), (SRef::In(1), BRef::In(0))], None)); // same base variable twice
    push(msm_case(cv, vec![a.s("1"), a.s("1")], vec![a.p("P0"), a.p("P0")], in2(), None)); // P + P
    push(msm_case(cv, vec![a.s("s0"), a.s("s0")], vec![a.p("P0"), a.p("-P0")], in2(), None)); // sP - sP
    push(msm_case(cv, vec![a.s("s0")], vec![a.p("P0"), a.p("P1")], vec![(SRef::In(0), BRef::In(0)), (SRef::In(0), BRef::In(1))], None)); // same scalar variable twice
    push(msm_case(cv, vec![a.s("s0"), a.s("s1")], vec![a.p("P0"), a.p("P1")], in2(), None));
    push(msm_case(cv, vec![a.s("s0"), a.s("s1")], vec![a.p("Id"), a.p("P1")], in2(), None));
    push(msm_case(cv, vec![a.s("0"), a.s("0")], vec![a.p("P0"), a.p("P1")], in2(), None));
    push(msm_case(cv, vec![a.s("s0")], vec![a.p("P0"), a.p("P1")], vec![(SRef::Fixed(a.s("1")), BRef::In(0)), (SRef::In(0), BRef::In(1))], None));
    // size 3
    let in3 = || vec![(SRef::In(0), BRef::In(0)), (SRef::In(1), BRef::In(1)), (SRef::In(2), BRef::In(2))];
    push(msm_case(cv, vec![a.s("2"), a.s("r-1"), a.s("r-1")], vec![a.p("P0"), a.p("P0"), a.p("P0")], in3(), None)); // 2P - P - P
    push(msm_case(cv, vec![a.s("s0"), a.s("s1"), a.s("2")], vec![a.p("P0"), a.p("P1"), a.p("G")], in3(), None));
    push(msm_case(cv, vec![a.s("1"), a.s("1"), a.s("r-1")], vec![a.p("P0"), a.p("-P0"), a.p("G")], in3(), None));
    // bounded scalars (in-contract bounds only)
    push(msm_case(cv, vec![sc("3", BigUint::from(3u32)), sc("1025", BigUint::from(1025u32))], vec![a.p("P0"), a.p("P1")], in2(), Some(vec![4, 12])));
    push(msm_case(cv, vec![sc("15", BigUint::from(15u32))], vec![a.p("P0")], vec![(SRef::In(0), BRef::In(0))], Some(vec![4])));
    push(msm_case(cv, vec![a.s("2^128")], vec![a.p("P0")], vec![(SRef::In(0), BRef::In(0))], Some(vec![129])));
    push(msm_case(cv, vec![a.s("s0"), sc("3", BigUint::from(3u32))], vec![a.p("P0"), a.p("Id")], in2(), Some(vec![r.bits() as usize, 2])));
    // two msm calls in one circuit (foreign chips: every call loads its own dynamic lookup tables)
    if foreign {
        let mut ins: Vec<V> = vec![V::Sc(a.s("s0")), V::Sc(a.s("s1"))];
        ins.extend([V::Pt(a.p("P0")), V::Pt(a.p("P1"))]);
        push(Case { cv, op: Op::MsmTwice { ns: 2, nb: 2, terms: in2() }, ins, lenient: false });
    }
    // bounded scalars on a repeated base variable: the chip merges them into one scalar whose
    // bound must grow with the sum (sums that overflow the larger bound, bounds that are multiples
    // of the window size)
    let same2 = || vec![(SRef::In(0), BRef::In(0)), (SRef::In(1), BRef::In(0))];
    let small = |v: u32| sc(&v.to_string(), BigUint::from(v));
    push(msm_case(cv, vec![small(200), small(100)], vec![a.p("P0")], same2(), Some(vec![8, 8])));
    push(msm_case(cv, vec![small(255), small(255)], vec![a.p("P0")], same2(), Some(vec![8, 8])));
    push(msm_case(cv, vec![small(4095), small(1)], vec![a.p("P0")], same2(), Some(vec![12, 4])));
    push(msm_case(cv, vec![small(9), small(9)], vec![a.p("G")], same2(), Some(vec![4, 4])));
    push(msm_case(
        cv,
        vec![small(15), small(15), small(15)],
        vec![a.p("P0")],
        vec![(SRef::In(0), BRef::In(0)), (SRef::In(1), BRef::In(0)), (SRef::In(2), BRef::In(0))],
        Some(vec![4, 4, 4]),
    ));
    // larger sizes (Jubjub; thorough)
    if tier.is_thorough() && !foreign {
        let mut rng = vcore::rng_for(seed, "c06-msm-big");
        for n in 4..=8usize {
            let g = RP::generator(cv);
            let scalars: Vec<S> = (0..n).map(|i| sc(&format!("m{n}s{i}"), vcore::big::random_below(&mut rng, &r))).collect();
            let bases: Vec<P> = (0..n).map(|i| pt(&format!("m{n}b{i}"), g.mul_int(&vcore::big::random_below(&mut rng, &r)))).collect();
            push(msm_plain(cv, scalars.clone(), bases.clone()));
            // the running sum returns to the identity after every second term
            let mut sc2 = vec![];
            let mut b2 = vec![];
            for i in 0..n {
                sc2.push(if i % 2 == 0 { a.s("s0") } else { sc("r-s0", &r - &a.s("s0").v) });
                b2.push(a.p("P0"));
            }
            push(msm_plain(cv, sc2, b2));
        }
    }
    // ---- Jubjub: scalars from bytes / from a native element, hash to curve
    if cv == Cv::Jub {
        let q = cv.p();
        let mut rng = vcore::rng_for(seed, "c06-jub-bytes");
        let two256: BigUint = BigUint::one() << 256usize;
        let vals32: Vec<(&str, BigUint)> = vec![
            ("0", BigUint::zero()),
            ("1", BigUint::one()),
            ("r-1", &r - 1u32),
            ("r", r.clone()),
            ("r+1", &r + 1u32),
            ("2^252-1", (BigUint::one() << 252) - 1u32),
            ("q", q.clone()),
            ("2^255", BigUint::one() << 255),
            ("2^256-1", two256.clone() - BigUint::one()),
            ("seeded", vcore::big::random_below(&mut rng, &two256)),
        ];
        for (_, v) in &vals32 {
            push(Case { cv, op: Op::ScalarFromBytes(32), ins: bytes_of(v, 32), lenient: false });
            let mut ins = bytes_of(v, 32);
            ins.push(vp(&a.p("P0")));
            push(Case { cv, op: Op::MulBytes(32), ins, lenient: false });
        }
        for (n, v) in [(1usize, BigUint::from(0xffu32)), (1, BigUint::zero()), (2, BigUint::from(0x1234u32)), (31, (BigUint::one() << 248) - 1u32), (33, (BigUint::one() << 264) - 1u32), (33, &r + 5u32)] {
            push(Case { cv, op: Op::ScalarFromBytes(n), ins: bytes_of(&v, n), lenient: false });
            let mut ins = bytes_of(&v, n);
            ins.push(vp(&a.p("G")));
            push(Case { cv, op: Op::MulBytes(n), ins, lenient: false });
        }
        let mut ins = bytes_of(&r, 32);
        ins.push(vp(&a.p("Id")));
        push(Case { cv, op: Op::MulBytes(32), ins, lenient: false });
        let nats: Vec<BigUint> = vec![BigUint::zero(), BigUint::one(), &r - 1u32, r.clone(), &r + 1u32, &q - 1u32, to_big(&F::random(&mut rng))];
        for v in &nats {
            push(Case { cv, op: Op::ScalarFromNative, ins: vec![V::Nat(from_big(v))], lenient: false });
            push(Case { cv, op: Op::MulNative, ins: vec![V::Nat(from_big(v)), vp(&a.p("P0"))], lenient: false });
        }
        let pool: Vec<F> = vec![F::ZERO, F::ONE, -F::ONE, F::random(&mut rng), F::random(&mut rng), F::random(&mut rng)];
        for n in 0..=4usize {
            for shift in 0..tier.pick(2usize, 4usize) {
                let ins: Vec<V> = (0..n).map(|i| V::Nat(pool[(i * 2 + shift * 3 + n) % pool.len()])).collect();
                push(Case { cv, op: Op::HashToCurve(n), ins, lenient: false });
            }
        }
    }
    out
}

// ---------------------------------------------------------------------------------------------
// extra exploration modes (on top of vgad's)
// ---------------------------------------------------------------------------------------------

/// 0 deviations only (used where the full `explore_honest` — one complete re-verification per
/// exposed value and lie — is too expensive): verdict + reference on the exposed vector.
fn light_honest(case: &Case, k: u32, out: &mut CaseOut) -> (Outcome, u64) {
    let run = vgad::run_once(case, k, vec![], false);
    out.eval(&format!("honest:{}", run.outcome.name()), true);
    let detail = json!({"case": case.key()});
    match (&run.outcome, case.expect_sat()) {
        (Outcome::Sat, true) => {
            if let Judgement::Wrong(w) = case.judge(&run.ins, &run.outs) {
                out.viol(Viol::new(format!("{}:honest-result-wrong", case.op()), format!("honest circuit is satisfied but its exposed result contradicts the reference: {w}"), detail));
            }
        }
        (Outcome::Sat, false) => {
            if let Judgement::Wrong(w) = case.judge(&run.ins, &run.outs) {
                out.viol(Viol::new(format!("{}:out-of-domain-accepted", case.op()), format!("input outside the documented domain is accepted: {w}"), detail));
            }
        }
        (o, true) => {
            let what = match o {
                Outcome::Unsat(e) => format!("unsatisfiable: {e}"),
                Outcome::SynthErr(e) => format!("synthesis error: {e}"),
                Outcome::Panic(e) => format!("panic: {e}"),
                Outcome::Sat => unreachable!(),
            };
            out.viol(Viol::new(format!("{}:completeness:{}", case.op(), o.name()), format!("honest witness for an admissible input is not accepted — {what}"), detail));
        }
        (_, false) => {}
    }
    (run.outcome, run.n_assign)
}

/// 1 deviation, table-only mode: the i-th assigned cell of the table is changed while the
/// library's witness code (and therefore every exposed value) stays honest. An accepted run
/// means that the cell is not constrained by anything ("free cell"); it cannot contradict the
/// reference (the exposed vector is the honest one) unless the judge says so.
fn explore_table_faults(case: &Case, k: u32, idxs: &[u64], faults: &[(&'static str, Fault)], out: &mut CaseOut, free: &Mutex<BTreeSet<String>>) {
    for &idx in idxs {
        for (fname, fault) in faults {
            let run = vgad::run_once(case, k, vec![(idx, fault.clone(), Mode::TableOnly)], false);
            match run.applied.first().map(|a| a.changed) {
                None => {
                    out.count("tfault:not-reached", 1);
                    continue;
                }
                Some(false) => {
                    out.count("tfault:value-unchanged", 1);
                    continue;
                }
                Some(true) => {}
            }
            out.eval(&format!("tfault:{}", run.outcome.name()), true);
            if run.outcome == Outcome::Sat {
                let a = &run.applied[0];
                match case.judge(&run.ins, &run.outs) {
                    Judgement::Holds => {
                        out.count("tfault:accepted-free-cell", 1);
                        free.lock().unwrap().insert(format!("{} column {} offset {} (assignment #{idx} of {}, fault {fname})", case.op(), a.column, a.offset, run.n_assign));
                    }
                    Judgement::Wrong(w) => out.viol(Viol::new(
                        format!("{}:unsound-under-1-table-deviation", case.op()),
                        format!("advice assignment #{idx} (column {}, region offset {}) replaced in the table by fault {fname}: circuit still satisfied although {w}", a.column, a.offset),
                        json!({"case": case.key(), "assignment_index": idx, "fault": fname}),
                    )),
                }
            }
        }
    }
}


/// In replay mode the runner executes only the case named in the replay file; the later phases of
/// this check depend on results of the earlier ones (k, number of assignments), so the target is
/// parsed here and those results are recomputed directly for it.
struct ReplayTarget {
    /// key of the underlying (curve, operation, inputs) case
    base: String,
    /// stride encoded in a fault-group key
    stride: Option<u64>,
}

fn replay_target() -> Option<ReplayTarget> {
    let args: Vec<String> = std::env::args().collect();
    let i = args.iter().position(|a| a == "--replay")?;
    let txt = std::fs::read_to_string(args.get(i + 1)?).ok()?;
    let v: serde_json::Value = serde_json::from_str(&txt).ok()?;
    let key = v["case_key"].as_str()?.to_string();
    let rest = key.split_once('/').map(|x| x.1.to_string()).unwrap_or(key);
    // strip "#chunk" and "@s<stride>"
    let (rest, _) = match rest.rfind('#') {
        Some(p) if rest[p + 1..].chars().all(|c| c.is_ascii_digit()) && p + 1 < rest.len() => (rest[..p].to_string(), ()),
        _ => (rest, ()),
    };
    let (base, stride) = match rest.rfind("@s") {
        Some(p) if rest[p + 2..].chars().all(|c| c.is_ascii_digit()) && p + 2 < rest.len() => (rest[..p].to_string(), rest[p + 2..].parse().ok()),
        _ => (rest, None),
    };
    Some(ReplayTarget { base, stride })
}

fn shape_key(c: &Case) -> String {
    format!("{}:{}", c.cv.name(), c.op.describe())
}

fn main() {
    let mut cx = Ctx::from_args("C06", Level::FaultEnumeration);
    // thorough: honest runs of the foreign msm circuits alone take ~11 minutes
    cx.thorough_budget(2700);
    cx.worker_rayon_threads = Some(1);
    let seed = cx.seed;
    let tier = cx.tier;
    cx.assume("MockProver (with the trash-argument evaluation added by the C02 fix) is the satisfiability oracle; its agreement with the real verifier is C02's subject");
    cx.assume("the group law of midnight-curves (Jubjub, BLS12-381 G1) and of the k256 wrapper is the reference; it is C11's subject");
    cx.assume("prover freedom is bounded to <= 1 deviation from the library's witness generator (propagate and table-only modes; 2 deviations for the smallest operations) plus consistent lies about exposed values");
    cx.assume("a public-input vector that is well-formed but not the canonical `as_public_input` image (emulated field element represented as v+m, identity flag with non-zero coordinates) is judged by the value it denotes: no verifier can hold such a vector, since statements are encoded off-circuit by `as_public_input`");

    // ---- alphabets and self-checks of the reference / decoders
    let alphs: Vec<Alph> = [Cv::Jub, Cv::Secp, Cv::Bls].into_iter().map(|cv| alphabet(cv, seed)).collect();
    let mut selfcheck_evals = 0u64;
    for a in &alphs {
        let cv = a.cv;
        for p in a.pts.iter().chain(a.outside.iter()) {
            let (x, y, id) = p.rp.xy();
            cx.require(id || on_curve(cv, &x, &y), &format!("alphabet point {} of {} satisfies the big-integer curve equation", p.label, cv.name()));
            cx.require(id || RP::from_xy(cv, &x, &y) == Some(p.rp), "from_xy(xy(P)) == P");
            if let Some(enc) = p.rp.encode() {
                let ok = matches!(decode_point(cv, &enc), PtDecode::Point { p: q, canonical: true, .. } if q == p.rp);
                cx.require(ok, &format!("point decoder inverts as_public_input on {} of {}", p.label, cv.name()));
                // every single-limb +1 must change the decoded value or be rejected
                for i in 0..enc.len() {
                    let mut e2 = enc.clone();
                    e2[i] += F::ONE;
                    let same = matches!(decode_point(cv, &e2), PtDecode::Point { p: q, canonical: true, .. } if q == p.rp);
                    cx.require(!same, "point decoder is injective on canonical encodings");
                    selfcheck_evals += 1;
                }
            }
            if !id {
                for (c, v) in [("x", &x), ("y", &y)] {
                    let enc = encode_coord(cv, v);
                    cx.require(decode_coord(cv, &enc).as_ref() == Some(v), &format!("coordinate decoder inverts as_public_input ({c} of {})", p.label));
                    if cv != Cv::Jub {
                        let (lb, nb) = cv.limbs();
                        cx.require(enc == encode_emulated(v, &cv.p(), lb, nb), "own limb encoder agrees with the library's");
                    }
                }
            }
            for s in a.scalars.iter().filter(|_| p.rp.in_subgroup()) {
                cx.require(p.rp.mul_int(&s.v) == p.rp.mul_native(&s.v), &format!("integer double-and-add agrees with the library's scalar multiplication ({} * {})", s.label, p.label));
                selfcheck_evals += 1;
            }
            cx.require(p.rp.mul_int(&(cv.r() + 3u32)) == p.rp.mul_int(&BigUint::from(3u32)) || !p.rp.in_subgroup(), "(r+3)P == 3P in the subgroup");
        }
        for p in &a.pts {
            cx.require(p.rp.in_subgroup(), "alphabet points are in the prime-order subgroup");
        }
        for p in &a.outside {
            cx.require(!p.rp.in_subgroup(), &format!("{} is outside the prime-order subgroup", p.label));
        }
        for s in &a.scalars {
            let enc = encode_scalar(cv, &s.v);
            cx.require(decode_scalar(cv, JUB_SCALAR_BITS, &enc).as_ref() == Some(&s.v), &format!("scalar decoder inverts as_public_input on {} of {}", s.label, cv.name()));
        }
        for (l, x, y) in &a.off_curve {
            cx.require(RP::from_xy(cv, x, y).is_none(), &format!("{l} is off the curve"));
        }
    }
    {
        let j = &alphs[0];
        let t8 = j.p("T8").rp;
        cx.require(!t8.double().double().is_identity() && t8.double().double().double().is_identity(), "T8 has order 8");
        let (x, y, _) = j.p("T2").rp.xy();
        cx.require(x.is_zero() && y == Cv::Jub.p() - 1u32, "T2 = (0, -1)");
        let b = &alphs[2];
        let t3 = b.p("T3").rp;
        cx.require(t3.double() == t3.neg() && !t3.is_identity(), "T3 has order 3");
        // identity flag with non-zero coordinates decodes to the identity, flagged non-canonical
        let mut enc = RP::identity(Cv::Secp).encode().unwrap();
        enc[1] -= F::ONE;
        cx.require(matches!(decode_point(Cv::Secp, &enc), PtDecode::Point { canonical: false, p, .. } if p.is_identity()), "non-canonical identity decodes as identity");
        let mut enc = RP::generator(Cv::Secp).encode().unwrap();
        enc[3] += F::ONE; // most significant limb of x: 2^64 at least -> out of range or another value
        cx.require(!matches!(decode_point(Cv::Secp, &enc), PtDecode::Point { p, .. } if p == RP::generator(Cv::Secp)), "limb overflow is not decoded as the same point");
        NONCANON_ID.store(0, Ordering::Relaxed);
        NONCANON_FIELD.store(0, Ordering::Relaxed);
    }
    cx.add_counter("selfcheck_evaluations", selfcheck_evals);

    // ---- cases
    let mut cases: Vec<(String, Case)> = vec![];
    let mut seen: BTreeSet<String> = BTreeSet::new();
    for a in &alphs {
        let full = match a.cv {
            Cv::Jub | Cv::Secp => true,
            Cv::Bls => tier.is_thorough(),
        };
        for c in cases_for(a, tier, seed, full) {
            let k = c.key();
            if seen.insert(k.clone()) {
                cases.push((k, c));
            }
        }
    }

    let replay = replay_target();
    if let Some(r) = &replay {
        cases.retain(|(k, _)| *k == r.base);
    }

    // ---- k per (curve, operation shape)
    let mut kreq: Vec<(String, Case)> = vec![];
    for (_, c) in &cases {
        let kk = shape_key(c);
        if !kreq.iter().any(|(k, _)| *k == kk) {
            kreq.push((kk, c.clone()));
        }
    }
    let ks: Mutex<HashMap<String, u32>> = Mutex::new(HashMap::new());
    cx.run_cases("min-k", &kreq, |c| {
        let mut o = CaseOut::batch();
        match vgad::min_k(c) {
            Ok(k) => {
                ks.lock().unwrap().insert(shape_key(c), k);
                o.count(&format!("k={k}"), 1);
            }
            Err(p) => {
                o.count("k-panic", 1);
                o.viol(Viol::new(format!("{}:sizing-panic", c.op()), format!("cost model / min_k panicked: {p}"), json!({"shape": shape_key(c)})));
            }
        }
        o
    });
    if replay.is_some() {
        for (_, c) in &kreq {
            if let Ok(k) = vgad::min_k(c) {
                ks.lock().unwrap().insert(shape_key(c), k);
            }
        }
    }
    let ks = ks.into_inner().unwrap();
    let kof = |c: &Case| ks.get(&shape_key(c)).copied();
    let mut cases: Vec<(String, Case)> = cases.into_iter().filter(|(_, c)| kof(c).is_some()).collect();
    // simplest first (the runner reports a cap by position)
    cases.sort_by_key(|(_, c)| kof(c).unwrap());

    // ---- phase 1: honest runs, instance binding, exposed-value lies
    // full exploration (one complete re-verification per exposed value and lie) up to k_full and,
    // in the thorough tier, for the first two cases of every heavier operation; otherwise the
    // honest verdict + reference only
    let k_full = tier.pick(10u32, 12u32);
    let k_fidelity = 12u32;
    let mut heavy_full: BTreeSet<String> = BTreeSet::new();
    if tier.is_thorough() {
        let mut cnt: HashMap<String, usize> = HashMap::new();
        for (key, c) in &cases {
            if kof(c).unwrap() > k_full && c.expect_sat() {
                let e = cnt.entry(c.op()).or_default();
                if *e < 2 {
                    *e += 1;
                    heavy_full.insert(key.clone());
                }
            }
        }
    }
    let nassign: Mutex<HashMap<String, u64>> = Mutex::new(HashMap::new());
    cx.run_cases("honest", &cases, |c| {
        let mut out = CaseOut::batch();
        let k = kof(c).unwrap();
        let (outcome, n) = if k <= k_full || heavy_full.contains(&c.key()) {
            let rep = vgad::explore_honest(c, k, &mut out);
            out.counter("untamperable_assignments", rep.untamperable);
            (rep.outcome, rep.n_assign)
        } else {
            out.count("honest-light", 1);
            light_honest(c, k, &mut out)
        };
        if outcome == Outcome::Sat && c.expect_sat() && out.viols.is_empty() {
            nassign.lock().unwrap().insert(c.key(), n);
            // the exposed inputs of an honest run are the off-circuit encodings of the given inputs
            if k <= k_fidelity {
                let run = vgad::run_once(c, k, vec![], false);
                for (i, (got, want)) in run.ins.iter().zip(c.honest_input_encoding()).enumerate() {
                    let Some(want) = want else { continue };
                    out.eval(if *got == want { "input-encoding:matches-as_public_input" } else { "input-encoding:differs" }, false);
                    if *got != want {
                        out.viol(Viol::new(
                            format!("{}:in-circuit-encoding-differs-from-as_public_input", c.op()),
                            format!("exposed input {i} is [{}] but the off-circuit as_public_input of the assigned value is [{}]", got.iter().map(hex).collect::<Vec<_>>().join(","), want.iter().map(hex).collect::<Vec<_>>().join(",")),
                            json!({"case": c.key()}),
                        ));
                    }
                }
            }
        }
        out.counter("advice_assignments", n);
        out.sample = Some(json!({"case": c.key(), "k": k, "honest": outcome.name(), "assignments": n}));
        out
    });
    let mut nassign = nassign.into_inner().unwrap();
    if replay.is_some() {
        for (key, c) in &cases {
            if !nassign.contains_key(key) && c.expect_sat() {
                let run = vgad::run_once(c, kof(c).unwrap(), vec![], false);
                if run.outcome == Outcome::Sat {
                    nassign.insert(key.clone(), run.n_assign);
                }
            }
        }
    }

    // ---- phase 4: Jubjub point compression / decompression through ZKIR
    let zcases: Vec<(String, zk::ZCase)> = {
        let j = &alphs[0];
        let q = Cv::Jub.p();
        let mut v: Vec<zk::ZCase> = vec![];
        for p in &j.pts {
            let (x, y, _) = p.rp.xy();
            for dir in [zk::Dir::Compress, zk::Dir::Decompress] {
                v.push(zk::ZCase { dir, label: p.label.clone(), bytes: zk::repr_j(&x, &y), x: x.clone(), y: y.clone(), valid: true, idxs: vec![] });
            }
        }
        // invalid encodings (decompression must fail)
        let mut bad = |label: &str, bytes: Vec<u8>, x: BigUint, y: BigUint| v.push(zk::ZCase { dir: zk::Dir::Decompress, label: label.to_string(), bytes, x, y, valid: false, idxs: vec![] });
        for p in &j.outside {
            let (x, y, _) = p.rp.xy();
            bad(&format!("outside-subgroup:{}", p.label), zk::repr_j(&x, &y), x, y);
        }
        let (x0, y0, _) = j.p("P0").rp.xy();
        let mut id_sign = vec![0u8; 32];
        id_sign[0] = 1;
        id_sign[31] = 0x80;
        bad("identity-with-sign-bit", id_sign, BigUint::zero(), BigUint::one());
        bad("y=q+1-alias-of-identity", vcore::big::to_le(&(&q + 1u32), 32), BigUint::zero(), BigUint::one());
        let mut off = 1u32;
        let y_off = loop {
            let y = (&y0 + off) % &q;
            if jub_from_y(&y).is_none() {
                break y;
            }
            off += 1;
        };
        bad("y-not-on-curve", vcore::big::to_le(&y_off, 32), x0.clone(), y_off.clone());
        v.into_iter().map(|c| (c.key(), c)).collect()
    };
    let zks: Mutex<HashMap<String, (u32, u64)>> = Mutex::new(HashMap::new());
    cx.run_cases("zkir-honest", &zcases, |c| {
        let mut out = CaseOut::batch();
        match zk::zk_min_k(c) {
            Ok(k) => {
                if let Some(n) = zk::zk_honest(c, k, &mut out) {
                    zks.lock().unwrap().insert(c.key(), (k, n));
                }
            }
            Err(p) => out.viol(Viol::new(format!("zkir:{:?}(JubjubPoint):sizing-panic", c.dir), format!("min_k panicked: {p}"), json!({"case": c.key()}))),
        }
        out
    });
    let mut zks = zks.into_inner().unwrap();
    if let Some(r) = &replay {
        for (key, c) in &zcases {
            if *key == r.base && c.valid && !zks.contains_key(key) {
                if let Ok(k) = zk::zk_min_k(c) {
                    if let Some(n) = zk::zk_honest(c, k, &mut CaseOut::batch()) {
                        zks.insert(key.clone(), (k, n));
                    }
                }
            }
        }
    }

    // ---- phase 2: 1 deviation, propagate mode
    let all_faults = {
        let mut f = vgad::default_faults(seed);
        f.push(("neg", Fault::Neg));
        f
    };
    let pick = |names: &[&str]| -> Vec<(&'static str, Fault)> { all_faults.iter().filter(|(n, _)| names.contains(n)).cloned().collect() };
    // Jubjub: the point coordinates are single cells, `neg` maps a point to another point of the curve
    let faults_native = if tier.is_thorough() { all_faults.clone() } else { pick(&["+1", "zero", "1-v", "neg", "random"]) };
    // foreign: limbs and bits
    let faults_foreign = if tier.is_thorough() { pick(&["+1", "-1", "zero", "1-v", "+2^64", "random", "neg"]) } else { pick(&["+1", "1-v", "random"]) };
    // Index plan per case: Some(stride). Cases are visited simplest-first; `nth` counts the cases
    // already planned for the same operation name on the same curve.
    let plan = |c: &Case, n: u64, nth: usize, nth_shape: usize| -> Option<u64> {
        let k = kof(c).unwrap();
        let core = matches!(c.op, Op::Assign | Op::Double | Op::Negate | Op::Add);
        let by_target = |t: u64| if n <= t { 1 } else { n.div_ceil(t) };
        match (tier, c.cv) {
            (Tier::Quick, Cv::Jub) => (nth < 1).then(|| if n <= 400 { 1 } else { by_target(48) }),
            (Tier::Quick, Cv::Secp) => (nth < 1).then(|| {
                if k >= 13 {
                    by_target(8)
                } else if core && n <= 600 {
                    1
                } else if core {
                    by_target(192)
                } else {
                    by_target(32)
                }
            }),
            (Tier::Quick, Cv::Bls) => None,
            (Tier::Thorough, Cv::Jub) => {
                if n <= 400 {
                    (nth_shape < 2).then_some(1)
                } else if matches!(c.op, Op::Msm { .. }) && nth == 0 {
                    Some(1) // one complete sweep of a variable-base multiplication
                } else {
                    (nth < 4 && nth_shape < 1).then(|| by_target(128))
                }
            }
            (Tier::Thorough, Cv::Secp) => {
                if k >= 13 {
                    (nth < 2 && nth_shape < 1).then(|| by_target(128))
                } else if matches!(c.op, Op::Add) {
                    (nth < 3).then_some(1)
                } else {
                    (nth < 1).then(|| if n <= 1500 { 1 } else { by_target(600) })
                }
            }
            (Tier::Thorough, Cv::Bls) => {
                if k >= 13 {
                    (nth < 1).then(|| by_target(96))
                } else if core && n <= 1000 {
                    (nth < 1).then_some(1)
                } else if core {
                    (nth < 2).then(|| by_target(512))
                } else {
                    (nth < 1).then(|| by_target(64))
                }
            }
        }
    };
    let mut fcases: Vec<(String, (Case, Vec<u64>))> = vec![];
    let mut strides: BTreeMap<String, (u64, u64)> = BTreeMap::new();
    let mut per_op: HashMap<String, usize> = HashMap::new();
    let mut per_shape: HashMap<String, usize> = HashMap::new();
    let mut tcases: Vec<(String, (Case, Vec<u64>))> = vec![];
    // Which input tuple of an operation gets the sweep: the least degenerate one first (generic
    // points and scalars rather than identity / 0 / 1), then — for `add` in the thorough tier —
    // P=Q, P=-Q and an identity operand.
    let boring = |c: &Case| -> usize {
        let ins: usize = c
            .ins
            .iter()
            .map(|v| match v {
                V::Pt(p) => match p.label.as_str() {
                    "P0" => 0,
                    "P1" => 1,
                    "-P0" | "G" | "2G" => 2,
                    _ => 6,
                },
                V::Sc(s) => match s.label.as_str() {
                    "s0" | "s1" => 0,
                    "r-1" | "(r-1)/2" => 1,
                    _ => 5,
                },
                V::Co(..) => 0,
                V::Nat(x) => (*x == F::ZERO || *x == F::ONE) as usize * 5,
                V::Bit(b) => !*b as usize,
                V::Byte(y) => (*y == 0 || *y == 0xff) as usize,
            })
            .sum();
        let op = match &c.op {
            Op::Msm { terms, .. } => 10 * (terms.len() - 1) + 7 * terms.iter().filter(|(s, b)| matches!(s, SRef::Fixed(_)) || matches!(b, BRef::Fixed(_))).count(),
            Op::HashToCurve(n) => 3 * n.abs_diff(2),
            Op::MulByConst(k) => (k.label != "3") as usize * 3 + (k.v.bits() <= 1) as usize * 10,
            Op::ScalarFromBytes(n) | Op::MulBytes(n) => 40 * n.abs_diff(32),
            _ => {
                // two point operands with the same value are a special case, not the generic one
                let pts: Vec<&str> = c.ins.iter().filter_map(|v| if let V::Pt(p) = v { Some(p.label.as_str()) } else { None }).collect();
                (pts.len() == 2 && pts[0] == pts[1]) as usize * 3
            }
        };
        ins + op
    };
    let mut ordered: Vec<&(String, Case)> = cases.iter().collect();
    ordered.sort_by_key(|(_, c)| boring(c));
    for (key, c) in ordered {
        let Some(n) = nassign.get(key).copied() else { continue };
        let (opn, shp) = (c.op(), shape_key(c));
        let nth = *per_op.get(&opn).unwrap_or(&0);
        let nth_shape = *per_shape.get(&shp).unwrap_or(&0);
        let Some(mut stride) = plan(c, n, nth, nth_shape) else { continue };
        if let Some(r) = &replay {
            stride = r.stride.unwrap_or(stride);
        }
        *per_op.entry(opn).or_default() += 1;
        *per_shape.entry(shp).or_default() += 1;
        // deterministic stride with an offset that depends on the case, so that different cases of
        // one operation cover different residues
        let off = if stride > 1 { vcore::fnv(key) % stride } else { 0 };
        let idxs: Vec<u64> = (0..n).filter(|i| i % stride == off).collect();
        strides.insert(key.clone(), (stride, n));
        let per_chunk = if kof(c).unwrap() >= 13 { 1 } else if n > 1000 { 8 } else { 24 };
        for (ci, chunk) in idxs.chunks(per_chunk).enumerate() {
            fcases.push((format!("{key}@s{stride}#{ci}"), (c.clone(), chunk.to_vec())));
        }
        if c.cv == Cv::Jub {
            for (ci, chunk) in idxs.chunks(per_chunk * 2).enumerate() {
                tcases.push((format!("{key}@s{stride}#{ci}"), (c.clone(), chunk.to_vec())));
            }
        }
    }
    cx.extra(
        "fault_plan",
        json!({
            "cases_swept": strides.len(),
            "indices_total": fcases.iter().map(|(_, (_, i))| i.len() as u64).sum::<u64>(),
            "assignments_total_of_swept_cases": strides.values().map(|(_, n)| *n).sum::<u64>(),
        }),
    );
    fcases.sort_by_key(|(_, (c, _))| kof(c).unwrap());
    tcases.sort_by_key(|(_, (c, _))| kof(c).unwrap());
    // ---- phase 2a': region-local alternative-witness search (vgad::laws; thorough tier): one case
    // per (curve, operation) with k <= 12 — limb range checks of the foreign chips, byte and
    // window tables — last 16 regions of the circuit
    if tier.is_thorough() {
        let mut seen: std::collections::HashSet<String> = Default::default();
        let lcases: Vec<(String, Case)> = fcases
            .iter()
            .filter(|(_, (c, _))| kof(c).unwrap() <= 12 && seen.insert(format!("{:?}/{}", c.cv, c.op())))
            .map(|(k, (c, _))| (format!("{}#laws", k.split('@').next().unwrap_or(k)), c.clone()))
            .collect();
        let cfg = vgad::laws::Cfg { max_combinations: 20_000, max_real_runs: 4, ..Default::default() };
        cx.next_group_share(300.0);
        cx.run_cases("laws", &lcases, |c| {
            let mut out = CaseOut::batch();
            vgad::laws::explore_all(c, kof(c).unwrap(), &cfg, 16, &mut out);
            out
        });
    }

    // (ordered by circuit size, so that a wall-budget cut removes the heaviest tail only)
    // (thorough: the sweep leaves 450 s of the budget to the groups after it)
    if tier.is_thorough() {
        let share = (cx.remaining_s() - 450.0).max(60.0);
        cx.next_group_share(share);
    }
    cx.run_cases("faults", &fcases, |(c, idxs)| {
        let mut out = CaseOut::batch();
        vgad::explore_faults(c, kof(c).unwrap(), idxs, if c.cv == Cv::Jub { &faults_native } else { &faults_foreign }, &mut out);
        out
    });

    // ---- phase 2b: 1 deviation, table-only mode (Jubjub: the witness code of the native chip
    // panics on most propagated faults, so the gates themselves are probed here)
    let tfaults: Vec<_> = all_faults.iter().filter(|(n, _)| if tier.is_thorough() { ["+1", "zero", "neg", "random"].contains(n) } else { ["+1", "zero"].contains(n) }).cloned().collect();
    let free: Mutex<BTreeSet<String>> = Mutex::new(BTreeSet::new());
    if tier.is_thorough() {
        cx.next_group_share(150.0);
    }
    cx.run_cases("table-faults", &tcases, |(c, idxs)| {
        let mut out = CaseOut::batch();
        explore_table_faults(c, kof(c).unwrap(), idxs, &tfaults, &mut out, &free);
        out
    });
    // ---- phase 3: 2 deviations for the smallest operations
    let f2: Vec<_> = all_faults.iter().filter(|(n, _)| if tier.is_thorough() { ["+1", "zero", "neg"].contains(n) } else { ["+1", "neg"].contains(n) }).cloned().collect();
    let mut pcases: Vec<(String, (Case, Vec<(u64, u64)>))> = vec![];
    let max_n = tier.pick(40u64, 64u64);
    let mut seen_ops: BTreeSet<String> = BTreeSet::new();
    for (key, c) in &cases {
        let Some(n) = nassign.get(key).copied() else { continue };
        if n > max_n || n < 2 || c.cv != Cv::Jub {
            continue;
        }
        if !tier.is_thorough() && !matches!(c.op, Op::Negate) {
            continue;
        }
        // one non-identity input tuple per operation
        if c.ins.iter().any(|v| matches!(v, V::Pt(p) if p.label == "Id")) || !seen_ops.insert(c.op()) {
            continue;
        }
        let mut pairs = vec![];
        for i in 0..n {
            for j in i + 1..n {
                pairs.push((i, j));
            }
        }
        for (ci, chunk) in pairs.chunks(16).enumerate() {
            pcases.push((format!("{key}#{ci}"), (c.clone(), chunk.to_vec())));
        }
    }
    if tier.is_thorough() {
        cx.next_group_share(100.0);
    }
    cx.run_cases("pairs", &pcases, |(c, pairs)| {
        let mut out = CaseOut::batch();
        vgad::explore_pairs(c, kof(c).unwrap(), pairs, &f2, &mut out);
        out
    });

    // ---- phase 4a: dynamic lookup tables of the foreign chip. Window selections and
    // k-out-of-n selections are answered through the "multi_select lookup" argument, whose table
    // is made of advice rows (index, x limbs, y limbs) with a fixed tag; the chip relies on
    // (tag, index) naming one point. On the synthesised honest circuit: no two table rows with a
    // non-zero tag share (tag, index) and differ elsewhere — otherwise a selection can be
    // answered with either row, whatever the rest of the witness is.
    {
        let mut dcases: Vec<(String, Case)> = vec![];
        let mut per_op: HashMap<String, usize> = HashMap::new();
        for (key, c) in &cases {
            if c.cv == Cv::Jub || !matches!(c.op, Op::Msm { .. } | Op::MsmTwice { .. } | Op::MulByConst(_) | Op::AssertInSubgroup) {
                continue;
            }
            let cnt = per_op.entry(format!("{:?}/{}", c.cv, c.op.name())).or_default();
            *cnt += 1;
            if !matches!(c.op, Op::MsmTwice { .. }) && *cnt > tier.pick(2usize, usize::MAX) {
                continue;
            }
            dcases.push((key.clone(), c.clone()));
        }
        cx.run_cases("dynamic-tables", &dcases, |c| {
            let mut out = CaseOut::batch();
            use vgad::laws::Subject;
            let Some((prover, names, trace)) = vgad::laws::Of(c).s_traced(kof(c).unwrap()) else {
                out.eval("dyn-table:no-circuit", false);
                return out;
            };
            let prover = &prover;
            // coverage: on a selection row (tag set, row not part of the table) every advice cell the
            // chip assigns in the "multi_select table" region must be an input of the lookup — the
            // selected limbs are deliberately not copied from anywhere, the lookup is all that binds them
            if let (Some((inputs, cols)), Some(tuples)) = (vgad::lookup_input_tuples(prover, "multi_select lookup"), vgad::lookup_table_tuples(prover, "multi_select lookup")) {
                let sel_rows: std::collections::HashSet<usize> = inputs
                    .iter()
                    .zip(tuples.iter())
                    .filter(|((_, i), (_, t))| !i.is_empty() && i[i.len() - 1] != F::from(0) && t[t.len() - 1] == F::from(0))
                    .map(|((r, _), _)| *r)
                    .collect();
                let mut uncovered: Vec<(u32, u32)> = vec![];
                for e in &trace {
                    if names.get(e.region as usize).map(|n| n == "multi_select table").unwrap_or(false) && sel_rows.contains(&(e.row as usize)) && !cols.contains(&(e.column as usize)) {
                        uncovered.push((e.column, e.row));
                    }
                }
                out.counter("dynamic_table_selection_rows", sel_rows.len() as u64);
                if !sel_rows.is_empty() {
                    out.eval(if uncovered.is_empty() { "dyn-table:selection-covered" } else { "dyn-table:selection-not-covered" }, true);
                }
                if let Some((col, row)) = uncovered.first() {
                    out.viol(Viol::new(
                        format!("{}:{}:selection-cell-not-bound-by-lookup", c.cv.name(), c.op.name()),
                        format!("the selection at row {row} assigns advice column {col}, which is not an input of the multi-select lookup ({} such cell(s)): the selected point is bound to the table in some limbs only", uncovered.len()),
                        json!({"case": c.key(), "cells": uncovered.len()}),
                    ));
                }
            }
            let Some(tuples) = vgad::lookup_table_tuples(prover, "multi_select lookup") else {
                out.eval("dyn-table:no-such-lookup", false);
                return out;
            };
            let width = tuples.first().map(|t| t.1.len()).unwrap_or(0);
            // coordinates: [index, x limbs.., y limbs.., tag]; rows with tag 0 are not table rows
            let tagged: Vec<(usize, Vec<F>)> = tuples.into_iter().filter(|(_, t)| width >= 2 && t[width - 1] != F::from(0)).collect();
            out.counter("dynamic_table_rows", tagged.len() as u64);
            let tags: std::collections::HashSet<String> = tagged.iter().map(|(_, t)| vgad::val::hex(&t[width - 1])).collect();
            out.counter("dynamic_tables", tags.len() as u64);
            if tagged.is_empty() {
                out.eval("dyn-table:empty", false);
                return out;
            }
            let amb = vgad::ambiguous_table_keys(&tagged, &[0, width - 1], 4);
            out.eval(if amb.is_empty() { "dyn-table:keys-unique" } else { "dyn-table:ambiguous" }, true);
            if let Some((r0, r1)) = amb.first() {
                out.viol(Viol::new(
                    format!("{}:{}:dynamic-table-key-not-unique", c.cv.name(), c.op.name()),
                    format!(
                        "rows {r0} and {r1} of the multi-select table carry the same (tag, index) but different points ({} such pair(s)): a window selection can be answered with either",
                        amb.len()
                    ),
                    json!({"case": c.key(), "rows": [r0, r1], "tables": tags.len()}),
                ));
            }
            out
        });
        cx.require(cx.class_count("dynamic-tables:dyn-table:keys-unique") + cx.class_count("dynamic-tables:dyn-table:ambiguous") > 0 || cx.remaining_s() <= 0.0, "the dynamic-table invariant was evaluated on at least one circuit");
    }

    // ---- phase 4b: ZKIR compression / decompression under faults
    let zfaults = if tier.is_thorough() { pick(&["+1", "-1", "zero", "1-v", "neg", "random"]) } else { pick(&["+1", "1-v", "neg", "random"]) };
    let mut zf: Vec<(String, zk::ZCase)> = vec![];
    let mut zstride: Vec<String> = vec![];
    for (key, c) in &zcases {
        if c.label != "P0" {
            continue;
        }
        let Some((_, n)) = zks.get(key).copied() else { continue };
        let mut stride = if tier.is_thorough() { 1 } else { n.div_ceil(64) };
        if let Some(r) = &replay {
            stride = r.stride.unwrap_or(stride);
        }
        if stride > 1 {
            zstride.push(format!("{key}: every {stride}-th of {n} assignments"));
        }
        let idxs: Vec<u64> = (0..n).filter(|i| i % stride == 0).collect();
        for (ci, chunk) in idxs.chunks(4).enumerate() {
            let mut cc = c.clone();
            cc.idxs = chunk.to_vec();
            zf.push((format!("{key}@s{stride}#{ci}"), cc));
        }
    }
    cx.run_cases("zkir-faults", &zf, |c| {
        let mut out = CaseOut::batch();
        let Some((k, _)) = zks.get(&c.key()).copied() else { return out };
        zk::zk_faults(c, k, &c.idxs, &zfaults, tier.is_thorough(), &mut out);
        out
    });
    for s in &zstride {
        cx.note(format!("fault stride — {s}"));
    }
    // ---- rule, notes, caps
    let strided: Vec<String> = strides.iter().filter(|(_, (s, _))| *s > 1).map(|(k, (s, n))| format!("{k}: every {s}-th of {n} assignments")).collect();
    let full_cnt = strides.values().filter(|(s, _)| *s == 1).count();
    cx.set_rule(&format!(
        "curves {{Jubjub native chip, secp256k1 and BLS12-381 G1 foreign chips{}}} x operation registry (assign, assign_fixed, point_from_coordinates on/off curve and \
         outside the subgroup, add over the full product of the point alphabet, double, negate, coordinates, equality/zero tests and assertions, select/cond_swap/cond_assert_equal, \
         mul_by_constant over boundary constants incl. 2^64..2^128, msm / msm_by_bounded_scalars with 1..3 terms{} built so that the accumulator hits the identity or equals the next addend, \
         shared base / scalar variables and fixed scalars / bases; Jubjub scalars from little-endian bytes and from a native element with values >= r; hash_to_curve on 0..4 inputs; \
         BLS subgroup assertion, and its three constituent public calls re-issued with a prover-chosen cofactor root for a point outside G1) x point alphabet {{Id, G, 2G, P0, -P0, P1}} + points outside the prime-order subgroup (Jubjub 8-, 4-, 2-torsion and translates as coordinates; BLS order-3 \
         point (0,2) and a large-order point outside G1) x scalar alphabet {{0, 1, 2, r-1, (r-1)/2, 2^128, two seeded}}. Per case: honest run (must be satisfiable with the reference group-law \
         result on the decoded exposed vector, or not satisfiable if out of domain); for k <= {k_full}: every single-position edit of the exposed vector and every exposed value changed \
         together with its copy cycle; honest exposed inputs compared with the library's off-circuit as_public_input. 1-deviation faults (native, foreign) = {:?} in propagate mode on {} cases with stride 1 and {} \
         cases on a printed stride (see notes), table-only mode {:?} on the Jubjub cases, 2 deviations {:?}^2 on all index pairs of the smallest Jubjub operations. \
         Jubjub point compression / decompression through ZKIR programs (Load, IntoBytes(32) / FromBytes(JubjubPoint), Publish): reference statement accepted and equal to the \
         off-circuit interpreter's, invalid encodings (low-order points, identity with sign bit, y >= q, y off the curve) rejected, a fixed list of wrong statements (sign bit flipped, point negated, \
         byte +1, y negated) rejected with the honest witness and under every 1-deviation fault of the swept indices. \
         A case is one (curve, operation, parameters, inputs); evaluations count MockProver verdicts.",
        if tier.is_thorough() { "" } else { " (BLS: honest runs only, reduced list)" },
        if tier.is_thorough() { " (Jubjub up to 8)" } else { "" },
        (faults_native.iter().map(|f| f.0).collect::<Vec<_>>(), faults_foreign.iter().map(|f| f.0).collect::<Vec<_>>()),
        full_cnt,
        strided.len(),
        tfaults.iter().map(|f| f.0).collect::<Vec<_>>(),
        f2.iter().map(|f| f.0).collect::<Vec<_>>(),
    ));
    for s in &strided {
        cx.note(format!("fault stride — {s}"));
    }
    if !strided.is_empty() || !zstride.is_empty() {
        cx.cap(format!("1-deviation exploration used a stride > 1 on {} case(s) (listed in the notes); those operations are not covered cell by cell", strided.len() + zstride.len()));
    }
    let light = cx.class_count("honest:honest-light");
    if light > 0 {
        cx.cap(format!("{light} case(s) with k > {k_full} got the honest verdict + reference only (no instance-binding / exposed-value-lie sweep)"));
    }
    if !tier.is_thorough() {
        cx.cap("quick tier: BLS12-381 reduced to honest runs of a short list; foreign msm / full-size mul_by_constant fault sweeps on a coarse stride; Jubjub msm sizes 1..3".to_string());
    } else {
        cx.cap("foreign msm has ~7*10^4 (secp256k1) / ~1.2*10^5 (BLS) advice assignments at 0.7-2 s per verdict: the complete cell sweep of one operand pair asked for by the design does not fit; a stride is used instead".to_string());
    }
    let free = free.into_inner().unwrap();
    cx.note(format!(
        "cells whose table value is not constrained (table-only fault accepted, exposed vector unchanged; reviewed at bring-up: the zero padding cells of the parallel range-check \
         row written by the native byte assignment — accepted for +1, rejected for +2^8 — and inverse hints of equality tests on equal operands): {}",
        if free.is_empty() { "none".to_string() } else { free.iter().cloned().collect::<Vec<_>>().join("; ") }
    ));
    cx.note(format!(
        "accepted exposed vectors that were well-formed but not canonical: {} emulated field element(s) in the v+m form, {} identity flag(s) with non-zero coordinates (judged by denoted value)",
        NONCANON_FIELD.load(Ordering::Relaxed),
        NONCANON_ID.load(Ordering::Relaxed)
    ));
    cx.note("AssignedScalarOfNativeCurve: the in-circuit public-input encoding packs the actual bit vector (2 elements for 255/256-bit scalars from bytes or natives) while the off-circuit as_public_input always emits one 252-bit element; not judged here (no operation constrains such a scalar as a public input by itself)");
    cx.note("foreign msm draws its blinding point from OsRng: advice values differ between runs, verdicts do not (a violation is re-executed by the runner before it is believed)");

    // ---- anti-vacuity
    // (on a loaded machine the wall budget may cut the later groups: that is a reported cap, the
    // counts below are then not required)
    let in_budget = cx.remaining_s() > 0.0;
    let sat = cx.class_count("honest:honest:sat");
    let unsat = cx.class_count("honest:honest:unsat") + cx.class_count("honest:honest:synth-err") + cx.class_count("honest:honest:crash-unsat");
    cx.require(!in_budget || (sat > 100 && unsat > 10), "need both satisfiable and out-of-domain cases");
    cx.require(!in_budget || cx.class_count("faults:fault:unsat") > 100, "propagated faults must be rejected somewhere");
    // (the later groups may be cut by the wall budget on a loaded machine: that is a reported cap, not vacuity)
    cx.require(!in_budget || cx.class_count("table-faults:tfault:unsat") > 100, "table faults must be rejected somewhere");
    cx.require(!in_budget || cx.class_count("honest:cycle-lie:rejected") > 100, "exposed-value lies must be rejected somewhere");
    cx.require(!in_budget || cx.class_count("zkir-faults:zkir-fault:wrong-statement:unsat") > 100, "wrong compression statements must be rejected under faults");
    cx.require(sat > 0, "at least one honest satisfiable case");
    let _ = catch(|| ());
    cx.finish()
}
