//! The elliptic-curve operation registry of C06: (curve, operation, typed inputs) with the group
//! law of midnight-curves as reference semantics.

use midnight_circuits::{
    ecc::{hash_to_curve::HashToCurveGadget, native::EccChip},
    field::foreign::params::MultiEmulationParams as MEP,
    hash::poseidon::PoseidonChip,
    instructions::*,
    types::{
        AssignedBit, AssignedByte, AssignedField, AssignedForeignPoint, AssignedNative, AssignedNativePoint,
        AssignedScalarOfNativeCurve,
    },
};
use midnight_curves::{k256::K256, G1Projective, JubjubExtended};
use midnight_proofs::{
    circuit::{Layouter, Value},
    plonk::Error,
};
use midnight_zk_stdlib::{ZkStdLib, ZkStdLibArch};
use num_bigint::BigUint;
use vgad::{val::*, Exposer, Judgement, OpCase, F};

use crate::refs::*;

/// A named point of a curve.
#[derive(Clone, Debug)]
pub struct P {
    pub label: String,
    pub rp: RP,
}

/// A named scalar (an integer; < r unless it enters through bytes / a native element).
#[derive(Clone, Debug)]
pub struct S {
    pub label: String,
    pub v: BigUint,
}

#[derive(Clone, Debug)]
pub enum V {
    Pt(P),
    Sc(S),
    /// a base-field coordinate
    Co(String, BigUint),
    Nat(F),
    Bit(bool),
    Byte(u8),
}

impl V {
    pub fn show(&self) -> String {
        match self {
            V::Pt(p) => p.label.clone(),
            V::Sc(s) => s.label.clone(),
            V::Co(l, _) => l.clone(),
            V::Nat(x) => hex(x),
            V::Bit(b) => format!("{}", *b as u8),
            V::Byte(y) => format!("{y:02x}"),
        }
    }
}

#[derive(Clone, Debug)]
pub enum SRef {
    /// the i-th scalar input (the same assigned variable if used twice)
    In(usize),
    /// `assign_fixed` of a constant
    Fixed(S),
}

#[derive(Clone, Debug)]
pub enum BRef {
    /// the j-th point input (the same assigned variable if used twice)
    In(usize),
    /// `assign_fixed` of a constant point
    Fixed(P),
}

#[derive(Clone, Debug)]
pub enum Op {
    /// `assign` of a witness point, exposed as an input (must decode to a valid point)
    Assign,
    AssignFixed(P),
    /// inputs: two coordinates
    FromCoords,
    Add,
    Double,
    Negate,
    /// x_coordinate / y_coordinate
    Coords,
    IsEqual,
    IsNotEqual,
    IsEqualToFixed(P),
    IsZero,
    AssertEqual,
    AssertNotEqual,
    AssertEqualToFixed(P),
    AssertNotEqualToFixed(P),
    AssertZero,
    AssertNonZero,
    Select,
    CondSwap,
    CondAssertEqual,
    /// inputs: `ns` scalars then `nb` points; `bounds` = msm_by_bounded_scalars
    Msm { ns: usize, nb: usize, terms: Vec<(SRef, BRef)>, bounds: Option<Vec<usize>> },
    MulByConst(S),
    /// `msm(terms)` followed, in the same circuit, by `msm(terms[0])`: two results. (The foreign
    /// chip loads fresh dynamic lookup tables per call; see the `dynamic-tables` group.)
    MsmTwice { ns: usize, nb: usize, terms: Vec<(SRef, BRef)> },
    // --- Jubjub only
    ScalarFromBytes(usize),
    ScalarFromNative,
    /// scalar_from_le_bytes then msm of one term
    MulBytes(usize),
    /// native -> scalar conversion then msm of one term
    MulNative,
    HashToCurve(usize),
    // --- BLS12-381 only
    AssertInSubgroup,
    /// The three public calls `assert_in_bls12_381_subgroup` consists of — assign a cofactor
    /// root, `mul_by_constant(cofactor, root)`, `assert_equal(p, ·)` — issued with a root chosen
    /// by the prover (second input) instead of the one the library's witness code computes:
    /// same constraints, different witness. Must be unsatisfiable when p is outside G1.
    SubgroupCheckChosenRoot,
}

#[derive(Clone, Copy, Debug, PartialEq)]
pub enum Ty {
    Pt,
    /// scalar; the number is the length of the bit vector (Jubjub representation)
    Sc(usize),
    Co,
    Nat,
    Bit,
    Byte,
}

pub const JUB_SCALAR_BITS: usize = 252;

impl Op {
    pub fn name(&self) -> String {
        match self {
            Op::Msm { bounds: Some(_), .. } => "MsmBounded".into(),
            _ => {
                let s = format!("{self:?}");
                s.split(|c: char| c == '(' || c == ' ' || c == '{').next().unwrap().to_string()
            }
        }
    }
    /// canonical description of the operation with its static parameters
    pub fn describe(&self) -> String {
        match self {
            Op::AssignFixed(p) | Op::IsEqualToFixed(p) | Op::AssertEqualToFixed(p) | Op::AssertNotEqualToFixed(p) => format!("{}({})", self.name(), p.label),
            Op::MulByConst(s) => format!("MulByConst({})", s.label),
            Op::ScalarFromBytes(n) | Op::MulBytes(n) | Op::HashToCurve(n) => format!("{}({n})", self.name()),
            Op::Msm { ns, nb, terms, bounds } => {
                let t: Vec<String> = terms
                    .iter()
                    .map(|(s, b)| {
                        format!(
                            "{}*{}",
                            match s {
                                SRef::In(i) => format!("s{i}"),
                                SRef::Fixed(c) => format!("fixed:{}", c.label),
                            },
                            match b {
                                BRef::In(j) => format!("b{j}"),
                                BRef::Fixed(p) => format!("fixed:{}", p.label),
                            }
                        )
                    })
                    .collect();
                format!("{}(ns={ns},nb={nb};{}{})", self.name(), t.join("+"), bounds.as_ref().map(|b| format!(";bounds={b:?}")).unwrap_or_default())
            }
            _ => self.name(),
        }
    }
    pub fn in_types(&self) -> Vec<Ty> {
        use Op::*;
        match self {
            Assign | Double | Negate | Coords | IsEqualToFixed(_) | IsZero | AssertEqualToFixed(_) | AssertNotEqualToFixed(_) | AssertZero
            | AssertNonZero | MulByConst(_) | AssertInSubgroup => vec![Ty::Pt],
            AssignFixed(_) => vec![],
            FromCoords => vec![Ty::Co, Ty::Co],
            Add | IsEqual | IsNotEqual | AssertEqual | AssertNotEqual | SubgroupCheckChosenRoot => vec![Ty::Pt, Ty::Pt],
            Select | CondSwap | CondAssertEqual => vec![Ty::Bit, Ty::Pt, Ty::Pt],
            Msm { ns, nb, .. } | MsmTwice { ns, nb, .. } => {
                let mut v = vec![Ty::Sc(JUB_SCALAR_BITS); *ns];
                v.extend(vec![Ty::Pt; *nb]);
                v
            }
            ScalarFromBytes(n) => vec![Ty::Byte; *n],
            ScalarFromNative => vec![Ty::Nat],
            MulBytes(n) => {
                let mut v = vec![Ty::Byte; *n];
                v.push(Ty::Pt);
                v
            }
            MulNative => vec![Ty::Nat, Ty::Pt],
            HashToCurve(n) => vec![Ty::Nat; *n],
        }
    }
    pub fn out_types(&self) -> Vec<Ty> {
        use Op::*;
        match self {
            Assign | AssertEqual | AssertNotEqual | AssertEqualToFixed(_) | AssertNotEqualToFixed(_) | AssertZero | AssertNonZero | CondAssertEqual
            | AssertInSubgroup | SubgroupCheckChosenRoot => vec![],
            AssignFixed(_) | FromCoords | Add | Double | Negate | Select | Msm { .. } | MulByConst(_) | MulBytes(_) | MulNative | HashToCurve(_) => vec![Ty::Pt],
            Coords => vec![Ty::Co, Ty::Co],
            IsEqual | IsNotEqual | IsEqualToFixed(_) | IsZero => vec![Ty::Bit],
            CondSwap | MsmTwice { .. } => vec![Ty::Pt, Ty::Pt],
            ScalarFromBytes(n) => vec![Ty::Sc(8 * n)],
            ScalarFromNative => vec![Ty::Sc(F::NUM_BITS_USIZE)],
        }
    }
}

trait NumBits {
    const NUM_BITS_USIZE: usize;
}
impl NumBits for F {
    const NUM_BITS_USIZE: usize = <F as ff::PrimeField>::NUM_BITS as usize;
}

/// Decoded values.
#[derive(Clone, Debug)]
pub enum D {
    /// point + the coordinate values carried by its encoding
    Pt(RP, BigUint, BigUint),
    Sc(BigUint),
    Co(BigUint),
    Nat(F),
    Bit(bool),
    Byte(u8),
}

impl D {
    fn same(&self, o: &D) -> bool {
        match (self, o) {
            (D::Pt(a, ..), D::Pt(b, ..)) => a == b,
            (D::Sc(a), D::Sc(b)) | (D::Co(a), D::Co(b)) => a == b,
            (D::Nat(a), D::Nat(b)) => a == b,
            (D::Bit(a), D::Bit(b)) => a == b,
            (D::Byte(a), D::Byte(b)) => a == b,
            _ => false,
        }
    }
    pub fn show(&self) -> String {
        match self {
            D::Pt(p, ..) => p.show(),
            D::Sc(a) | D::Co(a) => format!("0x{}", a.to_str_radix(16)),
            D::Nat(x) => hex(x),
            D::Bit(b) => format!("{}", *b as u8),
            D::Byte(y) => format!("{y:02x}"),
        }
    }
    fn pt(&self) -> &RP {
        match self {
            D::Pt(p, ..) => p,
            _ => panic!("not a point"),
        }
    }
    fn int(&self) -> BigUint {
        match self {
            D::Sc(a) | D::Co(a) => a.clone(),
            D::Nat(x) => to_big(x),
            _ => panic!("not an integer"),
        }
    }
    fn bit(&self) -> bool {
        match self {
            D::Bit(b) => *b,
            _ => panic!("not a bit"),
        }
    }
}

fn dpt(p: RP) -> D {
    let (x, y, _) = p.xy();
    D::Pt(p, x, y)
}

pub fn decode(cv: Cv, ty: &Ty, raw: &[F]) -> Result<D, String> {
    let rawhex = || raw.iter().map(hex).collect::<Vec<_>>().join(",");
    match ty {
        Ty::Pt => match decode_point(cv, raw) {
            PtDecode::Point { p, x, y, .. } => Ok(D::Pt(p, x, y)),
            PtDecode::OffCurve(x, y) => Err(format!("exposed point (0x{}, 0x{}) is not on the curve", x.to_str_radix(16), y.to_str_radix(16))),
            PtDecode::Malformed(w) => Err(format!("exposed point is not a valid encoding ({w}): [{}]", rawhex())),
        },
        Ty::Sc(n) => decode_scalar(cv, *n, raw).map(D::Sc).ok_or_else(|| format!("exposed scalar is not a valid encoding: [{}]", rawhex())),
        Ty::Co => decode_coord(cv, raw).map(D::Co).ok_or_else(|| format!("exposed coordinate is not a valid encoding: [{}]", rawhex())),
        Ty::Nat => (raw.len() == 1).then(|| D::Nat(raw[0])).ok_or_else(|| "native: wrong length".to_string()),
        Ty::Bit => (raw.len() == 1).then(|| as_bool(&raw[0])).flatten().map(D::Bit).ok_or_else(|| format!("exposed bit is not 0/1: [{}]", rawhex())),
        Ty::Byte => (raw.len() == 1).then(|| as_u8(&raw[0])).flatten().map(D::Byte).ok_or_else(|| format!("exposed byte is not < 256: [{}]", rawhex())),
    }
}

type Htc = HashToCurveGadget<F, JubjubExtended, AssignedNative<F>, PoseidonChip<F>, EccChip<JubjubExtended>>;

/// The library's off-circuit hash-to-curve (the reference for `HashToCurve`).
pub fn htc_cpu(inputs: &[F]) -> RP {
    let p = <Htc as HashToCurveCPU<JubjubExtended, F>>::hash_to_curve(inputs);
    RP::J(p.into())
}

/// What the reference says about decoded inputs.
pub enum Ref {
    /// the unique admissible outputs
    Out(Vec<D>),
    /// the inputs are outside the operation's domain: the circuit must be unsatisfiable
    Reject,
    /// a precondition that the documentation leaves to the caller (and explicitly does not
    /// enforce) is violated: nothing is promised about the outputs
    NoContract,
}

pub fn reference(cv: Cv, op: &Op, ins: &[D]) -> Ref {
    if let Op::Msm { terms, bounds: Some(bs), .. } = op {
        for (k, (s, _)) in terms.iter().enumerate() {
            let sv = match s {
                SRef::In(i) => ins[*i].int(),
                SRef::Fixed(c) => c.v.clone(),
            };
            if sv.bits() as usize > bs[k] {
                // msm_by_bounded_scalars: "the bounds are not enforced with constraints here"
                return Ref::NoContract;
            }
        }
    }
    match reference_inner(cv, op, ins) {
        Some(o) => Ref::Out(o),
        None => Ref::Reject,
    }
}

fn reference_inner(cv: Cv, op: &Op, ins: &[D]) -> Option<Vec<D>> {
    use Op::*;
    let pt = |i: usize| ins[i].pt();
    let assert = |c: bool| if c { Some(vec![]) } else { None };
    match op {
        Assign => Some(vec![]),
        AssignFixed(p) => Some(vec![dpt(p.rp)]),
        FromCoords => {
            let p = RP::from_xy(cv, &ins[0].int(), &ins[1].int())?;
            if cv.type_promises_subgroup() && !p.in_subgroup() {
                return None;
            }
            Some(vec![dpt(p)])
        }
        Add => Some(vec![dpt(pt(0).add(pt(1)))]),
        Double => Some(vec![dpt(pt(0).double())]),
        Negate => Some(vec![dpt(pt(0).neg())]),
        Coords => match &ins[0] {
            D::Pt(_, x, y) => Some(vec![D::Co(x.clone()), D::Co(y.clone())]),
            _ => unreachable!(),
        },
        IsEqual => Some(vec![D::Bit(pt(0) == pt(1))]),
        IsNotEqual => Some(vec![D::Bit(pt(0) != pt(1))]),
        IsEqualToFixed(q) => Some(vec![D::Bit(*pt(0) == q.rp)]),
        IsZero => Some(vec![D::Bit(pt(0).is_identity())]),
        AssertEqual => assert(pt(0) == pt(1)),
        AssertNotEqual => assert(pt(0) != pt(1)),
        AssertEqualToFixed(q) => assert(*pt(0) == q.rp),
        AssertNotEqualToFixed(q) => assert(*pt(0) != q.rp),
        AssertZero => assert(pt(0).is_identity()),
        AssertNonZero => assert(!pt(0).is_identity()),
        Select => Some(vec![if ins[0].bit() { ins[1].clone() } else { ins[2].clone() }]),
        CondSwap => Some(if ins[0].bit() { vec![ins[2].clone(), ins[1].clone()] } else { vec![ins[1].clone(), ins[2].clone()] }),
        CondAssertEqual => assert(!ins[0].bit() || pt(1) == pt(2)),
        Msm { ns, terms, .. } => {
            let mut acc = RP::identity(cv);
            for (s, b) in terms.iter() {
                let sv = match s {
                    SRef::In(i) => ins[*i].int(),
                    SRef::Fixed(c) => c.v.clone(),
                };
                let bv = match b {
                    BRef::In(j) => *ins[ns + *j].pt(),
                    BRef::Fixed(p) => p.rp,
                };
                acc = acc.add(&bv.mul_int(&sv));
            }
            Some(vec![dpt(acc)])
        }
        MulByConst(k) => Some(vec![dpt(pt(0).mul_int(&k.v))]),
        MsmTwice { ns, terms, .. } => {
            let term = |(s, b): &(SRef, BRef)| {
                let sv = match s {
                    SRef::In(i) => ins[*i].int(),
                    SRef::Fixed(c) => c.v.clone(),
                };
                let bv = match b {
                    BRef::In(j) => *ins[ns + *j].pt(),
                    BRef::Fixed(p) => p.rp,
                };
                bv.mul_int(&sv)
            };
            let mut acc = RP::identity(cv);
            for t in terms.iter() {
                acc = acc.add(&term(t));
            }
            Some(vec![dpt(acc), dpt(term(&terms[0]))])
        }
        ScalarFromBytes(n) => {
            let b: Vec<u8> = ins[..*n].iter().map(|d| if let D::Byte(y) = d { *y } else { unreachable!() }).collect();
            Some(vec![D::Sc(BigUint::from_bytes_le(&b))])
        }
        ScalarFromNative => Some(vec![D::Sc(ins[0].int())]),
        MulBytes(n) => {
            let b: Vec<u8> = ins[..*n].iter().map(|d| if let D::Byte(y) = d { *y } else { unreachable!() }).collect();
            Some(vec![dpt(pt(*n).mul_int(&BigUint::from_bytes_le(&b)))])
        }
        MulNative => Some(vec![dpt(pt(1).mul_int(&ins[0].int()))]),
        HashToCurve(_) => {
            let xs: Vec<F> = ins.iter().map(|d| if let D::Nat(x) = d { *x } else { unreachable!() }).collect();
            Some(vec![dpt(htc_cpu(&xs))])
        }
        AssertInSubgroup | SubgroupCheckChosenRoot => assert(pt(0).in_subgroup()),
    }
}

#[derive(Clone, Debug)]
pub struct Case {
    pub cv: Cv,
    pub op: Op,
    pub ins: Vec<V>,
    /// The inputs violate an assumption that the chip's documentation states for the curve
    /// (foreign chip: "the curve must not have low-order points"): completeness is not required,
    /// but an accepted run must still be correct.
    pub lenient: bool,
}

impl Case {
    /// The case's own inputs as decoded values (`Err` if an input is not a value of its type,
    /// e.g. coordinates off the curve are still fine: they are plain field elements).
    pub fn own_inputs(&self) -> Vec<D> {
        self.ins
            .iter()
            .map(|v| match v {
                V::Pt(p) => dpt(p.rp),
                V::Sc(s) => D::Sc(s.v.clone()),
                V::Co(_, c) => D::Co(c.clone()),
                V::Nat(x) => D::Nat(*x),
                V::Bit(b) => D::Bit(*b),
                V::Byte(y) => D::Byte(*y),
            })
            .collect()
    }
    /// What an honest run must expose for the inputs, computed with the library's off-circuit
    /// `as_public_input` (None where the library has no off-circuit encoder for that shape).
    pub fn honest_input_encoding(&self) -> Vec<Option<Vec<F>>> {
        self.ins
            .iter()
            .map(|v| match v {
                V::Pt(p) => p.rp.encode(),
                V::Sc(s) => (s.v < self.cv.r()).then(|| encode_scalar(self.cv, &s.v)),
                V::Co(_, c) => Some(encode_coord(self.cv, c)),
                V::Nat(x) => Some(vec![*x]),
                V::Bit(b) => Some(vec![fb(*b)]),
                V::Byte(y) => Some(vec![F::from(*y as u64)]),
            })
            .collect()
    }
}

impl OpCase for Case {
    fn key(&self) -> String {
        format!("{}:{}[{}]{}", self.cv.name(), self.op.describe(), self.ins.iter().map(|v| v.show()).collect::<Vec<_>>().join(","), if self.lenient { "~" } else { "" })
    }
    fn op(&self) -> String {
        // finer operation classes where a known defect is confined to one of them
        if let Op::MulByConst(k) = &self.op {
            if k.v.bits() > 128 {
                let id_base = matches!(self.ins.first(), Some(V::Pt(p)) if p.label == "Id");
                return format!("{}:MulByConst[c>=2^128{}]", self.cv.name(), if id_base { ",base=identity" } else { "" });
            }
        }
        format!("{}:{}", self.cv.name(), self.op.name())
    }
    fn arch(&self) -> ZkStdLibArch {
        ZkStdLibArch {
            jubjub: self.cv == Cv::Jub,
            poseidon: matches!(self.op, Op::HashToCurve(_)),
            secp256k1: self.cv == Cv::Secp,
            bls12_381: self.cv == Cv::Bls,
            nr_pow2range_cols: 4,
            ..ZkStdLibArch::default()
        }
    }
    fn max_bit_len(&self) -> u8 {
        8
    }
    fn expect_sat(&self) -> bool {
        let own = self.own_inputs();
        for d in &own {
            if let D::Pt(p, ..) = d {
                if self.cv.type_promises_subgroup() && !p.in_subgroup() {
                    return false;
                }
            }
        }
        !self.lenient && matches!(reference(self.cv, &self.op, &own), Ref::Out(_))
    }
    fn judge(&self, ins: &[Vec<F>], outs: &[Vec<F>]) -> Judgement {
        let tys = self.op.in_types();
        if ins.len() != tys.len() {
            return Judgement::Wrong(format!("{} input exposures, expected {}", ins.len(), tys.len()));
        }
        let mut dec = vec![];
        for (i, (t, raw)) in tys.iter().zip(ins).enumerate() {
            match decode(self.cv, t, raw) {
                Ok(d) => {
                    if let D::Pt(p, ..) = &d {
                        if self.cv.type_promises_subgroup() && !p.in_subgroup() {
                            return Judgement::Wrong(format!("exposed input point {i} {} is on the curve but outside the prime-order subgroup the type promises", p.show()));
                        }
                    }
                    dec.push(d)
                }
                Err(e) => return Judgement::Wrong(format!("input {i}: {e}")),
            }
        }
        let expect = match reference(self.cv, &self.op, &dec) {
            Ref::Out(e) => e,
            Ref::NoContract => return Judgement::Holds,
            Ref::Reject => return Judgement::Wrong(format!("inputs {:?} are outside the operation's domain", dec.iter().map(|d| d.show()).collect::<Vec<_>>())),
        };
        let otys = self.op.out_types();
        if outs.len() != expect.len() || outs.len() != otys.len() {
            return Judgement::Wrong(format!("{} outputs exposed, reference has {}", outs.len(), expect.len()));
        }
        for (i, ((t, raw), e)) in otys.iter().zip(outs).zip(&expect).enumerate() {
            match decode(self.cv, t, raw) {
                Ok(d) => {
                    if let D::Pt(p, ..) = &d {
                        if self.cv.type_promises_subgroup() && !p.in_subgroup() {
                            return Judgement::Wrong(format!("output point {i} {} is outside the prime-order subgroup the type promises", p.show()));
                        }
                    }
                    if !d.same(e) {
                        return Judgement::Wrong(format!(
                            "output {i} is {} but the group law on the exposed inputs {:?} gives {}",
                            d.show(),
                            dec.iter().map(|d| d.show()).collect::<Vec<_>>(),
                            e.show()
                        ));
                    }
                }
                Err(er) => return Judgement::Wrong(format!("output {i}: {er}")),
            }
        }
        Judgement::Holds
    }

    fn synth<L: Layouter<F>>(&self, std: &ZkStdLib, l: &mut L, ex: &Exposer) -> Result<(), Error> {
        match self.cv {
            Cv::Jub => synth_jub(self, std, l, ex),
            Cv::Secp => synth_secp(self, std, l, ex),
            Cv::Bls => synth_bls(self, std, l, ex),
        }
    }
}

// ---------------------------------------------------------------------------------------------
// synthesis
// ---------------------------------------------------------------------------------------------

type JubPt = AssignedNativePoint<JubjubExtended>;
type JubSc = AssignedScalarOfNativeCurve<JubjubExtended>;
type SecpPt = AssignedForeignPoint<F, K256, MEP>;
type SecpSc = AssignedField<F, KFq, MEP>;
type SecpCo = AssignedField<F, midnight_curves::k256::Fp, MEP>;
type BlsPt = AssignedForeignPoint<F, G1Projective, MEP>;
type BlsCo = AssignedField<F, midnight_curves::Fp, MEP>;

macro_rules! expose {
    ($ex:expr, $is_out:expr, $chip:expr, $std:expr, $l:expr, $x:expr) => {
        if $is_out {
            $ex.output_with($chip, $std, $l, $x)
        } else {
            $ex.input_with($chip, $std, $l, $x)
        }
    };
}

/// Generates the synthesis function of one curve. The per-curve parts are the chip accessor,
/// the assigned types, and how scalars / coordinates are assigned and exposed.
macro_rules! gen_synth {
    (
        $fname:ident, $special:ident, chip = |$stdc:ident| $chip:expr, pt = $PtT:ty, sc = $ScT:ty, co = $CoT:ty,
        pt_val = $pt_val:expr, sc_const = $sc_const:expr,
        assign_sc = |$s1:ident, $l1:ident, $v1:ident| $assign_sc:expr,
        fixed_sc = |$s2:ident, $l2:ident, $v2:ident| $fixed_sc:expr,
        expose_sc = |$s3:ident, $l3:ident, $e3:ident, $o3:ident, $x3:ident| $expose_sc:expr,
        assign_co = |$s4:ident, $l4:ident, $v4:ident| $assign_co:expr,
        expose_co = |$s5:ident, $l5:ident, $e5:ident, $o5:ident, $x5:ident| $expose_co:expr
    ) => {
        fn $fname<L: Layouter<F>>(case: &Case, std: &ZkStdLib, l: &mut L, ex: &Exposer) -> Result<(), Error> {
            #[allow(dead_code)]
            enum A {
                Pt($PtT),
                Sc($ScT),
                Co($CoT),
                Nat(AssignedNative<F>),
                Bit(AssignedBit<F>),
                Byte(AssignedByte<F>),
            }
            fn assign_sc<L: Layouter<F>>($s1: &ZkStdLib, $l1: &mut L, $v1: &BigUint) -> Result<$ScT, Error> {
                $assign_sc
            }
            fn fixed_sc<L: Layouter<F>>($s2: &ZkStdLib, $l2: &mut L, $v2: &BigUint) -> Result<$ScT, Error> {
                $fixed_sc
            }
            fn expose_sc<L: Layouter<F>>($s3: &ZkStdLib, $l3: &mut L, $e3: &Exposer, $o3: bool, $x3: &$ScT) -> Result<(), Error> {
                $expose_sc
            }
            fn assign_co<L: Layouter<F>>($s4: &ZkStdLib, $l4: &mut L, $v4: &BigUint) -> Result<$CoT, Error> {
                $assign_co
            }
            fn expose_co<L: Layouter<F>>($s5: &ZkStdLib, $l5: &mut L, $e5: &Exposer, $o5: bool, $x5: &$CoT) -> Result<(), Error> {
                $expose_co
            }
            fn expose_any<L: Layouter<F>>(std: &ZkStdLib, l: &mut L, ex: &Exposer, is_out: bool, x: &A) -> Result<(), Error> {
                let $stdc = std;
                let chip = $chip;
                match x {
                    A::Pt(p) => expose!(ex, is_out, chip, std, l, p),
                    A::Sc(s) => expose_sc(std, l, ex, is_out, s),
                    A::Co(c) => expose_co(std, l, ex, is_out, c),
                    A::Nat(c) => expose!(ex, is_out, std, std, l, c),
                    A::Bit(c) => expose!(ex, is_out, std, std, l, c),
                    A::Byte(c) => expose!(ex, is_out, std, std, l, c),
                }
            }
            if $special(case, std, l, ex)? {
                return Ok(());
            }
            let $stdc = std;
            let chip = $chip;
            let mut a: Vec<A> = vec![];
            for v in &case.ins {
                a.push(match v {
                    V::Pt(p) => A::Pt(AssignmentInstructions::<F, $PtT>::assign(chip, l, Value::known($pt_val(&p.rp)))?),
                    V::Sc(s) => A::Sc(assign_sc(std, l, &s.v)?),
                    V::Co(_, c) => A::Co(assign_co(std, l, c)?),
                    V::Nat(x) => A::Nat(std.assign(l, Value::known(*x))?),
                    V::Bit(b) => A::Bit(std.assign(l, Value::known(*b))?),
                    V::Byte(y) => A::Byte(std.assign(l, Value::known(*y))?),
                });
            }
            for x in &a {
                expose_any(std, l, ex, false, x)?;
            }
            let pt = |i: usize| -> $PtT {
                match &a[i] {
                    A::Pt(p) => p.clone(),
                    _ => unreachable!(),
                }
            };
            let co = |i: usize| -> $CoT {
                match &a[i] {
                    A::Co(c) => c.clone(),
                    _ => unreachable!(),
                }
            };
            let bit = |i: usize| -> AssignedBit<F> {
                match &a[i] {
                    A::Bit(c) => c.clone(),
                    _ => unreachable!(),
                }
            };
            let mut outs: Vec<A> = vec![];
            match &case.op {
                Op::Assign => {}
                Op::AssignFixed(p) => outs.push(A::Pt(AssignmentInstructions::<F, $PtT>::assign_fixed(chip, l, $pt_val(&p.rp))?)),
                Op::FromCoords => outs.push(A::Pt(chip.point_from_coordinates(l, &co(0), &co(1))?)),
                Op::Add => outs.push(A::Pt(chip.add(l, &pt(0), &pt(1))?)),
                Op::Double => outs.push(A::Pt(chip.double(l, &pt(0))?)),
                Op::Negate => outs.push(A::Pt(chip.negate(l, &pt(0))?)),
                Op::Coords => {
                    outs.push(A::Co(chip.x_coordinate(&pt(0))));
                    outs.push(A::Co(chip.y_coordinate(&pt(0))));
                }
                Op::IsEqual => outs.push(A::Bit(EqualityInstructions::<F, $PtT>::is_equal(chip, l, &pt(0), &pt(1))?)),
                Op::IsNotEqual => outs.push(A::Bit(EqualityInstructions::<F, $PtT>::is_not_equal(chip, l, &pt(0), &pt(1))?)),
                Op::IsEqualToFixed(q) => outs.push(A::Bit(EqualityInstructions::<F, $PtT>::is_equal_to_fixed(chip, l, &pt(0), $pt_val(&q.rp))?)),
                Op::IsZero => outs.push(A::Bit(ZeroInstructions::<F, $PtT>::is_zero(chip, l, &pt(0))?)),
                Op::AssertEqual => AssertionInstructions::<F, $PtT>::assert_equal(chip, l, &pt(0), &pt(1))?,
                Op::AssertNotEqual => AssertionInstructions::<F, $PtT>::assert_not_equal(chip, l, &pt(0), &pt(1))?,
                Op::AssertEqualToFixed(q) => AssertionInstructions::<F, $PtT>::assert_equal_to_fixed(chip, l, &pt(0), $pt_val(&q.rp))?,
                Op::AssertNotEqualToFixed(q) => AssertionInstructions::<F, $PtT>::assert_not_equal_to_fixed(chip, l, &pt(0), $pt_val(&q.rp))?,
                Op::AssertZero => ZeroInstructions::<F, $PtT>::assert_zero(chip, l, &pt(0))?,
                Op::AssertNonZero => ZeroInstructions::<F, $PtT>::assert_non_zero(chip, l, &pt(0))?,
                Op::Select => outs.push(A::Pt(ControlFlowInstructions::<F, $PtT>::select(chip, l, &bit(0), &pt(1), &pt(2))?)),
                Op::CondSwap => {
                    let (x, y) = ControlFlowInstructions::<F, $PtT>::cond_swap(chip, l, &bit(0), &pt(1), &pt(2))?;
                    outs.push(A::Pt(x));
                    outs.push(A::Pt(y));
                }
                Op::CondAssertEqual => ControlFlowInstructions::<F, $PtT>::cond_assert_equal(chip, l, &bit(0), &pt(1), &pt(2))?,
                Op::Msm { ns, terms, bounds, .. } => {
                    let mut scalars: Vec<$ScT> = vec![];
                    let mut bases: Vec<$PtT> = vec![];
                    for (s, b) in terms {
                        scalars.push(match s {
                            SRef::In(i) => match &a[*i] {
                                A::Sc(s) => s.clone(),
                                _ => unreachable!(),
                            },
                            SRef::Fixed(c) => fixed_sc(std, l, &c.v)?,
                        });
                        bases.push(match b {
                            BRef::In(j) => pt(ns + *j),
                            BRef::Fixed(p) => AssignmentInstructions::<F, $PtT>::assign_fixed(chip, l, $pt_val(&p.rp))?,
                        });
                    }
                    let r = match bounds {
                        None => chip.msm(l, &scalars, &bases)?,
                        Some(bs) => {
                            let sb: Vec<($ScT, usize)> = scalars.into_iter().zip(bs.iter().copied()).collect();
                            chip.msm_by_bounded_scalars(l, &sb, &bases)?
                        }
                    };
                    outs.push(A::Pt(r));
                }
                Op::MulByConst(k) => outs.push(A::Pt(chip.mul_by_constant(l, $sc_const(&k.v), &pt(0))?)),
                Op::MsmTwice { ns, terms, .. } => {
                    let mut scalars: Vec<$ScT> = vec![];
                    let mut bases: Vec<$PtT> = vec![];
                    for (s, b) in terms {
                        scalars.push(match s {
                            SRef::In(i) => match &a[*i] {
                                A::Sc(s) => s.clone(),
                                _ => unreachable!(),
                            },
                            SRef::Fixed(c) => fixed_sc(std, l, &c.v)?,
                        });
                        bases.push(match b {
                            BRef::In(j) => pt(ns + *j),
                            BRef::Fixed(p) => AssignmentInstructions::<F, $PtT>::assign_fixed(chip, l, $pt_val(&p.rp))?,
                        });
                    }
                    outs.push(A::Pt(chip.msm(l, &scalars, &bases)?));
                    outs.push(A::Pt(chip.msm(l, &scalars[..1], &bases[..1])?));
                }
                _ => unreachable!("curve-specific operation on the wrong curve"),
            }
            for x in &outs {
                expose_any(std, l, ex, true, x)?;
            }
            Ok(())
        }
    };
}

/// Jubjub-only operations.
fn special_jub<L: Layouter<F>>(case: &Case, std: &ZkStdLib, l: &mut L, ex: &Exposer) -> Result<bool, Error> {
    let chip = std.jubjub();
    if !matches!(case.op, Op::ScalarFromBytes(_) | Op::ScalarFromNative | Op::MulBytes(_) | Op::MulNative | Op::HashToCurve(_)) {
        return Ok(false);
    }
    let mut bytes: Vec<AssignedByte<F>> = vec![];
    let mut nats: Vec<AssignedNative<F>> = vec![];
    let mut pts: Vec<JubPt> = vec![];
    for v in &case.ins {
        match v {
            V::Byte(y) => bytes.push(std.assign(l, Value::known(*y))?),
            V::Nat(x) => nats.push(std.assign(l, Value::known(*x))?),
            V::Pt(p) => pts.push(AssignmentInstructions::<F, JubPt>::assign(chip, l, Value::known(p.rp.jub_value()))?),
            _ => unreachable!(),
        }
    }
    // exposure in the order of the inputs (bytes / natives first, then the point)
    for b in &bytes {
        ex.input(std, l, b)?;
    }
    for x in &nats {
        ex.input(std, l, x)?;
    }
    for p in &pts {
        ex.input_with(chip, std, l, p)?;
    }
    match &case.op {
        Op::ScalarFromBytes(_) => {
            let s = chip.scalar_from_le_bytes(l, &bytes)?;
            ex.output_with(chip, std, l, &s)?;
        }
        Op::ScalarFromNative => {
            let s: JubSc = ConversionInstructions::<F, AssignedNative<F>, JubSc>::convert(chip, l, &nats[0])?;
            ex.output_with(chip, std, l, &s)?;
        }
        Op::MulBytes(_) => {
            let s = chip.scalar_from_le_bytes(l, &bytes)?;
            let r = chip.msm(l, &[s], &[pts[0].clone()])?;
            ex.output_with(chip, std, l, &r)?;
        }
        Op::MulNative => {
            let s: JubSc = ConversionInstructions::<F, AssignedNative<F>, JubSc>::convert(chip, l, &nats[0])?;
            let r = chip.msm(l, &[s], &[pts[0].clone()])?;
            ex.output_with(chip, std, l, &r)?;
        }
        Op::HashToCurve(_) => {
            let r = std.hash_to_curve(l, &nats)?;
            ex.output_with(chip, std, l, &r)?;
        }
        _ => unreachable!(),
    }
    Ok(true)
}

fn special_secp<L: Layouter<F>>(_case: &Case, _std: &ZkStdLib, _l: &mut L, _ex: &Exposer) -> Result<bool, Error> {
    Ok(false)
}

/// BLS-only operations.
fn special_bls<L: Layouter<F>>(case: &Case, std: &ZkStdLib, l: &mut L, ex: &Exposer) -> Result<bool, Error> {
    if !matches!(case.op, Op::AssertInSubgroup | Op::SubgroupCheckChosenRoot) {
        return Ok(false);
    }
    let chip = std.bls12_381_curve();
    let V::Pt(p) = &case.ins[0] else { unreachable!() };
    let a: BlsPt = AssignmentInstructions::<F, BlsPt>::assign(chip, l, Value::known(p.rp.bls_value()))?;
    ex.input_with(chip, std, l, &a)?;
    if matches!(case.op, Op::AssertInSubgroup) {
        chip.assert_in_bls12_381_subgroup(l, &a)?;
    } else {
        let V::Pt(root) = &case.ins[1] else { unreachable!() };
        let root: BlsPt = AssignmentInstructions::<F, BlsPt>::assign(chip, l, Value::known(root.rp.bls_value()))?;
        ex.input_with(chip, std, l, &root)?;
        // the cofactor constant of ecc_chip.rs
        let cofactor = F::from_raw([0x8c00aaab0000aaab, 0x396c8c005555e156, 0, 0]);
        let m = chip.mul_by_constant(l, cofactor, &root)?;
        AssertionInstructions::<F, BlsPt>::assert_equal(chip, l, &a, &m)?;
    }
    Ok(true)
}

gen_synth!(
    synth_jub, special_jub, chip = |s| s.jubjub(), pt = JubPt, sc = JubSc, co = AssignedNative<F>,
    pt_val = |rp: &RP| rp.jub_value(), sc_const = |v: &BigUint| fr_of(v),
    assign_sc = |std, l, v| AssignmentInstructions::<F, JubSc>::assign(std.jubjub(), l, Value::known(fr_of(v))),
    fixed_sc = |std, l, v| AssignmentInstructions::<F, JubSc>::assign_fixed(std.jubjub(), l, fr_of(v)),
    expose_sc = |std, l, ex, is_out, x| expose!(ex, is_out, std.jubjub(), std, l, x),
    assign_co = |std, l, v| std.assign(l, Value::known(from_big(v))),
    expose_co = |std, l, ex, is_out, x| expose!(ex, is_out, std, std, l, x)
);

gen_synth!(
    synth_secp, special_secp, chip = |s| s.secp256k1_curve(), pt = SecpPt, sc = SecpSc, co = SecpCo,
    pt_val = |rp: &RP| rp.secp_value(), sc_const = |v: &BigUint| kfq_of(v),
    assign_sc = |std, l, v| std.secp256k1_scalar().assign(l, Value::known(kfq_of(v))),
    fixed_sc = |std, l, v| std.secp256k1_scalar().assign_fixed(l, kfq_of(v)),
    expose_sc = |std, l, ex, is_out, x| expose!(ex, is_out, std.secp256k1_scalar(), std, l, x),
    assign_co = |std, l, v| std.secp256k1_curve().base_field_chip().assign(l, Value::known(kfp_of(v))),
    expose_co = |std, l, ex, is_out, x| expose!(ex, is_out, std.secp256k1_curve().base_field_chip(), std, l, x)
);

gen_synth!(
    synth_bls, special_bls, chip = |s| s.bls12_381_curve(), pt = BlsPt, sc = AssignedNative<F>, co = BlsCo,
    pt_val = |rp: &RP| rp.bls_value(), sc_const = |v: &BigUint| from_big(v),
    assign_sc = |std, l, v| std.assign(l, Value::known(from_big(v))),
    fixed_sc = |std, l, v| std.assign_fixed(l, from_big(v)),
    expose_sc = |std, l, ex, is_out, x| expose!(ex, is_out, std, std, l, x),
    assign_co = |std, l, v| std.bls12_381_curve().base_field_chip().assign(l, Value::known(bfp_of(v))),
    expose_co = |std, l, ex, is_out, x| expose!(ex, is_out, std.bls12_381_curve().base_field_chip(), std, l, x)
);
