//! Reference side of C06: curve points as (curve, affine coordinates) over big integers, the
//! group law taken from midnight-curves (Jubjub, BLS12-381 G1) and the k256 wrapper (these are
//! the subject of C11, not of this check), decoders of the raw public-input vectors, and the
//! off-circuit encoders (`Instantiable::as_public_input`) used to validate the decoders.

use ff::{Field, PrimeField};
use group::{cofactor::CofactorGroup, Curve, Group};
use midnight_circuits::{
    field::foreign::params::{FieldEmulationParams, MultiEmulationParams as MEP},
    types::{AssignedField, AssignedForeignPoint, AssignedNativePoint, AssignedScalarOfNativeCurve, Instantiable},
    CircuitField,
};
use midnight_curves::{
    k256::{Fp as KFp, K256Affine, K256},
    CurveAffine, Fp as BFp, Fq, Fr, G1Affine, G1Projective, JubjubAffine, JubjubExtended, JubjubSubgroup,
};
use num_bigint::BigUint;
use num_traits::{One, Zero};
use vgad::{val::*, F};

pub type KFq = midnight_curves::k256::Fq;

#[derive(Clone, Copy, Debug, PartialEq, Eq, Hash, PartialOrd, Ord)]
pub enum Cv {
    Jub,
    Secp,
    Bls,
}

impl Cv {
    pub fn name(self) -> &'static str {
        match self {
            Cv::Jub => "jubjub",
            Cv::Secp => "secp256k1",
            Cv::Bls => "bls12-381-g1",
        }
    }
    /// modulus of the base field
    pub fn p(self) -> BigUint {
        match self {
            Cv::Jub => <Fq as CircuitField>::modulus(),
            Cv::Secp => <KFp as CircuitField>::modulus(),
            Cv::Bls => <BFp as CircuitField>::modulus(),
        }
    }
    /// order of the prime subgroup (= modulus of the scalar field)
    pub fn r(self) -> BigUint {
        match self {
            Cv::Jub => <Fr as CircuitField>::modulus(),
            Cv::Secp => <KFq as CircuitField>::modulus(),
            Cv::Bls => <Fq as CircuitField>::modulus(),
        }
    }
    /// Does every assigned point of this curve's in-circuit type promise subgroup membership?
    /// (Jubjub: `AssignedNativePoint` built by `assign` / `point_from_coordinates` /
    /// `hash_to_curve`; secp256k1 has prime order; the BLS chip is documented as "the whole
    /// curve".)
    pub fn type_promises_subgroup(self) -> bool {
        matches!(self, Cv::Jub)
    }
    /// limb layout of the emulated base field: (log2 base, number of limbs); Jubjub is native
    pub fn limbs(self) -> (u32, u32) {
        match self {
            Cv::Jub => (0, 1),
            Cv::Secp => (<MEP as FieldEmulationParams<F, KFp>>::LOG2_BASE, <MEP as FieldEmulationParams<F, KFp>>::NB_LIMBS),
            Cv::Bls => (<MEP as FieldEmulationParams<F, BFp>>::LOG2_BASE, <MEP as FieldEmulationParams<F, BFp>>::NB_LIMBS),
        }
    }
}

fn inv_mod(a: &BigUint, p: &BigUint) -> BigUint {
    a.modpow(&(p - 2u32), p)
}

/// Curve equation over big integers (independent of the field implementations).
pub fn on_curve(cv: Cv, x: &BigUint, y: &BigUint) -> bool {
    let p = cv.p();
    if x >= &p || y >= &p {
        return false;
    }
    match cv {
        Cv::Jub => {
            // -x^2 + y^2 = 1 + d x^2 y^2, d = -(10240/10241)
            let d = (&p - (BigUint::from(10240u32) * inv_mod(&BigUint::from(10241u32), &p)) % &p) % &p;
            let x2 = (x * x) % &p;
            let y2 = (y * y) % &p;
            let lhs = (&y2 + &p - &x2) % &p;
            let rhs = (BigUint::one() + d * &x2 % &p * &y2) % &p;
            lhs == rhs
        }
        Cv::Secp | Cv::Bls => {
            let b = if cv == Cv::Secp { 7u32 } else { 4u32 };
            (y * y) % &p == (x * x % &p * x + b) % &p
        }
    }
}

/// A reference point.
#[derive(Clone, Copy, Debug)]
pub enum RP {
    J(JubjubExtended),
    K(K256),
    B(G1Projective),
}

impl PartialEq for RP {
    fn eq(&self, o: &Self) -> bool {
        match (self, o) {
            (RP::J(a), RP::J(b)) => a == b,
            (RP::K(a), RP::K(b)) => a == b,
            (RP::B(a), RP::B(b)) => a == b,
            _ => false,
        }
    }
}

fn fe<K: CircuitField>(x: &BigUint) -> K {
    K::from_biguint(x).expect("canonical field element")
}

impl RP {
    pub fn cv(&self) -> Cv {
        match self {
            RP::J(_) => Cv::Jub,
            RP::K(_) => Cv::Secp,
            RP::B(_) => Cv::Bls,
        }
    }
    pub fn identity(cv: Cv) -> RP {
        match cv {
            Cv::Jub => RP::J(JubjubExtended::identity()),
            Cv::Secp => RP::K(K256::identity()),
            Cv::Bls => RP::B(G1Projective::identity()),
        }
    }
    pub fn generator(cv: Cv) -> RP {
        match cv {
            Cv::Jub => RP::J(JubjubSubgroup::generator().into()),
            Cv::Secp => RP::K(K256::generator()),
            Cv::Bls => RP::B(G1Projective::generator()),
        }
    }
    pub fn is_identity(&self) -> bool {
        match self {
            RP::J(a) => a.is_identity().into(),
            RP::K(a) => a.is_identity().into(),
            RP::B(a) => a.is_identity().into(),
        }
    }
    pub fn add(&self, o: &RP) -> RP {
        match (self, o) {
            (RP::J(a), RP::J(b)) => RP::J(a + b),
            (RP::K(a), RP::K(b)) => RP::K(*a + *b),
            (RP::B(a), RP::B(b)) => RP::B(a + b),
            _ => panic!("mixed curves"),
        }
    }
    pub fn double(&self) -> RP {
        match self {
            RP::J(a) => RP::J(Group::double(a)),
            RP::K(a) => RP::K(Group::double(a)),
            RP::B(a) => RP::B(Group::double(a)),
        }
    }
    pub fn neg(&self) -> RP {
        match self {
            RP::J(a) => RP::J(-*a),
            RP::K(a) => RP::K(-*a),
            RP::B(a) => RP::B(-*a),
        }
    }
    /// n * P for a non-negative integer n, by double-and-add over the reference group law.
    pub fn mul_int(&self, n: &BigUint) -> RP {
        let mut acc = RP::identity(self.cv());
        for i in (0..n.bits()).rev() {
            acc = acc.double();
            if n.bit(i) {
                acc = acc.add(self);
            }
        }
        acc
    }
    /// s * P through the library's own scalar multiplication (s reduced mod r); used only to
    /// cross-check `mul_int` in the self-checks.
    pub fn mul_native(&self, s: &BigUint) -> RP {
        let s = s % self.cv().r();
        match self {
            RP::J(a) => RP::J(a * fe::<Fr>(&s)),
            RP::K(a) => RP::K(*a * fe::<KFq>(&s)),
            RP::B(a) => RP::B(a * fe::<Fq>(&s)),
        }
    }
    /// Affine coordinates with the circuits' identity convention: Jubjub (0, 1); Weierstrass
    /// (0, 0) + flag.
    pub fn xy(&self) -> (BigUint, BigUint, bool) {
        let id = self.is_identity();
        match self {
            RP::J(a) => {
                let aff = a.to_affine();
                (CircuitField::to_biguint(&aff.get_u()), CircuitField::to_biguint(&aff.get_v()), id)
            }
            RP::K(a) => {
                if id {
                    (BigUint::zero(), BigUint::zero(), true)
                } else {
                    let aff: K256Affine = (*a).into();
                    (CircuitField::to_biguint(&aff.x()), CircuitField::to_biguint(&aff.y()), false)
                }
            }
            RP::B(a) => {
                if id {
                    (BigUint::zero(), BigUint::zero(), true)
                } else {
                    let aff = a.to_affine();
                    (CircuitField::to_biguint(&aff.x()), CircuitField::to_biguint(&aff.y()), false)
                }
            }
        }
    }
    /// The point with the given affine coordinates, `None` if they are not on the curve.
    pub fn from_xy(cv: Cv, x: &BigUint, y: &BigUint) -> Option<RP> {
        if !on_curve(cv, x, y) {
            return None;
        }
        Some(match cv {
            Cv::Jub => RP::J(JubjubAffine::from_raw_unchecked(fe::<Fq>(x), fe::<Fq>(y)).to_extended()),
            Cv::Secp => RP::K(K256Affine::from_xy(fe::<KFp>(x), fe::<KFp>(y))?.into()),
            Cv::Bls => RP::B(Option::<G1Affine>::from(<G1Affine as CurveAffine>::from_xy(fe::<BFp>(x), fe::<BFp>(y)))?.into()),
        })
    }
    pub fn in_subgroup(&self) -> bool {
        match self {
            RP::J(a) => a.is_torsion_free().into(),
            RP::K(_) => true,
            RP::B(a) => {
                if self.is_identity() {
                    true
                } else {
                    a.to_affine().is_torsion_free().into()
                }
            }
        }
    }
    pub fn show(&self) -> String {
        let (x, y, id) = self.xy();
        if id {
            "identity".into()
        } else {
            format!("(0x{}, 0x{})", x.to_str_radix(16), y.to_str_radix(16))
        }
    }
    // --- values of the library's assignment types
    pub fn jub_value(&self) -> JubjubSubgroup {
        match self {
            RP::J(a) => Option::<JubjubSubgroup>::from(CofactorGroup::into_subgroup(*a)).expect("subgroup point"),
            _ => panic!("not jubjub"),
        }
    }
    pub fn secp_value(&self) -> K256 {
        match self {
            RP::K(a) => *a,
            _ => panic!("not secp"),
        }
    }
    pub fn bls_value(&self) -> G1Projective {
        match self {
            RP::B(a) => *a,
            _ => panic!("not bls"),
        }
    }
    /// The off-circuit public-input encoding of this point (the library's `as_public_input`).
    /// `None` for a Jubjub point outside the subgroup (not a value of the type).
    pub fn encode(&self) -> Option<Vec<F>> {
        Some(match self {
            RP::J(_) => {
                if !self.in_subgroup() {
                    return None;
                }
                <AssignedNativePoint<JubjubExtended> as Instantiable<F>>::as_public_input(&self.jub_value())
            }
            RP::K(a) => <AssignedForeignPoint<F, K256, MEP> as Instantiable<F>>::as_public_input(a),
            RP::B(a) => <AssignedForeignPoint<F, G1Projective, MEP> as Instantiable<F>>::as_public_input(a),
        })
    }
}

// ---------------------------------------------------------------------------------------------
// decoders of raw exposed vectors
// ---------------------------------------------------------------------------------------------

/// Counts of accepted-but-non-canonical encodings seen by the decoders (reported in the notes).
pub static NONCANON_FIELD: std::sync::atomic::AtomicU64 = std::sync::atomic::AtomicU64::new(0);
pub static NONCANON_ID: std::sync::atomic::AtomicU64 = std::sync::atomic::AtomicU64::new(0);

/// Bit sizes of the well-formed limbs of an emulated field with modulus `m`.
pub fn limb_bits(m: &BigUint, log2_base: u32, nb: u32) -> Vec<u32> {
    let mut v = vec![log2_base; nb as usize];
    v[nb as usize - 1] = m.bits() as u32 - (nb - 1) * log2_base;
    v
}

/// Decode an emulated field element from its limbs: the value is `1 + sum_i B^i l_i mod m`, every
/// limb must be within the well-formed bound. Returns (value, canonical).
pub fn decode_emulated(raw: &[F], m: &BigUint, log2_base: u32, nb: u32) -> Option<(BigUint, bool)> {
    if raw.len() != nb as usize {
        return None;
    }
    let bits = limb_bits(m, log2_base, nb);
    let mut sum = BigUint::zero();
    for (i, l) in raw.iter().enumerate() {
        let l = to_big(l);
        if l.bits() as u32 > bits[i] {
            return None;
        }
        sum += l << (log2_base as usize * i);
    }
    let canonical = &sum < m;
    Some(((sum + 1u32) % m, canonical))
}

pub fn encode_emulated(v: &BigUint, m: &BigUint, log2_base: u32, nb: u32) -> Vec<F> {
    let s = (v + m - 1u32) % m;
    let mask = (BigUint::one() << log2_base) - 1u32;
    (0..nb).map(|i| from_big(&((&s >> (log2_base as usize * i as usize)) & &mask))).collect()
}

/// Decode a coordinate (element of the curve's base field).
pub fn decode_coord(cv: Cv, raw: &[F]) -> Option<BigUint> {
    match cv {
        Cv::Jub => (raw.len() == 1).then(|| to_big(&raw[0])),
        _ => {
            let (lb, nb) = cv.limbs();
            let (v, canon) = decode_emulated(raw, &cv.p(), lb, nb)?;
            if !canon {
                NONCANON_FIELD.fetch_add(1, std::sync::atomic::Ordering::Relaxed);
            }
            Some(v)
        }
    }
}

pub fn encode_coord(cv: Cv, v: &BigUint) -> Vec<F> {
    match cv {
        Cv::Jub => vec![from_big(v)],
        Cv::Secp => <AssignedField<F, KFp, MEP> as Instantiable<F>>::as_public_input(&fe::<KFp>(v)),
        Cv::Bls => <AssignedField<F, BFp, MEP> as Instantiable<F>>::as_public_input(&fe::<BFp>(v)),
    }
}

#[derive(Clone, Debug)]
pub enum PtDecode {
    /// a point of the curve; `canonical` = the vector is exactly what `as_public_input` produces;
    /// (x, y) = the coordinate values carried by the vector (for a foreign identity they are
    /// "irrelevant" by the type's contract and need not be (0, 0))
    Point { p: RP, canonical: bool, x: BigUint, y: BigUint },
    /// well-formed field elements that do not satisfy the curve equation
    OffCurve(BigUint, BigUint),
    /// not a valid encoding at all (limb out of range, identity flag not a bit, wrong length)
    Malformed(String),
}

/// Decode an assigned point from its exposed vector.
///  * Jubjub: `[x, y]`, the identity is (0, 1).
///  * foreign: limbs of x then limbs of y, the `is_id` flag is added to the first limb scaled by
///    the limb base; the type says that x and y are irrelevant when the flag is set.
pub fn decode_point(cv: Cv, raw: &[F]) -> PtDecode {
    match cv {
        Cv::Jub => {
            if raw.len() != 2 {
                return PtDecode::Malformed(format!("{} elements", raw.len()));
            }
            let (x, y) = (to_big(&raw[0]), to_big(&raw[1]));
            match RP::from_xy(cv, &x, &y) {
                Some(p) => PtDecode::Point { p, canonical: true, x, y },
                None => PtDecode::OffCurve(x, y),
            }
        }
        _ => {
            let (lb, nb) = cv.limbs();
            if raw.len() != 2 * nb as usize {
                return PtDecode::Malformed(format!("{} elements", raw.len()));
            }
            let first = to_big(&raw[0]);
            let flag = &first >> lb as usize;
            if flag > BigUint::one() {
                return PtDecode::Malformed(format!("first limb 0x{} exceeds limb + flag range", first.to_str_radix(16)));
            }
            let is_id = flag.is_one();
            let mut xl = raw[..nb as usize].to_vec();
            xl[0] = from_big(&(&first & ((BigUint::one() << lb as usize) - 1u32)));
            let Some((x, cx)) = decode_emulated(&xl, &cv.p(), lb, nb) else {
                return PtDecode::Malformed("x limb out of range".into());
            };
            let Some((y, cy)) = decode_emulated(&raw[nb as usize..], &cv.p(), lb, nb) else {
                return PtDecode::Malformed("y limb out of range".into());
            };
            if is_id {
                let canonical = cx && cy && x.is_zero() && y.is_zero();
                if !canonical {
                    NONCANON_ID.fetch_add(1, std::sync::atomic::Ordering::Relaxed);
                }
                return PtDecode::Point { p: RP::identity(cv), canonical, x, y };
            }
            if !(cx && cy) {
                NONCANON_FIELD.fetch_add(1, std::sync::atomic::Ordering::Relaxed);
            }
            match RP::from_xy(cv, &x, &y) {
                Some(p) => PtDecode::Point { p, canonical: cx && cy, x, y },
                None => PtDecode::OffCurve(x, y),
            }
        }
    }
}

/// Scalars. Jubjub: little-endian bits packed 254 per element (`nbits` = length of the bit
/// vector); secp256k1: emulated field element; BLS: one native element.
pub fn decode_scalar(cv: Cv, nbits: usize, raw: &[F]) -> Option<BigUint> {
    match cv {
        Cv::Jub => {
            let per = (F::NUM_BITS - 1) as usize;
            if raw.len() != nbits.div_ceil(per) {
                return None;
            }
            let mut v = BigUint::zero();
            for (j, c) in raw.iter().enumerate() {
                let c = to_big(c);
                let w = per.min(nbits - per * j);
                if c.bits() as usize > w {
                    return None;
                }
                v += c << (per * j);
            }
            Some(v)
        }
        Cv::Secp => {
            let lb = <MEP as FieldEmulationParams<F, KFq>>::LOG2_BASE;
            let nb = <MEP as FieldEmulationParams<F, KFq>>::NB_LIMBS;
            let (v, canon) = decode_emulated(raw, &cv.r(), lb, nb)?;
            if !canon {
                NONCANON_FIELD.fetch_add(1, std::sync::atomic::Ordering::Relaxed);
            }
            Some(v)
        }
        Cv::Bls => (raw.len() == 1).then(|| to_big(&raw[0])),
    }
}

/// Off-circuit encoding of a scalar < r (library code).
pub fn encode_scalar(cv: Cv, v: &BigUint) -> Vec<F> {
    match cv {
        Cv::Jub => <AssignedScalarOfNativeCurve<JubjubExtended> as Instantiable<F>>::as_public_input(&fe::<Fr>(v)),
        Cv::Secp => <AssignedField<F, KFq, MEP> as Instantiable<F>>::as_public_input(&fe::<KFq>(v)),
        Cv::Bls => vec![from_big(v)],
    }
}

pub fn fr_of(v: &BigUint) -> Fr {
    fe::<Fr>(v)
}
pub fn kfq_of(v: &BigUint) -> KFq {
    fe::<KFq>(v)
}
pub fn kfp_of(v: &BigUint) -> KFp {
    fe::<KFp>(v)
}
pub fn bfp_of(v: &BigUint) -> BFp {
    fe::<BFp>(v)
}

/// Square root in the base field (for building points from an x coordinate).
pub fn sqrt_mod(cv: Cv, a: &BigUint) -> Option<BigUint> {
    match cv {
        Cv::Jub => Option::<Fq>::from(fe::<Fq>(a).sqrt()).map(|r| CircuitField::to_biguint(&r)),
        Cv::Secp => Option::<KFp>::from(fe::<KFp>(a).sqrt()).map(|r| CircuitField::to_biguint(&r)),
        Cv::Bls => Option::<BFp>::from(fe::<BFp>(a).sqrt()).map(|r| CircuitField::to_biguint(&r)),
    }
}
