//! C14 — KZG multi-opening: correct openings verify, any wrong claim is rejected.
//!
//! Space (complete enumeration, real `multi_open` / `multi_prepare` / `verify`):
//!   * query-set SHAPES: each of p polynomials gets a non-empty subset of m points; all shapes
//!     with p <= 3 (quick) / p <= 4 (thorough), m <= 3, in which every point is used (a shape with
//!     an unused point is the same query set as a shape with fewer points), each in every
//!     distinct query ORDER {by polynomial, by point, reversed}; plus 7 larger hand-listed
//!     shapes (12 polynomials, 5 points, the PLONK rotation pattern).
//!   * polynomial families: seeded random; zero/constant polynomials; two identical polynomials
//!     behind distinct references; single-point polynomials given to the verifier as chopped
//!     commitments of 2..4 pieces (`VerifierQuery::from_parts`). A polynomial with several
//!     points IS one reference queried several times.
//!   * per (shape, order, k, family): the honest round, then every single fault: each claimed
//!     evaluation +1, each point replaced (fresh value / other point of the shape), each
//!     commitment (and each piece, the piece-degree parameter, the piece order) replaced, each
//!     proof element mutated, truncated / extended proof, a repeated (commitment, point) pair on
//!     the prover and on the verifier side. Verifier-only query permutations are run and
//!     recorded (see the note on ordering in `main`).

use std::collections::{BTreeSet, HashMap};
use std::sync::Arc;

use blake2b_simd::State as Blake2bState;
use ff::{Field, PrimeField};
use group::Group;
use midnight_curves::{Fq as F, G1Projective as G1};
use midnight_proofs::{
    poly::{
        commitment::{Guard, PolynomialCommitmentScheme},
        Coeff, CommitmentLabel, Error as PolyError, Polynomial, ProverQuery, VerifierQuery,
    },
    transcript::{CircuitTranscript, Hashable, Transcript},
    utils::arithmetic::eval_polynomial,
};
use serde_json::{json, Value};
use vcore::{catch, panic_site, CaseOut, Ctx, Level, Viol};
use vfam::api::{setup, Kzg, Params, VParams};

type T = CircuitTranscript<Blake2bState>;
type Poly = Polynomial<F, Coeff>;

// ---------------------------------------------------------------------------------------------
// The explored space
// ---------------------------------------------------------------------------------------------

#[derive(Clone, Debug)]
struct Shape {
    name: String,
    m: usize,
    /// per polynomial: the (ascending) indices of the points it is opened at
    sets: Vec<Vec<usize>>,
    /// points are x, ωx, ω⁻¹x, ω^(n/2)x (the PLONK rotation pattern) instead of unrelated values
    plonk: bool,
}

fn letters(set: &[usize]) -> String {
    set.iter().map(|i| (b'a' + *i as u8) as char).collect()
}

fn shape_of(tag: &str, m: usize, sets: Vec<Vec<usize>>, plonk: bool) -> Shape {
    let body = sets.iter().map(|s| letters(s)).collect::<Vec<_>>().join("|");
    Shape { name: format!("{tag}:{body}"), m, sets, plonk }
}

/// All shapes with p <= pmax polynomials over exactly m <= mmax points (every point used).
fn small_shapes(pmax: usize, mmax: usize) -> Vec<Shape> {
    let mut v = vec![];
    for p in 1..=pmax {
        for m in 1..=mmax {
            let nsub = (1usize << m) - 1;
            for code in 0..nsub.pow(p as u32) {
                let mut c = code;
                let mut masks = vec![];
                for _ in 0..p {
                    masks.push(c % nsub + 1);
                    c /= nsub;
                }
                if masks.iter().fold(0, |a, b| a | b) != (1 << m) - 1 {
                    continue;
                }
                let sets = masks.iter().map(|mk| (0..m).filter(|i| mk >> i & 1 == 1).collect()).collect();
                v.push(shape_of(&format!("p{p}m{m}"), m, sets, false));
            }
        }
    }
    v
}

fn large_shapes() -> Vec<Shape> {
    let s = |v: &[&[usize]]| v.iter().map(|x| x.to_vec()).collect::<Vec<_>>();
    vec![
        // advice at {x}, {x,ωx}, {x,ω⁻¹x}, permutation products at {x,ωx,ω^last x}, then the
        // vanishing pair (h, random_poly) at {x} at the end, as plonk::verifier lists them
        shape_of(
            "plonk-rot-p12m4",
            4,
            s(&[&[0], &[0, 1], &[0], &[0, 2], &[0, 1], &[0], &[0, 1, 3], &[0, 1, 3], &[0, 2], &[0, 1], &[0], &[0]]),
            true,
        ),
        // same pattern, a rotated query registered first (x is not the first point seen)
        shape_of("plonk-rot-p6m4", 4, s(&[&[1, 0], &[0], &[2], &[0, 1, 3], &[3], &[0]]), true),
        shape_of(
            "mixed-p12m5",
            5,
            s(&[&[0, 1, 2, 3, 4], &[0], &[1], &[2], &[3], &[4], &[0, 4], &[1, 3], &[0, 1, 2], &[2, 3, 4], &[1], &[0, 1, 2, 3, 4]]),
            false,
        ),
        shape_of("one-set-p12m2", 2, (0..12).map(|_| vec![0, 1]).collect(), false),
        shape_of("diagonal-p5m5", 5, (0..5).map(|i| vec![i]).collect(), false),
        shape_of("chain-p6m5", 5, s(&[&[0, 1], &[1, 2], &[2, 3], &[3, 4], &[0, 4], &[0, 1, 2, 3, 4]]), false),
        shape_of("nested-p8m4", 4, s(&[&[0], &[0, 1], &[0, 1, 2], &[0, 1, 2, 3], &[3], &[2, 3], &[1, 2, 3], &[0, 1, 2, 3]]), false),
    ]
}

#[derive(Clone, Copy, Debug, PartialEq, Eq)]
enum Order {
    ByPoly,
    ByPoint,
    Reversed,
}

impl Order {
    fn name(self) -> &'static str {
        match self {
            Order::ByPoly => "by-poly",
            Order::ByPoint => "by-point",
            Order::Reversed => "reversed",
        }
    }
}

/// The query list (polynomial index, point index) of a shape in an order class.
fn ordered(shape: &Shape, order: Order) -> Vec<(usize, usize)> {
    let mut q = vec![];
    match order {
        Order::ByPoly | Order::Reversed => {
            for (i, s) in shape.sets.iter().enumerate() {
                for pt in s {
                    q.push((i, *pt));
                }
            }
            if order == Order::Reversed {
                q.reverse();
            }
        }
        Order::ByPoint => {
            for pt in 0..shape.m {
                for (i, s) in shape.sets.iter().enumerate() {
                    if s.contains(&pt) {
                        q.push((i, pt));
                    }
                }
            }
        }
    }
    q
}

#[derive(Clone, Copy, Debug, PartialEq, Eq)]
enum Fam {
    /// all polynomials seeded-random with 2^k coefficients
    Rand,
    /// polynomial i is zero (i%3==0), a constant (i%3==1), random (i%3==2)
    SpecialA,
    /// polynomial i is a constant (i%3==0), zero (i%3==1), random (i%3==2)
    SpecialB,
    /// the last polynomial is a copy of the first (distinct object, equal contents)
    Identical,
    /// every single-point polynomial is chopped; the first into this many pieces, then cycling 2..4
    Chopped(usize),
}

impl Fam {
    fn name(self) -> String {
        match self {
            Fam::Rand => "rand".into(),
            Fam::SpecialA => "zero-const".into(),
            Fam::SpecialB => "const-zero".into(),
            Fam::Identical => "identical".into(),
            Fam::Chopped(j) => format!("chopped{j}"),
        }
    }
    fn applicable(self, shape: &Shape) -> bool {
        match self {
            Fam::Identical => shape.sets.len() >= 2,
            Fam::Chopped(_) => shape.sets.iter().any(|s| s.len() == 1),
            _ => true,
        }
    }
}

struct Case {
    shape: Shape,
    order: Order,
    k: u32,
    fam: Fam,
}

struct Env {
    seed: u64,
    params: HashMap<u32, (Arc<Params>, VParams)>,
}

// ---------------------------------------------------------------------------------------------
// One instance: polynomials, commitments, the verifier's view
// ---------------------------------------------------------------------------------------------

fn fhex(x: &F) -> String {
    vcore::hex(x.to_repr().as_ref())
}

fn rand_poly(n: usize, rng: &mut impl rand_core::RngCore) -> Poly {
    let mut p = Poly::init(n);
    for c in p.iter_mut() {
        *c = F::random(&mut *rng);
    }
    p
}

#[derive(Clone, Copy, Debug, PartialEq)]
enum ComSel {
    Orig,
    /// the commitment C replaced by C + G (a commitment to poly + 1)
    PlusG,
    /// replaced by a distinct object holding the value of another polynomial's commitment
    SwapVal,
    /// replaced by the very reference of another polynomial's commitment
    RefOf(usize),
    /// chopped: piece l replaced by piece + G
    PiecePlusG(usize),
    /// chopped: piece-degree parameter n replaced by n + 1
    NPlus1,
    /// chopped: the first two pieces exchanged
    PiecesSwapped,
}

#[derive(Clone, Debug)]
struct QSpec {
    poly: usize,
    point: F,
    eval: F,
    sel: ComSel,
}

struct Store {
    one: Vec<Option<G1>>,
    parts: Vec<Option<(Vec<G1>, u64)>>,
    plus_g: Vec<G1>,
    swap_val: Vec<G1>,
    parts_plus_g: Vec<Vec<G1>>,
}

fn build<'a>(st: &'a Store, specs: &[QSpec]) -> Vec<VerifierQuery<'a, F, Kzg>> {
    specs
        .iter()
        .map(|q| {
            let label = CommitmentLabel::Custom(format!("p{}", q.poly));
            if let (Some((parts, n)), true) = (
                st.parts[q.poly].as_ref(),
                matches!(q.sel, ComSel::Orig | ComSel::PiecePlusG(_) | ComSel::NPlus1 | ComSel::PiecesSwapped),
            ) {
                let mut refs: Vec<&G1> = parts.iter().collect();
                let mut n = *n;
                match q.sel {
                    ComSel::PiecePlusG(l) => refs[l] = &st.parts_plus_g[q.poly][l],
                    ComSel::NPlus1 => n += 1,
                    ComSel::PiecesSwapped => refs.swap(0, 1),
                    _ => {}
                }
                return VerifierQuery::from_parts(q.point, label, &refs, q.eval, n);
            }
            let c: &G1 = match q.sel {
                ComSel::Orig => st.one[q.poly].as_ref().expect("one-piece commitment"),
                ComSel::PlusG => &st.plus_g[q.poly],
                ComSel::SwapVal => &st.swap_val[q.poly],
                ComSel::RefOf(j) => st.one[j].as_ref().expect("one-piece commitment"),
                _ => unreachable!("piece selector on a one-piece commitment"),
            };
            VerifierQuery::new(q.point, label, c, q.eval)
        })
        .collect()
}

#[derive(Clone, Debug, PartialEq)]
enum Outc {
    Accept,
    RejectDup,
    RejectPrepare(String),
    RejectTrailing,
    RejectVerify,
    Panic(String),
}

impl Outc {
    fn name(&self) -> &'static str {
        match self {
            Outc::Accept => "accept",
            Outc::RejectDup => "reject-duplicated-query",
            Outc::RejectPrepare(_) => "reject-prepare",
            Outc::RejectTrailing => "reject-trailing-bytes",
            Outc::RejectVerify => "reject-pairing",
            Outc::Panic(_) => "panic",
        }
    }
}

struct Round<'a> {
    vp: &'a VParams,
    st: &'a Store,
    absorb_c: &'a [G1],
    absorb_e: &'a [F],
}

fn absorb(t: &mut T, cs: &[G1], es: &[F]) {
    for c in cs {
        t.common(c).expect("common");
    }
    for e in es {
        t.common(e).expect("common");
    }
}

impl Round<'_> {
    /// Names the input class of a verifier panic: a chopped commitment whose point is not the
    /// first point of the query list is one class whatever else the case contains.
    fn panic_what(&self, specs: &[QSpec], otherwise: &str) -> String {
        let chopped_not_first = specs.iter().any(|q| {
            self.st.parts[q.poly].is_some()
                && matches!(q.sel, ComSel::Orig | ComSel::PiecePlusG(_) | ComSel::NPlus1 | ComSel::PiecesSwapped)
                && q.point != specs[0].point
        });
        if chopped_not_first {
            "chopped-point-not-first-in-query-list".into()
        } else {
            otherwise.to_string()
        }
    }

    /// `multi_prepare` + trailing-bytes check + final pairing check, on the verifier's claims
    /// `specs` and the opening proof `proof`. The Fiat–Shamir state is the prover's.
    fn verify(&self, specs: &[QSpec], proof: &[u8]) -> Outc {
        let r = catch(|| {
            let queries = build(self.st, specs);
            let mut t = T::init_from_bytes(proof);
            absorb(&mut t, self.absorb_c, self.absorb_e);
            let guard = match Kzg::multi_prepare(&queries, &mut t) {
                Ok(g) => g,
                Err(PolyError::DuplicatedQuery) => return Outc::RejectDup,
                Err(e) => return Outc::RejectPrepare(format!("{e:?}")),
            };
            if t.assert_empty().is_err() {
                return Outc::RejectTrailing;
            }
            match guard.verify(self.vp) {
                Ok(()) => Outc::Accept,
                Err(_) => Outc::RejectVerify,
            }
        });
        match r {
            Ok(o) => o,
            Err(p) => Outc::Panic(p),
        }
    }
}

fn shape_class(shape: &Shape, fam: Fam) -> String {
    let mut tags: Vec<&str> = vec![];
    match fam {
        Fam::Chopped(_) => tags.push("chopped"),
        Fam::Identical => tags.push("identical-polys"),
        Fam::SpecialA | Fam::SpecialB => tags.push("zero-const-polys"),
        Fam::Rand => {}
    }
    if shape.sets.iter().any(|s| s.len() > 1) {
        tags.push("multi-point-poly");
    }
    if (0..shape.m).any(|pt| shape.sets.iter().filter(|s| s.contains(&pt)).count() > 1) {
        tags.push("shared-point");
    }
    if tags.is_empty() {
        tags.push("plain");
    }
    tags.join("+")
}

fn g1_bytes(g: &G1) -> Vec<u8> {
    <G1 as Hashable<Blake2bState>>::to_bytes(g)
}

fn run_case(env: &Env, case: &Case, key: &str) -> CaseOut {
    let mut out = CaseOut::batch();
    let shape = &case.shape;
    let p = shape.sets.len();
    let k = case.k;
    let n_coeffs = 1usize << k;
    let (params, vparams) = env.params.get(&k).expect("params for k");
    let sclass = shape_class(shape, case.fam);
    let mut rng = vcore::rng_for(env.seed, &format!("c14/{key}"));

    // ---- points
    let mut points: Vec<F> = vec![];
    if shape.plonk {
        let mut omega = F::ROOT_OF_UNITY;
        for _ in k..F::S {
            omega = omega.square();
        }
        let x = F::random(&mut rng);
        points.extend([x, x * omega, x * omega.invert().unwrap(), -x]);
        assert!(shape.m <= 4);
        points.truncate(shape.m);
    } else {
        while points.len() < shape.m {
            let x = F::random(&mut rng);
            if !points.contains(&x) {
                points.push(x);
            }
        }
    }
    let fresh = loop {
        let z = F::random(&mut rng);
        if !points.contains(&z) {
            break z;
        }
    };
    let queries = ordered(shape, case.order);

    // ---- polynomials
    let mut polys: Vec<Poly> = vec![];
    let mut pieces: Vec<Option<(Vec<Poly>, u64)>> = vec![];
    let mut chopped_seen = 0usize;
    for i in 0..p {
        let kind = match case.fam {
            Fam::SpecialA => i % 3,
            Fam::SpecialB => [1, 0, 2][i % 3],
            _ => 2,
        };
        let mut poly = match kind {
            0 => Poly::init(n_coeffs),
            1 => {
                let mut c = Poly::init(n_coeffs);
                c[0] = F::random(&mut rng);
                c
            }
            _ => rand_poly(n_coeffs, &mut rng),
        };
        let mut pc = None;
        if let Fam::Chopped(j0) = case.fam {
            if shape.sets[i].len() == 1 {
                // pieces h_0..h_{j-1}; the prover opens H(X) = Σ_l (x^(n-1))^l · h_l(X) at x, the
                // convention of CommitmentReference::as_terms and vanishing::prover::evaluate
                let j = 2 + (j0 - 2 + chopped_seen) % 3;
                chopped_seen += 1;
                let n: u64 = if j0 == 3 { 5 } else { n_coeffs as u64 };
                let x = points[shape.sets[i][0]];
                let sf = x.pow_vartime([n - 1]);
                let hs: Vec<Poly> = (0..j).map(|_| rand_poly(n_coeffs, &mut rng)).collect();
                let mut rec = Poly::init(n_coeffs);
                let mut s = F::ONE;
                for h in &hs {
                    for (r, c) in rec.iter_mut().zip(h.iter()) {
                        *r += *c * s;
                    }
                    s *= sf;
                }
                poly = rec;
                pc = Some((hs, n));
            }
        }
        polys.push(poly);
        pieces.push(pc);
    }
    if case.fam == Fam::Identical {
        polys[p - 1] = polys[0].clone();
    }
    // value that the verifier's (possibly chopped) commitment of polynomial i claims at `pt`
    let claim_value = |i: usize, pt: F| -> F {
        match &pieces[i] {
            None => eval_polynomial(&polys[i], pt),
            Some((hs, n)) => {
                let sf = pt.pow_vartime([*n - 1]);
                let mut s = F::ONE;
                let mut acc = F::ZERO;
                for h in hs {
                    acc += eval_polynomial(h, pt) * s;
                    s *= sf;
                }
                acc
            }
        }
    };

    let base = json!({
        "shape": shape.name, "order": case.order.name(), "k": k, "family": case.fam.name(),
        "queries(poly,point)": queries,
        "points": points.iter().map(fhex).collect::<Vec<_>>(),
        "chopped(poly,pieces,n)": pieces.iter().enumerate().filter_map(|(i, pc)| pc.as_ref().map(|(hs, n)| (i, hs.len(), *n))).collect::<Vec<_>>(),
        "coefficients_per_polynomial": n_coeffs,
    });
    let detail = |extra: Value| -> Value {
        let mut d = base.clone();
        d["fault"] = extra;
        d
    };

    // ---- commitments (subject code: KZGCommitmentScheme::commit)
    let committed = catch(|| {
        let one: Vec<Option<G1>> =
            (0..p).map(|i| if pieces[i].is_none() { Some(Kzg::commit(params, &polys[i])) } else { None }).collect();
        let parts: Vec<Option<(Vec<G1>, u64)>> = pieces
            .iter()
            .map(|pc| pc.as_ref().map(|(hs, n)| (hs.iter().map(|h| Kzg::commit(params, h)).collect(), *n)))
            .collect();
        (one, parts)
    });
    let (one, parts) = match committed {
        Ok(x) => x,
        Err(pm) => {
            out.eval("commit:panic", true);
            out.viol(Viol::new(format!("panic:commit:{}", panic_site(&pm)), format!("commit panicked: {pm}"), detail(json!(null))));
            return out;
        }
    };
    let g = G1::generator();
    let store = Store {
        plus_g: one.iter().map(|c| c.map(|c| c + g).unwrap_or_else(G1::identity)).collect(),
        swap_val: (0..p).map(|i| one[(i + 1) % p].unwrap_or_else(G1::identity)).collect(),
        parts_plus_g: parts.iter().map(|pc| pc.as_ref().map(|(cs, _)| cs.iter().map(|c| *c + g).collect()).unwrap_or_default()).collect(),
        one,
        parts,
    };
    if case.fam == Fam::Identical && store.one[0] != store.one[p - 1] {
        out.viol(Viol::new("harness:identical-commitments-differ", "equal polynomials gave different commitments", detail(json!(null))));
        return out;
    }

    // ---- honest claims and the Fiat–Shamir prefix (commitments, then evaluations, canonical order)
    let honest: Vec<QSpec> = queries
        .iter()
        .map(|(i, pt)| QSpec { poly: *i, point: points[*pt], eval: eval_polynomial(&polys[*i], points[*pt]), sel: ComSel::Orig })
        .collect();
    for q in &honest {
        if claim_value(q.poly, q.point) != q.eval {
            out.viol(Viol::new("harness:chopped-recombination", "the recombined polynomial does not evaluate to the chopped claim", detail(json!(null))));
            return out;
        }
    }
    let mut absorb_c: Vec<G1> = vec![];
    for i in 0..p {
        match (&store.one[i], &store.parts[i]) {
            (Some(c), _) => absorb_c.push(*c),
            (_, Some((cs, _))) => absorb_c.extend(cs.iter().copied()),
            _ => unreachable!(),
        }
    }
    let mut absorb_e: Vec<F> = vec![];
    for (i, s) in shape.sets.iter().enumerate() {
        for pt in s {
            absorb_e.push(eval_polynomial(&polys[i], points[*pt]));
        }
    }

    // ---- prover
    let open = |qs: &[(usize, F)]| -> Result<Result<Vec<u8>, PolyError>, String> {
        catch(|| {
            let mut t = T::init();
            absorb(&mut t, &absorb_c, &absorb_e);
            let pq: Vec<ProverQuery<F>> = qs.iter().map(|(i, pt)| ProverQuery::new(*pt, &polys[*i])).collect();
            match Kzg::multi_open(params, &pq, &mut t) {
                Ok(()) => Ok(t.finalize()),
                Err(e) => Err(e),
            }
        })
    };
    let prover_queries: Vec<(usize, F)> = queries.iter().map(|(i, pt)| (*i, points[*pt])).collect();
    let proof = match open(&prover_queries) {
        Err(pm) => {
            out.eval("honest:prover-panic", true);
            out.viol(Viol::new(
                format!("panic:multi_open:{}:{}", if shape.sets.iter().any(|s| s.len() > n_coeffs) { "more-points-than-coefficients".to_string() } else { sclass.clone() }, panic_site(&pm)),
                format!("multi_open panicked on a valid query set: {pm}"),
                detail(json!(null)),
            ));
            return out;
        }
        Ok(Err(e)) => {
            out.eval("honest:prover-error", true);
            out.viol(Viol::new(format!("honest-prover-error:{sclass}"), format!("multi_open returned {e:?} on a valid query set"), detail(json!(null))));
            return out;
        }
        Ok(Ok(b)) => b,
    };
    let gl = g1_bytes(&g).len();
    let nsets = shape.sets.iter().collect::<BTreeSet<_>>().len();
    if proof.len() != 2 * gl + 32 * nsets {
        out.viol(Viol::new(
            "harness:proof-length",
            format!("opening proof has {} bytes, expected {} (f, {nsets} set evaluations, π)", proof.len(), 2 * gl + 32 * nsets),
            detail(json!(null)),
        ));
        return out;
    }

    let round = Round { vp: vparams, st: &store, absorb_c: &absorb_c, absorb_e: &absorb_e };
    out.sample = Some(json!({"shape": shape.name, "order": case.order.name(), "k": k, "family": case.fam.name(), "queries": queries.len(), "point_sets": nsets, "proof_bytes": proof.len()}));

    // ---- the honest round
    let h = round.verify(&honest, &proof);
    out.eval(&format!("honest:{}", h.name()), true);
    match &h {
        Outc::Accept => {
            if matches!(case.fam, Fam::Chopped(_)) {
                out.counter("chopped-honest-accepted", 1);
            }
        }
        Outc::Panic(pm) => {
            out.viol(Viol::new(
                format!("panic:multi_prepare-honest:{}:{}", round.panic_what(&honest, &sclass), panic_site(pm)),
                format!("verification of an honest multi-opening panicked: {pm}"),
                detail(json!(null)),
            ));
            return out;
        }
        o => {
            out.viol(Viol::new(
                format!("honest-rejected:{sclass}"),
                format!("the honest multi-opening proof is rejected ({o:?})"),
                detail(json!(null)),
            ));
            return out;
        }
    }

    // ---- faults, each alone
    let fault = |out: &mut CaseOut, class: &str, key: &str, must_reject: bool, specs: &[QSpec], pf: &[u8], desc: Value| {
        let o = round.verify(specs, pf);
        out.eval(&format!("{class}:{}", o.name()), must_reject);
        match &o {
            Outc::Panic(pm) => out.viol(Viol::new(
                format!("panic:multi_prepare-faulty-input:{}:{}", round.panic_what(specs, class), panic_site(pm)),
                format!("verification panicked on a faulty input ({class}): {pm}"),
                detail(desc),
            )),
            Outc::Accept if must_reject => out.viol(Viol::new(
                format!("accepted:{key}"),
                format!("a wrong claim / altered proof ({class}) was ACCEPTED"),
                detail(desc),
            )),
            _ => {}
        }
    };

    // (1) every claimed evaluation + 1
    for j in 0..honest.len() {
        let mut s = honest.clone();
        s[j].eval += F::ONE;
        fault(&mut out, "eval+1", "eval+1", true, &s, &proof, json!({"query": j, "eval": "+1"}));
    }
    // (2) every point replaced: by a fresh value, by the next point of the shape
    for j in 0..honest.len() {
        let mut alts = vec![("fresh", fresh)];
        if shape.m >= 2 {
            alts.push(("other-point", points[(queries[j].1 + 1) % shape.m]));
        }
        for (how, np) in alts {
            let mut s = honest.clone();
            s[j].point = np;
            // a constant (or zero) polynomial really takes the claimed value at the new point:
            // the claim stays true and no verdict is required
            let still_true = claim_value(s[j].poly, np) == s[j].eval;
            let class = if still_true { "point-replaced(claim-still-true)" } else { "point-replaced" };
            fault(&mut out, class, "point-replaced", !still_true, &s, &proof, json!({"query": j, "point": how, "new_point": fhex(&np)}));
        }
    }
    // (3) every commitment replaced
    for i in 0..p {
        let idx: Vec<usize> = (0..honest.len()).filter(|j| honest[*j].poly == i).collect();
        let with = |sel: ComSel, only: Option<usize>| -> Vec<QSpec> {
            let mut s = honest.clone();
            for j in &idx {
                if only.map_or(true, |o| o == *j) {
                    s[*j].sel = sel;
                }
            }
            s
        };
        if let Some((cs, _)) = &store.parts[i] {
            for l in 0..cs.len() {
                fault(&mut out, "chopped-piece-replaced", "commitment-replaced", true, &with(ComSel::PiecePlusG(l), None), &proof, json!({"poly": i, "piece": l, "commitment": "+G"}));
            }
            fault(&mut out, "chopped-n+1", "commitment-replaced", true, &with(ComSel::NPlus1, None), &proof, json!({"poly": i, "n": "+1"}));
            if cs[0] != cs[1] {
                fault(&mut out, "chopped-pieces-swapped", "commitment-replaced", true, &with(ComSel::PiecesSwapped, None), &proof, json!({"poly": i, "pieces": "0<->1"}));
            }
            continue;
        }
        fault(&mut out, "commitment+G", "commitment-replaced", true, &with(ComSel::PlusG, None), &proof, json!({"poly": i, "commitment": "+G on all its queries"}));
        if idx.len() > 1 {
            fault(&mut out, "commitment+G-one-query", "commitment-replaced", true, &with(ComSel::PlusG, Some(idx[0])), &proof, json!({"poly": i, "commitment": "+G on its first query only"}));
        }
        let other = (i + 1) % p;
        if other != i && store.one[other].is_some() {
            // is "polynomial `other` takes polynomial i's claimed values" false somewhere?
            let wrong = idx.iter().any(|j| eval_polynomial(&polys[other], honest[*j].point) != honest[*j].eval);
            if wrong {
                fault(&mut out, "commitment-swapped-value", "commitment-replaced", true, &with(ComSel::SwapVal, None), &proof, json!({"poly": i, "commitment": format!("value of poly {other}'s")}));
                fault(&mut out, "commitment-swapped-reference", "commitment-replaced", true, &with(ComSel::RefOf(other), None), &proof, json!({"poly": i, "commitment": format!("reference of poly {other}'s")}));
            } else {
                out.count("commitment-swap-skipped(claim-still-true)", 1);
            }
        }
    }
    // (4) proof elements: f, every set evaluation, π; length
    {
        let mut rd = T::init_from_bytes(&proof);
        let f_com: G1 = rd.read().expect("f");
        let mut pf = proof.clone();
        pf[..gl].copy_from_slice(&g1_bytes(&(f_com + g)));
        fault(&mut out, "proof:f+G", "proof-element-mutated", true, &honest, &pf, json!({"element": "f", "mutation": "+G"}));
        for s in 0..nsets {
            let off = gl + 32 * s;
            let mut repr = <F as PrimeField>::Repr::default();
            repr.as_mut().copy_from_slice(&proof[off..off + 32]);
            let v: F = Option::from(F::from_repr(repr)).expect("scalar in proof");
            let mut pf = proof.clone();
            pf[off..off + 32].copy_from_slice((v + F::ONE).to_repr().as_ref());
            fault(&mut out, "proof:q-eval+1", "proof-element-mutated", true, &honest, &pf, json!({"element": format!("q_eval[{s}]"), "mutation": "+1"}));
        }
        let off = gl + 32 * nsets;
        let mut rd = T::init_from_bytes(&proof[off..]);
        let pi: G1 = rd.read().expect("pi");
        let mut pf = proof.clone();
        pf[off..].copy_from_slice(&g1_bytes(&(pi + g)));
        fault(&mut out, "proof:pi+G", "proof-element-mutated", true, &honest, &pf, json!({"element": "pi", "mutation": "+G"}));
        let mut pf = proof.clone();
        pf.pop();
        fault(&mut out, "proof:truncated", "proof-truncated", true, &honest, &pf, json!({"proof": "last byte dropped"}));
        let mut pf = proof.clone();
        pf.push(0);
        fault(&mut out, "proof:trailing-byte", "proof-trailing-byte", true, &honest, &pf, json!({"proof": "one byte appended"}));
    }
    // (5) the verifier lists the same queries in another order (recorded, see note in main)
    {
        let mut perms: Vec<(&str, Vec<QSpec>)> = vec![];
        let mut r = honest.clone();
        r.reverse();
        perms.push(("reversed", r));
        let mut r = honest.clone();
        r.rotate_left(1);
        perms.push(("rotated", r));
        if honest.len() >= 2 {
            let mut r = honest.clone();
            r.swap(0, 1);
            perms.push(("swap01", r));
        }
        let same = |a: &[QSpec], b: &[QSpec]| a.iter().zip(b).all(|(x, y)| x.poly == y.poly && x.point == y.point);
        let mut done: Vec<Vec<QSpec>> = vec![honest.clone()];
        for (name, s) in perms {
            if done.iter().any(|d| same(d, &s)) {
                continue;
            }
            let o = round.verify(&s, &proof);
            out.eval(&format!("verifier-order-permuted:{}", o.name()), false);
            match &o {
                Outc::Accept => out.counter("perm-accepted", 1),
                Outc::Panic(pm) => out.viol(Viol::new(
                    format!("panic:multi_prepare-faulty-input:{}:{}", round.panic_what(&s, "permuted"), panic_site(pm)),
                    format!("verification panicked on permuted queries: {pm}"),
                    detail(json!({"permutation": name})),
                )),
                _ => out.counter("perm-rejected", 1),
            }
            done.push(s);
        }
    }
    // (6) a repeated (commitment, point) pair must be refused with Error::DuplicatedQuery
    {
        let last = honest.len() - 1;
        let mut variants: Vec<(&str, usize, bool, bool)> = vec![("dup-first-appended", 0, false, false), ("dup-first-appended-eval+1", 0, false, true)];
        if last > 0 {
            variants.push(("dup-last-in-front", last, true, false));
        }
        for (name, j, front, bump) in variants {
            // verifier side
            let mut s = honest.clone();
            let mut d = honest[j].clone();
            if bump {
                d.eval += F::ONE;
            }
            if front {
                s.insert(0, d);
            } else {
                s.push(d);
            }
            let o = round.verify(&s, &proof);
            out.eval(&format!("duplicate-verifier:{}", o.name()), true);
            match &o {
                Outc::RejectDup => out.counter("dup-refused-verifier", 1),
                Outc::Panic(pm) => out.viol(Viol::new(
                    format!("panic:multi_prepare-faulty-input:{}:{}", round.panic_what(&s, "duplicate"), panic_site(pm)),
                    format!("multi_prepare panicked on a duplicated query: {pm}"),
                    detail(json!({"duplicate": name})),
                )),
                o => out.viol(Viol::new(
                    "duplicate-query-not-refused:verifier",
                    format!("multi_prepare did not return DuplicatedQuery for a repeated (commitment, point) pair: {o:?}"),
                    detail(json!({"duplicate": name})),
                )),
            }
            // prover side
            if bump {
                continue;
            }
            let mut pq = prover_queries.clone();
            if front {
                pq.insert(0, prover_queries[j]);
            } else {
                pq.push(prover_queries[j]);
            }
            match open(&pq) {
                Ok(Err(PolyError::DuplicatedQuery)) => {
                    out.eval("duplicate-prover:refused", true);
                    out.counter("dup-refused-prover", 1);
                }
                Ok(r) => {
                    out.eval("duplicate-prover:not-refused", true);
                    out.viol(Viol::new(
                        "duplicate-query-not-refused:prover",
                        format!("multi_open did not return DuplicatedQuery for a repeated (polynomial, point) pair: {:?}", r.map(|b| b.len())),
                        detail(json!({"duplicate": name})),
                    ));
                }
                Err(pm) => {
                    out.eval("duplicate-prover:panic", true);
                    out.viol(Viol::new(
                        format!("panic:multi_open-duplicate:{}", panic_site(&pm)),
                        format!("multi_open panicked on a duplicated query: {pm}"),
                        detail(json!({"duplicate": name})),
                    ));
                }
            }
        }
    }
    out
}

thread_local! {
    /// One single-thread rayon pool per worker thread: the subject's `parallelize` /
    /// `eval_polynomial` then run inline on the case's own thread instead of queueing on a
    /// shared global pool.
    static POOL: rayon::ThreadPool = rayon::ThreadPoolBuilder::new().num_threads(1).build().expect("rayon pool");
}

fn main() {
    let mut cx = Ctx::from_args("C14", Level::FaultEnumeration);
    vcore::pin_global_rayon(1);
    cx.set_rule(
        "query-set shapes (each of p polynomials -> non-empty subset of m points, every point used): ALL shapes \
         with p<=3 (quick) / p<=4 (thorough), m<=3, in every distinct query order {by-poly, by-point, reversed}, \
         plus 7 hand-listed larger shapes (up to 12 polynomials / 5 points, PLONK rotation pattern x, wx, w^-1 x, \
         w^(n/2) x). Every (shape, order) with the seeded-random family at k=2 and with 1 (quick) / 2 (thorough) further (family, k) \
         combinations from {rand, zero-const, const-zero, identical, chopped2, chopped3, chopped4} x k in {2,4,7} \
         assigned round-robin (all combinations for the large shapes). One case = honest round + every single \
         fault: each claimed evaluation +1; each query point -> fresh value / next point of the shape; each \
         commitment -> C+G (all its queries / one query), value or reference of the next polynomial's \
         commitment; each chopped piece +G, n+1, pieces swapped; f+G, each q_eval+1, pi+G, truncated proof, \
         trailing byte; a repeated (commitment, point) pair on the prover and on the verifier side; \
         verifier-only query permutations (recorded). An evaluation is counted non-trivial when the faulty \
         claim is really false (or it is the honest round / a duplicate); point replacements on constant \
         polynomials (claim still true) and permutations are counted trivial.",
    );
    cx.assume("the Fiat-Shamir state before the opening absorbs the prover's commitments and evaluations (as plonk does); the verifier's faulty claims are fixed after the proof, so acceptance of a false claim would need a challenge collision");
    cx.assume("prover and verifier list the queries in the same order (the x1/x2 power assignment of multi_open/multi_prepare follows first appearance); verifier-only permutations are recorded, not required to verify");
    cx.assume("chopped commitments follow the implemented convention sum_l (x^(n-1))^l [h_l] of CommitmentReference::as_terms / vanishing::prover (the doc comment of as_terms says x^(n*l))");
    let seed = cx.seed;
    let thorough = cx.tier.is_thorough();

    let mut env = Env { seed, params: HashMap::new() };
    for k in [2u32, 4, 7] {
        let p = setup(k, seed);
        let vp = p.verifier_params();
        env.params.insert(k, (p, vp));
    }

    let orders = [Order::ByPoly, Order::ByPoint, Order::Reversed];
    let all_fams = [Fam::Rand, Fam::SpecialA, Fam::SpecialB, Fam::Identical, Fam::Chopped(2), Fam::Chopped(3), Fam::Chopped(4)];
    // (family, k) combinations handed out round-robin on top of (rand, k=2)
    let mut extra: Vec<(Fam, u32)> = vec![];
    for k in [2u32, 4, 7] {
        for f in all_fams {
            if !(f == Fam::Rand && k == 2) {
                extra.push((f, k));
            }
        }
    }
    // interleave so that neighbouring shapes get different families and sizes
    let extra: Vec<(Fam, u32)> = (0..extra.len()).map(|i| extra[(i * 7) % extra.len()]).collect();
    let extras_per = cx.tier.pick(1usize, 2usize);

    let distinct_orders = |s: &Shape| -> Vec<Order> {
        let mut seen: Vec<Vec<(usize, usize)>> = vec![];
        let mut v = vec![];
        for o in orders {
            let q = ordered(s, o);
            if !seen.contains(&q) {
                seen.push(q);
                v.push(o);
            }
        }
        v
    };

    // ---- small shapes
    let shapes = small_shapes(cx.tier.pick(3, 4), 3);
    let mut cases: Vec<(String, Case)> = vec![];
    let mut rr = 0usize;
    for s in &shapes {
        for o in distinct_orders(s) {
            let mut combos = vec![(Fam::Rand, 2u32)];
            let mut tried = 0;
            while combos.len() < 1 + extras_per && tried < extra.len() {
                let c = extra[rr % extra.len()];
                rr += 1;
                tried += 1;
                if c.0.applicable(s) && !combos.contains(&c) {
                    combos.push(c);
                }
            }
            for (f, k) in combos {
                cases.push((format!("{}/{}/k{k}/{}", s.name, o.name(), f.name()), Case { shape: s.clone(), order: o, k, fam: f }));
            }
        }
    }
    let nshapes = shapes.len();
    cx.extra("small_shapes", json!(nshapes));
    let body = |c: &Case, key: &str| POOL.with(|pool| pool.install(|| run_case(&env, c, key)));
    let keyed: Vec<(String, (String, Case))> = cases.into_iter().map(|(k, c)| (k.clone(), (k, c))).collect();
    cx.run_cases("small-shapes", &keyed, |(key, c)| body(c, key));

    // ---- large shapes: all families, all k (quick: k in {2,7})
    let mut cases: Vec<(String, (String, Case))> = vec![];
    for s in large_shapes() {
        for o in distinct_orders(&s) {
            for k in if thorough { vec![2u32, 4, 7] } else { vec![2u32, 7] } {
                for f in all_fams {
                    if f.applicable(&s) {
                        let key = format!("{}/{}/k{k}/{}", s.name, o.name(), f.name());
                        cases.push((key.clone(), (key, Case { shape: s.clone(), order: o, k, fam: f })));
                    }
                }
            }
        }
    }
    cx.run_cases("large-shapes", &cases, |(key, c)| body(c, key));

    // ---- anti-vacuity
    let sum = |cx: &Ctx, suffix: &str| -> u64 { ["small-shapes", "large-shapes"].iter().map(|g| cx.class_count(&format!("{g}:{suffix}"))).sum() };
    let honest_ok = sum(&cx, "honest:accept");
    let rejected = sum(&cx, "eval+1:reject-pairing");
    cx.require(honest_ok > 0, "no honest multi-opening was accepted");
    cx.require(rejected > 0, "no wrong evaluation was rejected by the pairing check");
    cx.require(cx.counter_value("chopped-honest-accepted") > 0, "no honest chopped-commitment opening was accepted");
    cx.require(cx.counter_value("dup-refused-verifier") > 0 && cx.counter_value("dup-refused-prover") > 0, "a duplicated query was never refused");
    cx.require(cx.counter_value("perm-accepted") > 0, "no verifier-side permutation was accepted");
    cx.require(sum(&cx, "point-replaced:reject-pairing") + sum(&cx, "point-replaced:reject-duplicated-query") > 0, "point replacement never exercised");
    cx.require(sum(&cx, "commitment+G:reject-pairing") > 0, "commitment replacement never exercised");
    cx.require(sum(&cx, "proof:pi+G:reject-pairing") > 0, "proof mutation never exercised");
    let (pa, pr) = (cx.counter_value("perm-accepted"), cx.counter_value("perm-rejected"));
    cx.note(format!(
        "verifier-only query permutations: {pa} accepted, {pr} rejected. multi_open/multi_prepare assign the x1 powers \
         (inside a point set) and x2 powers (across sets) by first appearance in the query list, so both sides must list \
         the queries in the same order; the trait documentation speaks of 'a set of queries' but promises no order \
         independence, hence a rejected permutation is recorded and not reported as a violation."
    ));
    cx.note("CommitmentReference::as_terms combines chopped pieces with powers of x^(n-1) (matching vanishing::prover::evaluate) while its doc comment says x^(n*i); the check follows the implementation.");
    cx.finish()
}
