//! C02 — the verifier enforces every constraint class and agrees with the mock checker.
//!
//! For every circuit of the family, every assigned advice cell and every instance cell, each
//! fault of {+1, set 0, swap with the next assigned cell, seeded random} is injected before
//! proving. Three verdicts per case: V (real create_proof + prepare + verify), M
//! (`MockProver::verify`), R (vfam's independent row evaluator). Required: V = R and V = M.

use std::collections::{BTreeMap, BTreeSet};
use std::sync::Mutex;

use ff::{Field, PrimeField};
use midnight_proofs::{
    circuit::SimpleFloorPlanner,
    dev::{CellValue, MockProver},
    verif::Fault,
};
use serde_json::json;
use vcore::{CaseOut, Ctx, Level, Viol};
use vfam::{
    api::{self, BlakeT, PoseidonT},
    fam::{CellId, Fam, FamParams, F, ILEN},
    lattice::{self, Config, Hash, Wit},
    roweval::{self, Class},
};

mod edge;

type Pl = SimpleFloorPlanner;

#[derive(Clone, Debug)]
enum Target {
    /// advice cell of proof `proof`
    Cell { proof: usize, cell: CellId, fault: Fault, fname: &'static str, swap_with: Option<(CellId, Fault)> },
    /// instance cell of proof `proof`
    Inst { proof: usize, col: usize, row: usize, fault: Fault, fname: &'static str },
    /// no fault at all (anti-vacuity baseline), with a given blinding seed
    Honest { blind: u64 },
}

#[derive(Clone, Debug)]
struct Case {
    cfg: Config,
    target: Target,
}

fn limbs(x: &F) -> [u64; 4] {
    let r = x.to_repr();
    let b = r.as_ref();
    let mut l = [0u64; 4];
    for i in 0..4 {
        l[i] = u64::from_le_bytes(b[8 * i..8 * i + 8].try_into().unwrap());
    }
    l
}

fn subsets() -> Vec<FamParams> {
    let mut v = vec![];
    for m in 0u32..128 {
        let b = |i: u32| (m >> i) & 1 == 1;
        v.push(FamParams {
            gate_deg: if b(0) { 1 + (m % 4) as u8 } else { 0 },
            rot: b(1),
            lookup: b(2),
            lookup_any: b(3),
            copy_adv: b(4),
            copy_inst: b(4),
            copy_const: b(4),
            inst_query: b(5),
            trash: b(6),
            unblinded: m % 3 == 0,
            phases: 1 + (m % 3) as u8,
            n_inst: 1 + (m % 2) as u8,
            rows: 1 + (m % 3) as u8,
            fx_tweak: 0,
            rot_first: m % 5 == 2,
            lookup_nz: m % 4 == 1,
            copy_dup: m % 3 == 1,
        });
    }
    v
}

fn verdict_real(cfg: &Config, circuits: &[Fam<Pl>], instances: &[Vec<Vec<F>>], seed: u64, blind: u64) -> Result<bool, String> {
    let (params, pk) = lattice::keys(&cfg.p, false, cfg.k, seed)?;
    let proof = match cfg.hash {
        Hash::Blake2b => api::prove::<BlakeT, _>(&params, &pk, circuits, cfg.nb_committed, instances, blind),
        Hash::Poseidon => api::prove::<PoseidonT, _>(&params, &pk, circuits, cfg.nb_committed, instances, blind),
    };
    let proof = match proof {
        Ok(p) => p,
        // a prover-side error (e.g. a lookup input that is not in the table) counts as reject
        Err(_) => return Ok(false),
    };
    let (committed, plain) = api::split_instances(&params, pk.get_vk(), cfg.nb_committed, instances);
    Ok(lattice::verify_with(cfg.hash, &params, pk.get_vk(), &committed, &plain, &proof).accepted())
}

fn main() {
    let mut cx = Ctx::from_args("C02", Level::FaultEnumeration);
    vcore::pin_global_rayon(1);
    cx.set_rule(
        "circuits of Fam(p) x every assigned advice cell (as logged by a dry synthesis) and every \
         instance cell x fault in {+1, set 0, swap with next assigned cell, seeded random}, injected \
         before proving, in each proof position for num_proofs=2; plus fault-free rounds under \
         different blinding seeds and with randomised blinding rows on the mock side. Three verdicts \
         per case: real verifier V, MockProver M, independent row evaluator R; a case is non-trivial \
         when the fault changes the value; keys are unique (config/proof/cell/fault).",
    );
    cx.assume("knowledge soundness of PLONK/KZG is assumed: 'rejected' means the real verifier returned Err for the proof the real prover produced from the faulty assignment");
    let seed = cx.seed;
    let thorough = cx.tier.is_thorough();

    // ---- circuits
    let mut cfgs: Vec<Config> = vec![];
    let mk = |p: FamParams, np: usize, nb_c: usize, hash: Hash| Config { p, v1: false, num_proofs: np, nb_committed: nb_c, k: 0, hash, wit: Wit::Seeded(0) };
    cfgs.push(mk(FamParams::rich(3, 2), 1, 0, Hash::Blake2b));
    cfgs.push(mk(FamParams::rich(1, 1), 2, 0, Hash::Poseidon));
    cfgs.push(mk(FamParams::rich(2, 3), 1, 1, Hash::Blake2b));
    let subs = subsets();
    for (i, p) in subs.iter().enumerate() {
        if thorough || i % 8 == 5 {
            cfgs.push(mk(p.clone(), 1, 0, Hash::Blake2b));
        }
        if thorough && i % 4 == 1 {
            cfgs.push(mk(p.clone(), 2, (i % 2).min(p.n_inst as usize), Hash::Blake2b));
        }
    }
    // resolve k
    let mut resolved = vec![];
    for mut c in cfgs {
        if let Some(k) = lattice::min_k(&c.p, false, seed) {
            c.k = k;
            resolved.push(c);
        }
    }

    // ---- enumerate cases
    let mut cases: Vec<(String, Case)> = vec![];
    for cfg in &resolved {
        // dry synthesis to list the assigned cells and their honest values
        let (circ, inst) = lattice::honest::<Pl>(cfg, 0, seed);
        let _ = MockProver::run(cfg.k, &circ, inst.clone()).expect("dry run");
        let cells = circ.logged_cells();
        for blind in [1u64, 2, 3] {
            cases.push((format!("{}/honest/blind{blind}", cfg.key()), Case { cfg: cfg.clone(), target: Target::Honest { blind } }));
        }
        for proof in 0..cfg.num_proofs {
            for (i, (cell, _)) in cells.iter().enumerate() {
                for (fname, fault) in [("+1", Fault::Add(1)), ("zero", Fault::Set([0; 4])), ("random", Fault::Random(seed ^ (i as u64) << 8))] {
                    cases.push((
                        format!("{}/p{proof}/{}.{}[{}]/{fname}", cfg.key(), cell.0, cell.1, cell.2),
                        Case { cfg: cfg.clone(), target: Target::Cell { proof, cell: *cell, fault, fname, swap_with: None } },
                    ));
                }
                // swap with the next assigned first-phase cell (values known in every phase)
                let first_phase = |c: &CellId| c.1 != "d" && c.1 != "e";
                if first_phase(cell) {
                    if let Some((other, Some(ov))) = cells.iter().skip(i + 1).find(|(c, v)| first_phase(c) && v.is_some()) {
                        // honest values of the proof being attacked may differ from proof 0's: recompute below
                        let _ = ov;
                        cases.push((
                            format!("{}/p{proof}/{}.{}[{}]/swap", cfg.key(), cell.0, cell.1, cell.2),
                            Case { cfg: cfg.clone(), target: Target::Cell { proof, cell: *cell, fault: Fault::Add(0), fname: "swap", swap_with: Some((*other, Fault::Add(0))) } },
                        ));
                    }
                }
            }
            for col in 0..cfg.p.n_inst as usize {
                for row in 0..ILEN {
                    for (fname, fault) in [("+1", Fault::Add(1)), ("zero", Fault::Set([0; 4])), ("random", Fault::Random(seed ^ 77))] {
                        cases.push((
                            format!("{}/p{proof}/inst{col}[{row}]/{fname}", cfg.key()),
                            Case { cfg: cfg.clone(), target: Target::Inst { proof, col, row, fault, fname } },
                        ));
                    }
                }
            }
        }
    }

    let singleton_classes: Mutex<BTreeMap<String, u64>> = Mutex::new(BTreeMap::new());
    cx.run_cases("faults", &cases, |case| {
        let cfg = &case.cfg;
        let mut out = CaseOut::batch();
        let r = vcore::catch(|| -> Result<(bool, bool, Vec<Class>, bool, Option<Vec<String>>, bool), String> {
            // build the circuits and instances of all proofs
            let mut circuits = vec![];
            let mut instances = vec![];
            for idx in 0..cfg.num_proofs {
                let (c, i) = lattice::honest::<Pl>(cfg, idx, seed);
                circuits.push(c);
                instances.push(i);
            }
            let mut blind = 7u64;
            let mut changed = true;
            let attacked = match &case.target {
                Target::Honest { blind: b } => {
                    blind = *b;
                    0
                }
                Target::Cell { proof, cell, fault, swap_with, .. } => {
                    let mut ov = vec![];
                    if let Some((other, _)) = swap_with {
                        // honest values of this proof's circuit
                        let _ = MockProver::run(cfg.k, &circuits[*proof], instances[*proof].clone()).map_err(|e| format!("{e:?}"))?;
                        let vals: BTreeMap<CellId, Option<F>> = circuits[*proof].logged_cells().into_iter().collect();
                        let (a, b) = (vals[cell].unwrap(), vals[other].unwrap());
                        changed = a != b;
                        ov.push((*cell, Fault::Set(limbs(&b))));
                        ov.push((*other, Fault::Set(limbs(&a))));
                    } else {
                        ov.push((*cell, fault.clone()));
                    }
                    circuits[*proof] = circuits[*proof].clone().with_overrides(ov);
                    *proof
                }
                Target::Inst { proof, col, row, fault, .. } => {
                    let old = instances[*proof][*col][*row];
                    let new = midnight_proofs::verif::apply_fault(fault, old);
                    changed = new != old;
                    instances[*proof][*col][*row] = new;
                    // NB: the circuit keeps the prover's original view of the instance (its
                    // witness was made for the old statement); only the statement changes.
                    *proof
                }
            };
            // M and R on the attacked proof's circuit
            let mut mock = MockProver::run(cfg.k, &circuits[attacked], instances[attacked].clone()).map_err(|e| format!("mock run: {e:?}"))?;
            if let Target::Honest { blind } = &case.target {
                // randomise the blinding rows on the mock side: must not matter
                let usable = mock.usable_rows().clone();
                let n = mock.advice()[0].len();
                let mut rng = vcore::rng_for(*blind, "mock-blinding");
                for col in mock.advice_mut().iter_mut() {
                    for cell in col.iter_mut().take(n).skip(usable.end) {
                        *cell = CellValue::Assigned(F::random(&mut rng));
                    }
                }
            }
            let mres = mock.verify();
            let m = mres.is_ok();
            let m_reasons = mres.err().map(|v| v.iter().map(|f| format!("{f:?}").chars().take(60).collect::<String>()).collect::<Vec<_>>());
            let classes = if matches!(case.target, Target::Honest { .. }) {
                // R reads blinding rows as poisoned; evaluate it on an untouched mock
                let clean = MockProver::run(cfg.k, &circuits[attacked], instances[attacked].clone()).map_err(|e| format!("{e:?}"))?;
                roweval::violated_classes(&clean)
            } else {
                roweval::violated_classes(&mock)
            };
            let v = verdict_real(cfg, &circuits, &instances, seed, blind)?;
            // independent evaluation of the copy constraints the family declares by construction:
            // honest values from the cell log (first-phase cells only), overrides applied on top
            let logged: BTreeMap<CellId, Option<F>> = circuits[attacked].logged_cells().into_iter().collect();
            let value_of = |c: &CellId| -> Option<F> {
                let honest = (*logged.get(c)?)?;
                Some(match circuits[attacked].overrides.iter().find(|(id, _)| id == c) {
                    Some((_, f)) => midnight_proofs::verif::apply_fault(f, honest),
                    None => honest,
                })
            };
            let mut tie_broken = false;
            for (cell, tie) in vfam::fam::ties(&cfg.p) {
                let Some(a) = value_of(&cell) else { continue };
                let b = match tie {
                    vfam::fam::Tie::Cell(o) => value_of(&o),
                    vfam::fam::Tie::Inst(col, row) => Some(instances[attacked][col][row]),
                    vfam::fam::Tie::Const(c) => Some(c),
                };
                if let Some(b) = b {
                    tie_broken |= a != b;
                }
            }
            Ok((v, m, classes, changed, m_reasons, tie_broken))
        });
        let (v, m, classes, changed, m_reasons, tie_broken) = match r {
            Err(p) => {
                out.eval("panic", true);
                out.viol(Viol::new(format!("panic:{}", vcore::panic_site(&p)), format!("panicked: {p}"), json!({})));
                return out;
            }
            Ok(Err(e)) => {
                out.eval("harness-error", false);
                out.viol(Viol::new("harness:error", e, json!({})));
                return out;
            }
            Ok(Ok(t)) => t,
        };
        let r_ok = classes.is_empty();
        let cls: Vec<String> = classes.iter().map(|c| c.short()).collect();
        out.eval(if v { "accepted" } else { "rejected" }, changed);
        if classes.iter().any(|c| matches!(c, Class::Poisoned(_))) {
            out.viol(Viol::new("harness:poisoned-row-read", "an enabled constraint of the family reads a blinding row", json!({"classes": cls})));
            return out;
        }
        if classes.len() == 1 {
            // class name without the gate instance name details
            *singleton_classes.lock().unwrap().entry(cls[0].clone()).or_default() += 1;
        }
        let kind = |cl: &Vec<String>| {
            let mut k: BTreeSet<String> = cl.iter().map(|c| c.split(':').next().unwrap().to_string()).collect();
            if k.is_empty() {
                k.insert("none".into());
            }
            k.into_iter().collect::<Vec<_>>().join("+")
        };
        if tie_broken && v {
            out.viol(Viol::new("verifier-accepts-broken-copy-tie", "two cells the circuit ties with a copy constraint hold different values, yet the real verifier accepts (declared ties are evaluated independently of the permutation assembly)".to_string(), json!({"reference_classes": cls, "mock_ok": m})));
        }
        if tie_broken {
            out.counter("cases_with_broken_declared_tie", 1);
        }
        if v != r_ok {
            let key = if v { format!("verifier-accepts-violated:{}", kind(&cls)) } else { "verifier-rejects-satisfied".to_string() };
            out.viol(Viol::new(key, format!("real verifier verdict {} but the reference evaluator says violated classes = {:?}", if v { "ACCEPT" } else { "REJECT" }, cls), json!({"classes": cls, "mock_ok": m})));
        }
        if v != m {
            // construction lints of MockProver are not statements about the assignment
            if let Some(reasons) = &m_reasons {
                if reasons.iter().all(|r| r.starts_with("CellNotAssigned") || r.starts_with("ConstraintPoisoned") || r.starts_with("InstanceCellNotAssigned")) {
                    out.viol(Viol::new("harness:mock-lint-only", format!("MockProver fails only with construction lints {reasons:?}"), json!({})));
                    return out;
                }
            }
            let key = if m { format!("mock-accepts-verifier-rejects:{}", kind(&cls)) } else { format!("mock-rejects-verifier-accepts:{}", kind(&cls)) };
            out.viol(Viol::new(key, format!("MockProver::verify is {} but the real verifier {} (reference evaluator: {:?})", if m { "Ok" } else { "Err" }, if v { "accepts" } else { "rejects" }, cls), json!({"classes": cls})));
        }
        out.sample = Some(json!({"verifier": v, "mock": m, "reference_violated": cls}));
        out
    });

    // ---- a constraint that lands on the first unusable row (see edge.rs)
    {
        let k = 4u32;
        let u = edge::usable_rows(k);
        let counter = |n: usize| (0..n as u64).collect::<Vec<u64>>();
        let mut broken = counter(u);
        broken[3] += 5;
        let ecases: Vec<(String, (edge::EdgeRow, bool))> = vec![
            ("edge:flag-mid-row:consistent".into(), (edge::EdgeRow { values: counter(u), flag_rows: vec![2] }, true)),
            ("edge:flag-every-row-but-last:consistent".into(), (edge::EdgeRow { values: counter(u), flag_rows: (0..u - 1).collect() }, true)),
            ("edge:flag-mid-row:broken-counter".into(), (edge::EdgeRow { values: broken, flag_rows: vec![2] }, false)),
            ("edge:flag-on-last-usable-row".into(), (edge::EdgeRow { values: counter(u), flag_rows: vec![u - 1] }, false)),
            ("edge:flag-on-last-two-usable-rows".into(), (edge::EdgeRow { values: counter(u), flag_rows: vec![u - 2, u - 1] }, false)),
        ];
        cx.run_cases("edge-row", &ecases, |(c, expect_sat)| {
            let mut out = CaseOut::one(if *expect_sat { "edge:satisfied" } else { "edge:violated" }, true);
            match edge::verdicts(c, k, seed, 11) {
                Err(e) => out.viol(Viol::new("harness:edge-row", e, json!({}))),
                Ok(vd) => {
                    let r_sat = vd.r_classes.is_empty();
                    if vd.v != r_sat {
                        let key = if vd.v { "verifier-accepts-violated:edge-row" } else { "verifier-rejects-satisfied:edge-row" };
                        out.viol(Viol::new(key, format!("real verifier {} but the reference evaluator says violated classes = {:?}", if vd.v { "accepts" } else { "rejects" }, vd.r_classes), json!({"flag_rows": c.flag_rows})));
                    }
                    if vd.m != vd.v {
                        let key = if vd.m { "mock-accepts-verifier-rejects:edge-row" } else { "mock-rejects-verifier-accepts:edge-row" };
                        out.viol(Viol::new(
                            key,
                            format!("MockProver::verify is {} but the real verifier {} for a flag read at the previous row set on rows {:?} ({} usable rows)", if vd.m { "Ok" } else { "Err" }, if vd.v { "accepts" } else { "rejects" }, c.flag_rows, u),
                            json!({"flag_rows": c.flag_rows, "reference_classes": vd.r_classes}),
                        ));
                    }
                    if vd.v != *expect_sat {
                        out.viol(Viol::new("harness:edge-row-expectation", format!("expected satisfied = {expect_sat}, real verifier accepts = {}", vd.v), json!({})));
                    }
                    out.sample = Some(json!({"flag_rows": c.flag_rows, "verifier": vd.v, "mock": vd.m, "reference_violated": vd.r_classes}));
                }
            }
            out
        });
    }

    // ---- anti-vacuity: every constraint class must have been the *only* violated class of some case
    let sc = singleton_classes.into_inner().unwrap();
    cx.extra("singleton_violation_classes", json!(sc));
    for need in ["gate:main", "gate:rot", "gate:ub", "gate:p2", "gate:p3", "gate:iq", "lookup:lk", "lookup:la", "copy:adv-adv", "copy:adv-inst", "copy:adv-const"] {
        cx.require(sc.contains_key(need), &format!("no fault was rejected only because of class {need}"));
    }
    cx.require(sc.keys().any(|k| k.starts_with("trash:")), "no fault violated only a trash constraint");
    let acc = cx.class_count("faults:accepted");
    let rej = cx.class_count("faults:rejected");
    cx.require(acc > 0 && rej > 0, "both accepted and rejected cases are needed");
    cx.finish()
}
