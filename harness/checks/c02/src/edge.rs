//! A constraint enabled by a flag read at the *previous* row.
//!
//! `fl(prev) * (a(cur) - a(prev) - 1) = 0`: a flag set on row i puts a constraint on row i + 1.
//! Set on the last usable row, the constraint lands on the first row the prover blinds with
//! randomness: the real proof is rejected, and the mock checker must say so too (it evaluates the
//! gates on the blinding rows as well, reading their cells as poisoned). Three placements are
//! judged by the three verdicts V (real prove + verify), M (MockProver), R (row evaluator):
//! flag in the middle with a consistent counter (satisfied), flag in the middle with a broken
//! counter (violated), flag on the last usable row (violated).

use ff::Field;
use midnight_proofs::{
    circuit::{Layouter, SimpleFloorPlanner, Value},
    dev::MockProver,
    plonk::{Advice, Circuit, Column, ConstraintSystem, Constraints, Error, Fixed},
    poly::Rotation,
};
use vfam::{
    api::{self, BlakeT},
    fam::F,
    roweval,
};

#[derive(Clone, Debug)]
pub struct EdgeRow {
    /// a[i] for rows 0..len
    pub values: Vec<u64>,
    pub flag_rows: Vec<usize>,
}

#[derive(Clone, Debug)]
pub struct EdgeCfg {
    a: Column<Advice>,
    fl: Column<Fixed>,
}

impl Circuit<F> for EdgeRow {
    type Config = EdgeCfg;
    type FloorPlanner = SimpleFloorPlanner;
    type Params = ();

    fn without_witnesses(&self) -> Self {
        self.clone()
    }

    fn configure(meta: &mut ConstraintSystem<F>) -> EdgeCfg {
        let a = meta.advice_column();
        let fl = meta.fixed_column();
        meta.create_gate("step-after-flag", |m| {
            let f_prev = m.query_fixed(fl, Rotation::prev());
            let a_prev = m.query_advice(a, Rotation::prev());
            let a_cur = m.query_advice(a, Rotation::cur());
            Constraints::without_selector(vec![("step", f_prev * (a_cur - a_prev - midnight_proofs::plonk::Expression::Constant(F::ONE)))])
        });
        EdgeCfg { a, fl }
    }

    fn synthesize(&self, cfg: EdgeCfg, mut layouter: impl Layouter<F>) -> Result<(), Error> {
        layouter.assign_region(
            || "edge",
            |mut region| {
                for (i, v) in self.values.iter().enumerate() {
                    region.assign_advice(|| "a", cfg.a, i, || Value::known(F::from(*v)))?;
                }
                for r in &self.flag_rows {
                    region.assign_fixed(|| "fl", cfg.fl, *r, || Value::known(F::ONE))?;
                }
                Ok(())
            },
        )
    }
}

/// Number of usable rows at `k` for this constraint system.
pub fn usable_rows(k: u32) -> usize {
    let mut cs = ConstraintSystem::<F>::default();
    let _ = EdgeRow::configure(&mut cs);
    (1usize << k) - (cs.blinding_factors() + 1)
}

pub struct Verdicts {
    pub v: bool,
    pub m: bool,
    pub r_classes: Vec<String>,
}

pub fn verdicts(c: &EdgeRow, k: u32, seed: u64, blind: u64) -> Result<Verdicts, String> {
    let mock = MockProver::run(k, c, vec![]).map_err(|e| format!("mock run: {e:?}"))?;
    let m = mock.verify().is_ok();
    let r_classes: Vec<String> = roweval::violated_classes(&mock).iter().map(|c| c.short()).collect();
    let params = api::setup(k, seed);
    let pk = api::keygen(&params, c, k).map_err(|e| format!("keygen: {e:?}"))?;
    let v = match api::prove::<BlakeT, _>(&params, &pk, std::slice::from_ref(c), 0, &[vec![]], blind) {
        Err(_) => false,
        Ok(proof) => api::verify::<BlakeT>(&params.verifier_params(), pk.get_vk(), &[vec![]], &[vec![]], &proof).accepted(),
    };
    Ok(Verdicts { v, m, r_classes })
}
