//! C05 — foreign-field and big-integer gadgets are complete and sound.

mod bops;
mod common;
mod dec;
mod fops;

use std::{collections::HashMap, sync::Mutex};

use bops::BOp;
use common::*;
use dec::*;
use fops::{Cons, FOp, Fld, Step};
use midnight_circuits::{
    biguint::AssignedBigUint,
    field::foreign::{params::MultiEmulationParams as MEP, AssignedField},
    types::Instantiable,
    CircuitField,
};
use midnight_proofs::{circuit::Layouter, plonk::Error, verif::{Fault, Mode}};
use midnight_zk_stdlib::{ZkStdLib, ZkStdLibArch};
use num_bigint::BigUint;
use num_traits::{One, Zero};
use serde_json::json;
use vcore::{CaseOut, Ctx, Level, Tier, Viol};
use vgad::{Exposer, Judgement, OpCase, Outcome, F};

// ---------------------------------------------------------------------------------------------
// the case type
// ---------------------------------------------------------------------------------------------

#[derive(Clone, Debug)]
pub enum Kind {
    F(Fld, FOp),
    B(BOp),
}

#[derive(Clone, Debug)]
pub struct Case {
    pub kind: Kind,
    pub ins: Vec<V>,
    pub cols: u8,
    pub mbl: u8,
}

impl Case {
    fn kkey(&self) -> String {
        format!("{:?}/{}/{}", self.kind, self.cols, self.mbl)
    }
    fn opkey(&self) -> String {
        format!("{:?}", self.kind)
    }
}

impl OpCase for Case {
    fn key(&self) -> String {
        let ins = self.ins.iter().map(|v| v.show()).collect::<Vec<_>>().join(",");
        match &self.kind {
            Kind::F(f, op) => format!("{}:{:?}[{}]c{}b{}", f.short(), op, ins, self.cols, self.mbl),
            Kind::B(op) => format!("big:{:?}[{}]c{}b{}", op, ins, self.cols, self.mbl),
        }
    }
    fn op(&self) -> String {
        match &self.kind {
            Kind::F(f, op) => format!("{}.{}", f.short(), op.name()),
            Kind::B(op) => op.name(),
        }
    }
    fn arch(&self) -> ZkStdLibArch {
        let mut a = ZkStdLibArch {
            nr_pow2range_cols: self.cols,
            ..ZkStdLibArch::default()
        };
        match &self.kind {
            Kind::F(Fld::SecpBase | Fld::SecpScalar, _) => a.secp256k1 = true,
            Kind::F(Fld::BlsBase, _) => a.bls12_381 = true,
            Kind::B(_) => {}
        }
        a
    }
    fn max_bit_len(&self) -> u8 {
        self.mbl
    }
    fn synth<L: Layouter<F>>(&self, std: &ZkStdLib, l: &mut L, ex: &Exposer) -> Result<(), Error> {
        match &self.kind {
            Kind::F(Fld::SecpBase, op) => fops::synth_field(std.secp256k1_curve().base_field_chip(), std, l, ex, op, &self.ins),
            Kind::F(Fld::SecpScalar, op) => fops::synth_field(std.secp256k1_scalar(), std, l, ex, op, &self.ins),
            Kind::F(Fld::BlsBase, op) => fops::synth_field(std.bls12_381_curve().base_field_chip(), std, l, ex, op, &self.ins),
            Kind::B(op) => bops::synth_big(std, l, ex, op, &self.ins),
        }
    }
    fn expect_sat(&self) -> bool {
        match &self.kind {
            Kind::F(f, op) => fops::reference(&f.spec(), op, &self.ins).is_some(),
            Kind::B(op) => bops::reference(op, &self.ins).is_some(),
        }
    }
    fn judge(&self, ins: &[Vec<F>], outs: &[Vec<F>]) -> Judgement {
        match &self.kind {
            Kind::F(f, op) => fops::judge_field(&f.spec(), op, ins, outs),
            Kind::B(op) => bops::judge_big(op, ins, outs),
        }
    }
}

// ---------------------------------------------------------------------------------------------
// alphabets
// ---------------------------------------------------------------------------------------------

fn bu(x: u64) -> BigUint {
    BigUint::from(x)
}

fn pow2(k: u32) -> BigUint {
    BigUint::one() << k
}

/// Operand alphabet of an emulated field (values are residues; the limbs encode value - 1).
fn field_alphabet(spec: &FieldSpec, seed: u64, n_seeded: usize) -> Vec<(String, BigUint)> {
    let m = &spec.m;
    let l = spec.log2_base;
    let n = spec.nb_limbs;
    let mut out: Vec<(String, BigUint)> = vec![];
    let mut push = |name: &str, v: BigUint| {
        let v = v % m;
        if !out.iter().any(|(_, x)| *x == v) {
            out.push((name.to_string(), v));
        }
    };
    push("0", bu(0));
    push("1", bu(1));
    push("2", bu(2));
    push("m-1", m - 1u32);
    push("m-2", m - 2u32);
    push("(m-1)/2", (m - 1u32) >> 1);
    // every limb all-ones, reduced mod m
    push("allones", pow2(l * n) - 1u32);
    // limbs of (v-1): lower n-1 limbs all-ones
    push("2^(L(n-1))", pow2(l * (n - 1)));
    push("2^L-1", pow2(l) - 1u32);
    push("2^L", pow2(l));
    push("2^L+1", pow2(l) + 1u32);
    // the largest value whose limb vector has a second well-formed representation (+m)
    push("2^wf-m", pow2(spec.wf_total_bits()) - m);
    let mut rng = vcore::rng_for(seed, &format!("c05-{}", spec.name));
    for i in 0..n_seeded {
        push(&format!("seeded{i}"), vcore::big::random_below(&mut rng, m));
    }
    out
}

fn big_values(w: u32, seed: u64) -> Vec<BigUint> {
    let mut out: Vec<BigUint> = vec![];
    let mut push = |v: BigUint| {
        if v.bits() <= w as u64 && !out.contains(&v) {
            out.push(v);
        }
    };
    push(bu(0));
    push(bu(1));
    push(pow2(w) - 1u32);
    push(pow2(w - 1));
    for b in [96u32, 192] {
        push(pow2(b) - 1u32);
        push(pow2(b));
        push(pow2(b) + 1u32);
    }
    let mut rng = vcore::rng_for(seed, &format!("c05-big-{w}"));
    push(vcore::big::random_below(&mut rng, &pow2(w)));
    out
}

// ---------------------------------------------------------------------------------------------
// operation lists
// ---------------------------------------------------------------------------------------------

/// How thoroughly a field is covered.
#[derive(Clone, Copy, PartialEq)]
enum Depth {
    Full,
    Reduced,
}

fn field_ops(spec: &FieldSpec, depth: Depth, tier: Tier, seed: u64) -> Vec<FOp> {
    use FOp::*;
    let m = &spec.m;
    let mut rng = vcore::rng_for(seed, &format!("c05-consts-{}", spec.name));
    let c1 = vcore::big::random_below(&mut rng, m);
    let c2 = vcore::big::random_below(&mut rng, m);
    let nbits = m.bits() as usize;
    let nbytes = nbits.div_ceil(8);
    // mul_by_constant multiplies limb-wise when k <= max_limb_bound / (1000 * base) = base / 1000
    let thr = spec.base() / 1000u32;
    let mut v = vec![
        Assign, Add, Sub, Neg, Mul(None), Div, Inv, Inv0, IsZero, IsEqual, AssertEqual, AssertNotEqual, Select,
        MulConst(thr.clone()), MulConst(&thr + 1u32), MulConst(m - 1u32), AddConst(c1.clone()),
        LinComb(vec![c1.clone(), bu(3)], c2.clone()),
        ToLeBits(None, true), ToLeBits(None, false), ToLeBytes(None), FromLeBits(nbits), FromLeBytes(nbytes),
        IsEqualToFixed(bu(0)), AssertEqualToFixed(c1.clone()), AssertNotEqualToFixed(c1.clone()),
    ];
    if depth == Depth::Full {
        v.extend([
            AssignFixed(bu(0)), AssignFixed(bu(1)), AssignFixed(m - 1u32), AssignFixed(c1.clone()),
            Mul(Some(c1.clone())), Mul(Some(bu(0))), Mul(Some(bu(2))),
            MulFixedLhs(bu(0), Some(bu(5))), MulFixedLhs(bu(1), None), MulFixedLhs(bu(1), Some(bu(5))), MulFixedLhs(bu(2), Some(bu(5))),
            Square, Pow(0), Pow(1), Pow(2), Pow(5),
            AddConst(bu(0)), AddConst(bu(1)), AddConst(m - 1u32),
            MulConst(bu(0)), MulConst(bu(1)), MulConst(bu(2)), MulConst(c2.clone()),
            LinComb(vec![bu(1)], bu(0)), LinComb(vec![bu(0), bu(1), m - 1u32], bu(1)), LinComb(vec![c1.clone(), c2.clone(), thr.clone(), bu(2)], c1.clone()),
            AddAndMul(c1.clone(), bu(1), bu(0), c2.clone(), bu(2)),
            AssertZero, AssertNonZero, IsNotEqual,
            IsEqualToFixed(c1.clone()), IsEqualToFixed(m - 1u32), IsNotEqualToFixed(c1.clone()), IsNotEqualToFixed(bu(0)),
            AssertEqualToFixed(bu(0)), AssertNotEqualToFixed(bu(0)),
            CondAssertEqual, CondSwap,
            ToLeBits(Some(1), true), ToLeBits(Some(8), true), ToLeBits(Some(spec.log2_base as usize), true), ToLeBits(Some(spec.log2_base as usize + 1), true),
            ToLeBits(Some(8), false), ToLeBits(Some(spec.log2_base as usize + 1), false), ToBeBits(None, true),
            ToLeBytes(Some(1)), ToLeBytes(Some(spec.log2_base as usize / 8 + 1)), ToBeBytes(None),
            ToLeChunks(8, None), ToLeChunks(spec.log2_base as usize, None), ToLeChunks(8, Some(2)), ToLeChunks(5, None), ToLeChunks(spec.log2_base as usize / 2, Some(3)),
            Sgn0,
            FromLeBits(1), FromLeBits(spec.log2_base as usize + 1), FromLeBits(nbits + 8), FromBeBits(9),
            FromLeBytes(1), FromLeBytes(spec.log2_base as usize / 8 + 1), FromLeBytes(nbytes + 1), FromBeBytes(3),
            BitToField, ByteToField, IsSquare, AssertQr,
        ]);
    }
    // chains that leave the accumulator un-normalised before the consumer
    let chains: Vec<Vec<Step>> = {
        let mut c = vec![
            vec![Step::AddY],
            vec![Step::SubY],
            vec![Step::Neg, Step::SubY],
            // just below the lazy-normalisation threshold (max_limb_bound / 10) ...
            vec![Step::MulC(thr.clone()), Step::MulC(bu(64))],
            // ... and just above it (normalisation is triggered inside the chain)
            vec![Step::MulC(thr.clone()), Step::MulC(bu(128))],
        ];
        if depth == Depth::Full {
            c.extend([
                vec![Step::AddY, Step::AddY, Step::AddY, Step::AddSelf],
                vec![Step::MulC(bu(3)), Step::SubY, Step::AddC(c1.clone())],
                vec![Step::Neg, Step::MulC(thr.clone()), Step::MulC(bu(64)), Step::SubY],
                vec![Step::SubY, Step::MulC(thr.clone()), Step::MulC(bu(100)), Step::AddY],
            ]);
        }
        c
    };
    let consumers: Vec<Cons> = if depth == Depth::Full {
        vec![Cons::Expose, Cons::MulZ, Cons::IsEqualZ, Cons::AssertEqualZ, Cons::AssertNotEqualZ, Cons::IsZero, Cons::DivZByAcc, Cons::Inv0, Cons::ToLeBitsCanon, Cons::ToLeBytes, Cons::SelectZ]
    } else {
        vec![Cons::Expose, Cons::MulZ, Cons::IsEqualZ]
    };
    for (ci, ch) in chains.iter().enumerate() {
        for (ki, cons) in consumers.iter().enumerate() {
            // quick: every chain meets every consumer class, but not the full product
            if !tier.is_thorough() && depth == Depth::Full && ci >= 3 && (ci + ki) % 3 != 0 {
                continue;
            }
            v.push(Chain(ch.clone(), cons.clone()));
        }
    }
    v
}

/// Input tuples for a field operation.
fn field_inputs(spec: &FieldSpec, op: &FOp, tier: Tier, seed: u64, depth: Depth) -> Vec<Vec<V>> {
    use fops::Ty;
    let alph = field_alphabet(spec, seed, if tier.is_thorough() { 2 } else { 1 });
    let m = &spec.m;
    let tys = op.in_types();
    if tys.is_empty() {
        return vec![vec![]];
    }
    // vector-typed single input
    if let [Ty::Bits(n)] = tys[..] {
        let mut vals = vec![bu(0), bu(1), pow2(n as u32) - 1u32];
        if n as u64 >= m.bits() {
            vals.extend([m - 1u32, m.clone(), m + 1u32]);
        }
        let mut rng = vcore::rng_for(seed, &format!("c05-bits-{n}"));
        vals.push(vcore::big::random_below(&mut rng, &pow2(n as u32)));
        vals.retain(|v| v.bits() <= n as u64);
        vals.sort();
        vals.dedup();
        return vals.into_iter().map(|v| vec![V::Bits((0..n).map(|i| v.bit(i as u64)).collect())]).collect();
    }
    if let [Ty::Bytes(n)] = tys[..] {
        let mut vals = vec![bu(0), bu(1), pow2(8 * n as u32) - 1u32];
        if 8 * n as u64 >= m.bits() {
            vals.extend([m - 1u32, m.clone(), m + 1u32]);
        }
        let mut rng = vcore::rng_for(seed, &format!("c05-bytes-{n}"));
        vals.push(vcore::big::random_below(&mut rng, &pow2(8 * n as u32)));
        vals.retain(|v| v.bits() <= 8 * n as u64);
        vals.sort();
        vals.dedup();
        return vals
            .into_iter()
            .map(|v| {
                let mut b = v.to_bytes_le();
                b.resize(n, 0);
                vec![V::Bytes(b)]
            })
            .collect();
    }
    let alph_e: Vec<V> = alph.iter().map(|(_, v)| V::U(v.clone())).collect();
    let alph_b = vec![V::B(false), V::B(true)];
    let alph_y: Vec<V> = [0u8, 1, 128, 255].into_iter().map(V::Y).collect();
    let per_pos: Vec<Vec<V>> = tys
        .iter()
        .map(|t| match t {
            Ty::E => alph_e.clone(),
            Ty::B => alph_b.clone(),
            Ty::Y => alph_y.clone(),
            _ => unreachable!(),
        })
        .collect();
    let mut out: Vec<Vec<V>> = vec![];
    if let FOp::Chain(steps, cons) = op {
        // (x, y) on diagonals; z = the accumulator's value (equal case) and an unrelated value
        let shifts: &[usize] = if tier.is_thorough() && depth == Depth::Full { &[0, 1, 5] } else { &[1] };
        let stride = if tier.is_thorough() { 1 } else { 3 };
        for &shift in shifts {
            for d in (0..alph_e.len()).step_by(stride) {
                let x = alph_e[d].u().clone();
                let y = alph_e[(d + shift) % alph_e.len()].u().clone();
                let acc = fops::chain_acc(m, steps, &x, &y);
                let other = alph_e[(d + 2) % alph_e.len()].u().clone();
                for (zi, z) in [acc.clone(), other].into_iter().enumerate() {
                    let mut t = vec![V::U(x.clone()), V::U(y.clone()), V::U(z)];
                    if *cons == Cons::SelectZ {
                        t.push(V::B((d + zi) % 2 == 0));
                    }
                    if !out.contains(&t) {
                        out.push(t);
                    }
                }
            }
        }
        return out;
    }
    let n_e = tys.iter().filter(|t| **t == Ty::E).count();
    let full = tier.is_thorough() && depth == Depth::Full && n_e <= 2;
    if full {
        let mut idx = vec![0usize; per_pos.len()];
        loop {
            out.push(idx.iter().enumerate().map(|(i, j)| per_pos[i][*j].clone()).collect());
            let mut i = 0;
            loop {
                if i == idx.len() {
                    return out;
                }
                idx[i] += 1;
                if idx[i] < per_pos[i].len() {
                    break;
                }
                idx[i] = 0;
                i += 1;
            }
        }
    }
    let mlen = per_pos.iter().map(|a| a.len()).max().unwrap_or(1);
    let shifts: &[usize] = if n_e <= 1 { &[0] } else if tier.is_thorough() { &[0, 1, 3] } else { &[0, 1] };
    for &shift in shifts {
        for d in 0..mlen {
            let t: Vec<V> = per_pos.iter().enumerate().map(|(i, a)| a[(d + i * shift) % a.len()].clone()).collect();
            if !out.contains(&t) {
                out.push(t);
            }
        }
    }
    out
}

fn big_ops(tier: Tier) -> Vec<BOp> {
    use BOp::*;
    let widths: Vec<u32> = vec![1, 8, 95, 96, 97, 192, 193];
    let mut v = vec![];
    for &w in &widths {
        v.push(Assign(w));
        v.push(ToLeBits(w));
        v.push(ToLeBytes(w));
    }
    let pairs: Vec<(u32, u32)> = vec![(1, 1), (8, 8), (96, 96), (97, 95), (95, 193), (193, 192), (192, 8), (193, 193)];
    for &(a, b) in &pairs {
        v.extend([Add(a, b), Sub(a, b), Mul(a, b), DivRem(a, b), LowerThan(a, b), IsEqual(a, b), AssertEqual(a, b), AssertNotEqual(a, b)]);
    }
    v.extend([IsNotEqual(97, 193), Select(8, 193), Select(96, 96), AddMul(96, 96, 97), AddMul(1, 1, 1)]);
    for c in [bu(0), bu(1), pow2(96) - 1u32, pow2(96), pow2(192) + 1u32] {
        v.push(AssignFixed(c.clone()));
        v.push(IsEqualToFixed(193, c.clone()));
        v.push(AssertEqualToFixed(193, c.clone()));
        v.push(AssertNotEqualToFixed(193, c.clone()));
    }
    v.extend([IsEqualToFixed(8, pow2(96)), IsNotEqualToFixed(97, bu(1)), AssertEqualToFixed(8, pow2(96))]);
    for n in [1usize, 8, 95, 96, 97, 193] {
        v.push(FromLeBits(n));
    }
    for n in [1usize, 11, 12, 13, 25] {
        v.push(FromLeBytes(n));
    }
    for n in [0u64, 1, 2, 3, 65537] {
        for (wx, wm) in [(8u32, 8u32), (97, 96), (193, 193)] {
            if n == 65537 && wx > 97 && !tier.is_thorough() {
                continue;
            }
            v.push(ModExp(wx, n, wm));
        }
    }
    if tier.is_thorough() {
        for &w in &[1024u32, 2048] {
            v.extend([Assign(w), ToLeBits(w), ToLeBytes(w), Add(w, w), Sub(w, w), Mul(w, w), DivRem(w, w), LowerThan(w, w), IsEqual(w, 193), AssertEqual(w, w)]);
            v.push(FromLeBits(w as usize));
            v.push(FromLeBytes(w as usize / 8));
            for n in [0u64, 1, 2, 3, 65537] {
                v.push(ModExp(w, n, w));
            }
        }
        v.push(DivRem(2048, 1024));
        v.push(Mul(2048, 8));
    }
    v
}

fn big_inputs(op: &BOp, tier: Tier, seed: u64) -> Vec<Vec<V>> {
    use bops::BTy;
    let tys = op.in_types();
    if tys.is_empty() {
        return vec![vec![]];
    }
    let per_pos: Vec<Vec<V>> = tys
        .iter()
        .map(|t| match t {
            BTy::U(w) => {
                let mut vals: Vec<V> = big_values(*w, seed).into_iter().map(V::U).collect();
                // one out-of-range value (must be rejected by the range check of assign_biguint)
                if matches!(op, BOp::Assign(_)) {
                    vals.push(V::U(pow2(*w)));
                    vals.push(V::U(pow2(96 * w.div_ceil(96)) - 1u32));
                }
                vals
            }
            BTy::B => vec![V::B(false), V::B(true)],
            BTy::Bits(n) => {
                let mut vals = vec![bu(0), bu(1), pow2(*n as u32) - 1u32, pow2(*n as u32 - 1)];
                let mut rng = vcore::rng_for(seed, &format!("c05-bbits-{n}"));
                vals.push(vcore::big::random_below(&mut rng, &pow2(*n as u32)));
                vals.retain(|v| v.bits() <= *n as u64);
                vals.sort();
                vals.dedup();
                vals.into_iter().map(|v| V::Bits((0..*n).map(|i| v.bit(i as u64)).collect())).collect()
            }
            BTy::Bytes(n) => {
                let mut vals = vec![bu(0), bu(1), pow2(8 * *n as u32) - 1u32, pow2(8 * *n as u32 - 1)];
                let mut rng = vcore::rng_for(seed, &format!("c05-bbytes-{n}"));
                vals.push(vcore::big::random_below(&mut rng, &pow2(8 * *n as u32)));
                vals.sort();
                vals.dedup();
                vals.into_iter()
                    .map(|v| {
                        let mut b = v.to_bytes_le();
                        b.resize(*n, 0);
                        V::Bytes(b)
                    })
                    .collect()
            }
        })
        .collect();
    let mut out: Vec<Vec<V>> = vec![];
    let n_u = tys.iter().filter(|t| matches!(t, BTy::U(_))).count();
    let huge = tys.iter().any(|t| matches!(t, BTy::U(w) if *w > 193));
    let full = tier.is_thorough() && n_u <= 2 && !huge && !matches!(op, BOp::ModExp(_, 65537, _));
    if full {
        let mut idx = vec![0usize; per_pos.len()];
        loop {
            out.push(idx.iter().enumerate().map(|(i, j)| per_pos[i][*j].clone()).collect());
            let mut i = 0;
            loop {
                if i == idx.len() {
                    return out;
                }
                idx[i] += 1;
                if idx[i] < per_pos[i].len() {
                    break;
                }
                idx[i] = 0;
                i += 1;
            }
        }
    }
    let mlen = per_pos.iter().map(|a| a.len()).max().unwrap_or(1);
    let shifts: &[usize] = if n_u <= 1 { &[0] } else if huge || matches!(op, BOp::ModExp(_, 65537, _)) { &[1] } else { &[0, 1, 2] };
    for &shift in shifts {
        for d in 0..mlen {
            let t: Vec<V> = per_pos.iter().enumerate().map(|(i, a)| a[(d + i * shift) % a.len()].clone()).collect();
            if !out.contains(&t) {
                out.push(t);
            }
        }
    }
    // the modulus-one and small-modulus corner cases of mod_exp, and x >= m
    if let BOp::ModExp(wx, _, wm) = op {
        for (x, m) in [(bu(5), bu(3)), (bu(0), bu(1)), (bu(7), bu(1)), (bu(1), bu(2)), (bu(6), bu(3))] {
            if x.bits() <= *wx as u64 && m.bits() <= *wm as u64 {
                let t = vec![V::U(x), V::U(m)];
                if !out.contains(&t) {
                    out.push(t);
                }
            }
        }
    }
    out
}

// ---------------------------------------------------------------------------------------------
// decoder self-checks
// ---------------------------------------------------------------------------------------------

fn selfcheck_field<K: CircuitField>(cx: &mut Ctx, fld: Fld)
where
    MEP: midnight_circuits::field::foreign::params::FieldEmulationParams<F, K>,
{
    let spec = fld.spec();
    let mut n = 0;
    let mut ok = true;
    for (_, v) in field_alphabet(&spec, cx.seed, 8) {
        let k = K::from_biguint(&v).unwrap();
        let lib: Vec<F> = <AssignedField<F, K, MEP> as Instantiable<F>>::as_public_input(&k);
        ok &= lib == encode_field(&spec, &v);
        ok &= decode_field_canonical(&spec, &lib) == Some(v.clone());
        n += 1;
        // the +m representation (when it is well-formed) decodes to the same residue, flagged
        let l = (&v + &spec.m - 1u32) % &spec.m;
        let lm = &l + &spec.m;
        if lm.bits() <= spec.wf_total_bits() as u64 {
            let raw: Vec<F> = limbs_of(&spec, &lm).iter().map(vgad::val::from_big).collect();
            ok &= decode_field_limbs(&spec, &raw) == Some(FieldDec { residue: v.clone(), canonical: false });
            ok &= decode_field_canonical(&spec, &raw).is_none();
        }
    }
    // a limb outside its range is rejected
    let mut raw = encode_field(&spec, &bu(5));
    raw[0] = vgad::val::from_big(&spec.base());
    ok &= decode_field_limbs(&spec, &raw).is_none();
    cx.require(ok && n >= 12, &format!("field decoder agrees with Instantiable::as_public_input on the alphabet of {}", spec.name));
}

fn selfcheck_big(cx: &mut Ctx) {
    let mut ok = true;
    let mut n = 0;
    for w in [1u32, 8, 95, 96, 97, 192, 193, 1024, 2048] {
        for v in big_values(w, cx.seed) {
            let lib: Vec<F> = AssignedBigUint::<F>::as_public_input(&v, w);
            ok &= Some(lib.clone()) == encode_biguint(&v, w);
            ok &= decode_biguint_limbs(&lib) == Some(v.clone());
            n += 1;
        }
    }
    ok &= decode_biguint_limbs(&[vgad::val::from_big(&pow2(96))]).is_none();
    cx.require(ok && n > 50, "biguint decoder agrees with AssignedBigUint::as_public_input");
}

// ---------------------------------------------------------------------------------------------
// multi-limb "+m" faults
// ---------------------------------------------------------------------------------------------

/// Adds the emulated modulus, limb by limb and without carries, to `nb_limbs` advice assignments
/// `start, start+gap, ..`: turns a limb vector into the second representation of the same residue
/// whenever no limb overflows.
fn plus_m_plan(spec: &FieldSpec, idxs: &[u64]) -> Vec<(u64, Fault, Mode)> {
    let ml = limbs_of(spec, &spec.m);
    idxs.iter()
        .zip(ml)
        .map(|(i, mi)| {
            let d = mi.to_u64_digits();
            let mut a = [0u64; 4];
            for (j, x) in d.iter().enumerate() {
                a[j] = *x;
            }
            (*i, Fault::AddBits(a), Mode::Propagate)
        })
        .collect()
}

fn main() {
    let mut cx = Ctx::from_args("C05", Level::FaultEnumeration);
    cx.worker_rayon_threads = Some(1);
    let seed = cx.seed;
    let tier = cx.tier;
    let only = std::env::var("C05_ONLY").ok();
    cx.assume("MockProver (with the trash-argument evaluation added by the C02 fix) is the satisfiability oracle; its agreement with the real verifier is C02's subject");
    cx.assume("prover freedom is bounded to <= 1 deviation from the honest witness generator (propagate mode), 2 deviations for the smallest operations, consistent lies about exposed values, and the multi-limb '+m' re-representation of a limb vector");
    cx.assume("a well-formed non-canonical limb vector is an admissible representation of its residue (field_chip.rs documents this); exposures of such vectors are counted, not reported, and the outputs must still be correct for the residue");

    // ---- decoder self-checks
    selfcheck_field::<midnight_curves::k256::Fp>(&mut cx, Fld::SecpBase);
    selfcheck_field::<midnight_curves::k256::Fq>(&mut cx, Fld::SecpScalar);
    selfcheck_field::<midnight_curves::Fp>(&mut cx, Fld::BlsBase);
    selfcheck_big(&mut cx);

    // ---- cases
    let configs: Vec<(u8, u8)> = if tier.is_thorough() { vec![(4, 8), (1, 8), (2, 11), (3, 16)] } else { vec![(4, 8)] };
    let mut cases: Vec<(String, Case)> = vec![];
    let flds: Vec<(Fld, Depth)> = if tier.is_thorough() {
        vec![(Fld::SecpBase, Depth::Full), (Fld::SecpScalar, Depth::Full), (Fld::BlsBase, Depth::Full)]
    } else {
        vec![(Fld::SecpBase, Depth::Full), (Fld::SecpScalar, Depth::Reduced), (Fld::BlsBase, Depth::Reduced)]
    };
    let mut specs_json = vec![];
    for (fld, depth) in &flds {
        let spec = fld.spec();
        specs_json.push(json!({"field": spec.name, "log2_base": spec.log2_base, "nb_limbs": spec.nb_limbs, "well_formed_bits": spec.wf_bits, "aux_moduli": spec.nb_moduli,
            "depth": if *depth == Depth::Full { "full" } else { "reduced" }}));
        for (oi, op) in field_ops(&spec, *depth, tier, seed).iter().enumerate() {
            for (ii, ins) in field_inputs(&spec, op, tier, seed, *depth).into_iter().enumerate() {
                let (cols, mbl) = configs[(oi + ii) % configs.len()];
                let c = Case {
                    kind: Kind::F(*fld, op.clone()),
                    ins,
                    cols,
                    mbl,
                };
                cases.push((c.key(), c));
            }
        }
    }
    for (oi, op) in big_ops(tier).iter().enumerate() {
        for (ii, ins) in big_inputs(op, tier, seed).into_iter().enumerate() {
            let (cols, mbl) = configs[(oi + ii) % configs.len()];
            let c = Case {
                kind: Kind::B(op.clone()),
                ins,
                cols,
                mbl,
            };
            cases.push((c.key(), c));
        }
    }
    {
        let mut seen = std::collections::HashSet::new();
        cases.retain(|(k, _)| seen.insert(k.clone()));
    }
    if let Some(f) = &only {
        cases.retain(|(k, _)| k.contains(f.as_str()));
    }
    cx.extra("fields", json!(specs_json));

    // ---- k per (operation, configuration)
    let mut kreq: Vec<(String, Case)> = vec![];
    {
        let mut seen = std::collections::HashSet::new();
        for (_, c) in &cases {
            if seen.insert(c.kkey()) {
                kreq.push((c.kkey(), c.clone()));
            }
        }
    }
    let ks: Mutex<HashMap<String, u32>> = Mutex::new(HashMap::new());
    cx.run_cases("min-k", &kreq, |c| {
        let mut o = CaseOut::batch();
        match vgad::min_k(c) {
            Ok(k) => {
                ks.lock().unwrap().insert(c.kkey(), k);
                o.count(&format!("k={k}"), 1);
            }
            Err(p) => {
                o.count("k-panic", 1);
                o.viol(Viol::new(format!("{}:sizing-panic:{}", c.op(), vcore::panic_site(&p)), format!("building the circuit without witnesses panicked: {p}"), json!({"op": c.opkey()})));
            }
        }
        o
    });
    let ks = ks.into_inner().unwrap();
    let kof = |c: &Case| ks.get(&c.kkey()).copied();
    let cases: Vec<(String, Case)> = cases.into_iter().filter(|(_, c)| kof(c).is_some()).collect();

    // ---- phase 1: honest runs, instance binding, exposed-value lies
    struct Hon {
        n: u64,
        op_range: (u64, u64),
    }
    let hon: Mutex<HashMap<String, Hon>> = Mutex::new(HashMap::new());
    let t_hon = std::time::Instant::now();
    cx.run_cases("honest", &cases, |c| {
        let mut out = CaseOut::batch();
        let k = kof(c).unwrap();
        fops::NONCANON_SEEN.with(|x| x.set(0));
        let rep = vgad::explore_honest(c, k, &mut out);
        let (s, e) = marks();
        if rep.outcome == Outcome::Sat && c.expect_sat() {
            hon.lock().unwrap().insert(c.key(), Hon { n: rep.n_assign, op_range: (s, e) });
        }
        out.counter("advice_assignments", rep.n_assign);
        out.counter("noncanonical_exposures_accepted", fops::NONCANON_SEEN.with(|x| x.get()));
        out.sample = Some(json!({"case": c.key(), "k": k, "honest": rep.outcome.name(), "assignments": rep.n_assign, "op_assignment_range": [s, e], "exposed": rep.exposed}));
        out
    });
    let hon = hon.into_inner().unwrap();
    let hon_s = t_hon.elapsed().as_secs_f64();

    // ---- phase 2: 1-deviation faults in propagate mode
    let limb_faults = |l: u32| -> Vec<(&'static str, Fault)> { vec![("+base", Fault::AddPow2(l)), ("-base", Fault::SubPow2(l))] };
    let base_faults: Vec<(&'static str, Fault)> = {
        let f = vgad::default_faults(seed);
        if tier.is_thorough() {
            f
        } else {
            f.into_iter().filter(|(n, _)| ["+1", "-1", "zero", "random"].contains(n)).collect()
        }
    };
    // one operand tuple per operation (the first satisfiable one whose operands are not all
    // trivial); the stride over assignment indices is chosen from the size of the operation
    let budget_runs: u64 = tier.pick(22_000, 900_000);
    let mut chosen: Vec<(&String, &Case, &Hon)> = vec![];
    {
        let mut per_op: HashMap<String, usize> = HashMap::new();
        let want = tier.pick(1usize, 2usize);
        // prefer tuples further down the diagonal (index >= 3: not 0/1/2) when available
        let mut by_op: HashMap<String, Vec<(&String, &Case, &Hon)>> = HashMap::new();
        let mut order: Vec<String> = vec![];
        for (key, c) in &cases {
            if let Some(h) = hon.get(key) {
                let e = by_op.entry(c.opkey()).or_default();
                if e.is_empty() {
                    order.push(c.opkey());
                }
                e.push((key, c, h));
            }
        }
        for ok in &order {
            let v = &by_op[ok];
            let picks: Vec<usize> = if v.len() > 4 { vec![4, 1] } else { vec![0, v.len() - 1] };
            for p in picks {
                let cnt = per_op.entry(ok.clone()).or_default();
                if *cnt < want && p < v.len() && !chosen.iter().any(|(k, _, _)| *k == v[p].0) {
                    chosen.push(v[p]);
                    *cnt += 1;
                }
            }
        }
    }
    let n_faults_per_idx = (base_faults.len() + 2) as u64;
    let total_idx: u64 = chosen.iter().map(|(_, _, h)| h.n).sum();
    // global stride so that the fault phase fits its share of the budget; operations with at most
    // `small` assignments always get every index
    let small: u64 = tier.pick(48, 400);
    let stride: u64 = (total_idx * n_faults_per_idx).div_ceil(budget_runs).max(1);
    let mut fcases: Vec<(String, (Case, Vec<u64>, Vec<(&'static str, Fault)>))> = vec![];
    let mut swept: u64 = 0;
    for (key, c, h) in &chosen {
        let s = if h.n <= small { 1 } else { stride };
        // the operation's own assignments at stride s; input assignment / exposure at a coarser one
        let (a, b) = h.op_range;
        let mut idxs: Vec<u64> = vec![];
        for i in 0..h.n {
            let inside = i >= a && i < b;
            let st = if inside || h.n <= small { s } else { s * 3 };
            if i % st == (c.key().len() as u64 % st) {
                idxs.push(i);
            }
        }
        swept += idxs.len() as u64;
        let mut faults = base_faults.clone();
        match &c.kind {
            Kind::F(f, _) => faults.extend(limb_faults(f.spec().log2_base)),
            Kind::B(_) => faults.extend(limb_faults(BIG_LOG2_BASE)),
        }
        for (ci, chunk) in idxs.chunks(8).enumerate() {
            fcases.push((format!("{key}#{ci}"), ((*c).clone(), chunk.to_vec(), faults.clone())));
        }
    }
    cx.note(format!(
        "fault phase: {} operations x {} operand tuple(s); {} assignment indices in total, stride {} inside the operation (x3 outside: input assignment and exposure), every index for operations with <= {} assignments; {} indices swept x {} faults",
        chosen.iter().map(|(_, c, _)| c.opkey()).collect::<std::collections::HashSet<_>>().len(),
        tier.pick(1, 2),
        total_idx,
        stride,
        small,
        swept,
        n_faults_per_idx
    ));
    cx.run_cases("faults", &fcases, |(c, idxs, faults)| {
        let mut out = CaseOut::batch();
        fops::NONCANON_SEEN.with(|x| x.set(0));
        vgad::explore_faults(c, kof(c).unwrap(), idxs, faults, &mut out);
        out.counter("noncanonical_exposures_accepted", fops::NONCANON_SEEN.with(|x| x.get()));
        out
    });

    // ---- phase 3: "+m" re-representation of limb vectors (field operations only)
    // Candidate limb groups are runs of nb_limbs assignment indices in arithmetic progression
    // (gap 1: outputs of the normalisation gate; larger gaps: limbs assigned one by one with their
    // range checks in between).
    let mut mcases: Vec<(String, (Case, Vec<Vec<u64>>))> = vec![];
    {
        let mut seen_ops: HashMap<String, usize> = HashMap::new();
        for (key, c) in &cases {
            let Kind::F(f, op) = &c.kind else { continue };
            let Some(h) = hon.get(key) else { continue };
            // small operand values only: adding m limb-wise must not overflow a limb
            let smallish = c.ins.iter().any(|v| matches!(v, V::U(x) if *x <= bu(2) && !x.is_zero()));
            if !smallish {
                continue;
            }
            let cnt = seen_ops.entry(format!("{f:?}{}", op.name())).or_default();
            if *cnt >= tier.pick(1, 2) {
                continue;
            }
            *cnt += 1;
            let n = f.spec().nb_limbs as u64;
            let mut groups: Vec<Vec<u64>> = vec![];
            let max_gap = tier.pick(12u64, 40u64);
            let lim = h.n.min(tier.pick(160, 1200));
            for gap in 1..=max_gap {
                for start in 0..lim {
                    if start + gap * (n - 1) < h.n {
                        groups.push((0..n).map(|j| start + gap * j).collect());
                    }
                }
            }
            for (ci, chunk) in groups.chunks(24).enumerate() {
                mcases.push((format!("{key}#{ci}"), (c.clone(), chunk.to_vec())));
            }
        }
    }
    cx.run_cases("plus-m", &mcases, |(c, groups)| {
        let mut out = CaseOut::batch();
        let Kind::F(f, _) = &c.kind else { unreachable!() };
        let spec = f.spec();
        let k = kof(c).unwrap();
        fops::NONCANON_SEEN.with(|x| x.set(0));
        for g in groups {
            let run = vgad::run_once(c, k, plus_m_plan(&spec, g), false);
            if run.applied.len() < g.len() {
                out.count("plus-m:not-reached", 1);
                continue;
            }
            out.eval(&format!("plus-m:{}", run.outcome.name()), true);
            if run.outcome == Outcome::Sat {
                match c.judge(&run.ins, &run.outs) {
                    Judgement::Holds => out.count("plus-m:accepted-benign", 1),
                    Judgement::Wrong(w) => out.viol(Viol::new(
                        format!("{}:unsound-under-plus-m", c.op()),
                        format!("the modulus added limb-wise to advice assignments {g:?}: circuit still satisfied although {w}"),
                        json!({"case": c.key(), "assignment_indices": g}),
                    )),
                }
            }
        }
        out.counter("noncanonical_exposures_accepted", fops::NONCANON_SEEN.with(|x| x.get()));
        out
    });

    // ---- phase 4: 2 deviations for small operations: all pairs x {+1, zero}^2
    let f2: Vec<_> = vgad::default_faults(seed).into_iter().filter(|(n, _)| ["+1", "zero"].contains(n)).collect();
    let mut pcases: Vec<(String, (Case, Vec<(u64, u64)>))> = vec![];
    {
        let mut seen_ops: std::collections::HashSet<String> = Default::default();
        let max_n = tier.pick(14u64, 40u64);
        for (key, c) in &cases {
            let Some(h) = hon.get(key) else { continue };
            if h.n > max_n || h.n < 2 {
                continue;
            }
            if !seen_ops.insert(c.opkey()) {
                continue;
            }
            let mut pairs = vec![];
            for i in 0..h.n {
                for j in i + 1..h.n {
                    pairs.push((i, j));
                }
            }
            for (ci, chunk) in pairs.chunks(8).enumerate() {
                pcases.push((format!("{key}#{ci}"), (c.clone(), chunk.to_vec())));
            }
        }
    }
    cx.run_cases("pairs", &pcases, |(c, pairs)| {
        let mut out = CaseOut::batch();
        vgad::explore_pairs(c, kof(c).unwrap(), pairs, &f2, &mut out);
        out
    });

    cx.set_rule(&format!(
        "emulated fields x operation registry (assign/assign_fixed, add/sub/neg/mul/div/inv/inv0/square/pow, add_constant, mul_by_constant around the \
         limb-wise threshold, linear_combination, zero/equality tests and assertions incl. _to_fixed, select/cond_swap/cond_assert_equal, bit/byte/chunk \
         (de)composition, sgn0, conversions, is_square/assert_qr, and CHAINS leaving the accumulator un-normalised below and above the lazy-normalisation \
         threshold before mul/is_equal/assert/is_zero/div/inv0/bits/bytes/select/exposure) x operand alphabet {{0,1,2,m-1,m-2,(m-1)/2, all-ones limbs, \
         2^(L(n-1)), 2^L-1, 2^L, 2^L+1, 2^wf-m, seeded}} (diagonals in quick, full product for arity<=2 in thorough); BigUint gadget (assign, add, sub, mul, \
         div_rem, mod_exp n in {{0,1,2,3,65537}}, lower_than, (in)equality tests/assertions incl. different limb counts and constants, select, to/from \
         bits/bytes) x widths {{1,8,95,96,97,192,193{}}} x values {{0,1,2^w-1,2^(w-1),2^96-1,2^96,2^96+1,2^192-1,2^192,2^192+1,seeded}}; per case: honest run \
         (satisfiable with the reference result recomputed from the decoded exposed inputs, or unsatisfiable if out of domain), every single-position \
         edit of the exposed vector, every exposed value changed with its copy cycle; per operation: advice-assignment indices (stride {} inside the \
         operation) x faults {{{}, +-2^LOG2_BASE}} in propagate mode; limb-wise +m on every arithmetic-progression group of NB_LIMBS assignments; all \
         pairs x {{+1,zero}}^2 for operations with few assignments. A case is one (field|biguint, operation, parameters, inputs, configuration); \
         evaluations count MockProver verdicts.",
        if tier.is_thorough() { ",1024,2048" } else { "" },
        stride,
        base_faults.iter().map(|f| f.0).collect::<Vec<_>>().join(","),
    ));
    cx.note(format!("honest phase wall {hon_s:.1}s"));
    if tier == Tier::Quick {
        cx.note("quick: secp256k1 base field with the full operation list; secp256k1 scalar field and BLS12-381 base field with a reduced list; BigUint widths <= 193 bits");
    }
    cx.note("not covered: Curve25519 field chips (reachable only through FromScratch test circuits, not through ZkStdLib); assign_as_public_input and BigUintGadget::constrain_as_public_input (they write the instance column themselves, outside the exposure log of the engine)");
    if only.is_none() {
        let sat = cx.class_count("honest:honest:sat");
        let unsat = cx.class_count("honest:honest:unsat") + cx.class_count("honest:honest:synth-err") + cx.class_count("honest:honest:crash-unsat");
        cx.require(sat > 100 && unsat > 10, "need both satisfiable and out-of-domain cases");
        cx.require(cx.class_count("faults:fault:unsat") > 100, "faults must be rejected somewhere");
        cx.require(cx.class_count("plus-m:plus-m:sat") > 0, "the +m re-representation must be accepted somewhere (otherwise the groups are not limb vectors)");
    }
    cx.finish()
}
