//! C05 — foreign-field and big-integer gadgets are complete and sound.

mod bops;
mod c25;
mod common;
mod dec;
mod fops;

use std::{collections::HashMap, sync::Mutex};

use bops::BOp;
use common::*;
use dec::*;
use fops::{Cons, FOp, Fld, Step};
use midnight_circuits::{
    biguint::AssignedBigUint,
    field::foreign::{params::MultiEmulationParams as MEP, AssignedField},
    types::Instantiable,
    CircuitField,
};
use midnight_proofs::{circuit::Layouter, plonk::Error, verif::{Fault, Mode}};
use midnight_zk_stdlib::{ZkStdLib, ZkStdLibArch};
use num_bigint::BigUint;
use num_traits::{One, Zero};
use serde_json::json;
use vcore::{CaseOut, Ctx, Level, Tier, Viol};
use vgad::{Exposer, Judgement, OpCase, Outcome, F};

// ---------------------------------------------------------------------------------------------
// the case type
// ---------------------------------------------------------------------------------------------

#[derive(Clone, Debug)]
pub enum Kind {
    F(Fld, FOp),
    B(BOp),
}

#[derive(Clone, Debug)]
pub struct Case {
    pub kind: Kind,
    pub ins: Vec<V>,
    pub cols: u8,
    pub mbl: u8,
}

impl Case {
    fn kkey(&self) -> String {
        format!("{:?}/{}/{}", self.kind, self.cols, self.mbl)
    }
    fn opkey(&self) -> String {
        format!("{:?}", self.kind)
    }
}

impl OpCase for Case {
    fn key(&self) -> String {
        let ins = self.ins.iter().map(|v| v.show()).collect::<Vec<_>>().join(",");
        match &self.kind {
            Kind::F(f, op) => format!("{}:{:?}[{}]c{}b{}", f.short(), op, ins, self.cols, self.mbl),
            Kind::B(op) => format!("big:{:?}[{}]c{}b{}", op, ins, self.cols, self.mbl),
        }
    }
    fn op(&self) -> String {
        match &self.kind {
            Kind::F(f, op) => format!("{}.{}", f.short(), abbreviate(&format!("{op:?}"))),
            Kind::B(BOp::ModExp(_, n, _)) => format!("BigModExp(n={n})"),
            Kind::B(op) => op.name(),
        }
    }
    fn arch(&self) -> ZkStdLibArch {
        let mut a = ZkStdLibArch {
            nr_pow2range_cols: self.cols,
            ..ZkStdLibArch::default()
        };
        match &self.kind {
            Kind::F(Fld::SecpBase | Fld::SecpScalar, _) => a.secp256k1 = true,
            Kind::F(Fld::BlsBase, _) => a.bls12_381 = true,
            Kind::B(_) => {}
        }
        a
    }
    fn max_bit_len(&self) -> u8 {
        self.mbl
    }
    fn synth<L: Layouter<F>>(&self, std: &ZkStdLib, l: &mut L, ex: &Exposer) -> Result<(), Error> {
        match &self.kind {
            Kind::F(Fld::SecpBase, op) => fops::synth_field(std.secp256k1_curve().base_field_chip(), std, l, ex, op, &self.ins),
            Kind::F(Fld::SecpScalar, op) => fops::synth_field(std.secp256k1_scalar(), std, l, ex, op, &self.ins),
            Kind::F(Fld::BlsBase, op) => fops::synth_field(std.bls12_381_curve().base_field_chip(), std, l, ex, op, &self.ins),
            Kind::B(op) => bops::synth_big(std, l, ex, op, &self.ins),
        }
    }
    fn expect_sat(&self) -> bool {
        match &self.kind {
            Kind::F(f, op) => fops::reference(&f.spec(), op, &self.ins).is_some(),
            Kind::B(op) => bops::reference(op, &self.ins).is_some(),
        }
    }
    fn judge(&self, ins: &[Vec<F>], outs: &[Vec<F>]) -> Judgement {
        match &self.kind {
            Kind::F(f, op) => fops::judge_field(&f.spec(), op, ins, outs),
            Kind::B(op) => bops::judge_big(op, ins, outs),
        }
    }
}

/// Canonical operation descriptor for finding keys: the Debug form without spaces, every decimal
/// constant of more than 6 digits replaced by `K` and every `Some(<number>)` by `Some(n)`.
fn abbreviate(s: &str) -> String {
    let mut out = String::new();
    let mut digits = String::new();
    for ch in s.chars().chain(std::iter::once(' ')) {
        if ch.is_ascii_digit() {
            digits.push(ch);
            continue;
        }
        if !digits.is_empty() {
            if out.ends_with("Some(") {
                out.push('n');
            } else if digits.len() > 6 {
                out.push('K');
            } else {
                out.push_str(&digits);
            }
            digits.clear();
        }
        if ch != ' ' {
            out.push(ch);
        }
    }
    out
}

impl Case {
    /// Class of the operand tuple, for finding keys. `fine` distinguishes multiples of the limb
    /// base (whose encoding has an all-ones least significant limb).
    fn input_class(&self, fine: bool) -> String {
        if let Kind::B(BOp::ModExp(..)) = &self.kind {
            let (x, m) = (self.ins[0].u(), self.ins[1].u());
            let Kind::B(BOp::ModExp(_, n, _)) = &self.kind else { unreachable!() };
            return (if m.is_zero() {
                "m=0"
            } else if *n == 0 && m.is_one() {
                "m=1"
            } else if x >= m {
                "x>=m"
            } else {
                "x<m"
            })
            .to_string();
        }
        let base = match &self.kind {
            Kind::F(f, _) => pow2(f.spec().log2_base),
            Kind::B(_) => pow2(BIG_LOG2_BASE),
        };
        self.ins
            .iter()
            .map(|v| match v {
                V::U(x) if x.is_zero() => "0".to_string(),
                V::U(x) if fine && (x % &base).is_zero() => "k*base".to_string(),
                V::U(_) => "x".to_string(),
                V::B(b) => format!("{}", *b as u8),
                _ => "v".to_string(),
            })
            .collect::<Vec<_>>()
            .join(",")
    }
}

/// Runs `f` on every item on 16 worker threads (each with its own 1-thread rayon pool). Used only
/// in replay mode, to rebuild the tables that the skipped cases would have produced.
fn par_for_each<C: Sync>(items: &[C], f: impl Fn(&C) + Sync) {
    let cursor = std::sync::atomic::AtomicUsize::new(0);
    std::thread::scope(|scope| {
        for _ in 0..16 {
            scope.spawn(|| {
                vcore::in_pool(1, || loop {
                    let i = cursor.fetch_add(1, std::sync::atomic::Ordering::SeqCst);
                    if i >= items.len() {
                        break;
                    }
                    let _ = vcore::catch(|| f(&items[i]));
                })
            });
        }
    });
}

fn cpu_s() -> f64 {
    let mut ru: libc::rusage = unsafe { std::mem::zeroed() };
    unsafe { libc::getrusage(libc::RUSAGE_SELF, &mut ru) };
    ru.ru_utime.tv_sec as f64 + ru.ru_utime.tv_usec as f64 * 1e-6
}

// ---------------------------------------------------------------------------------------------
// alphabets
// ---------------------------------------------------------------------------------------------

fn bu(x: u64) -> BigUint {
    BigUint::from(x)
}

fn pow2(k: u32) -> BigUint {
    BigUint::one() << k
}

/// Operand alphabet of an emulated field (values are residues; the limbs encode value - 1).
fn field_alphabet(spec: &FieldSpec, seed: u64, n_seeded: usize) -> Vec<(String, BigUint)> {
    let m = &spec.m;
    let l = spec.log2_base;
    let n = spec.nb_limbs;
    let mut out: Vec<(String, BigUint)> = vec![];
    let mut push = |name: &str, v: BigUint| {
        let v = v % m;
        if !out.iter().any(|(_, x)| *x == v) {
            out.push((name.to_string(), v));
        }
    };
    push("0", bu(0));
    push("1", bu(1));
    push("2", bu(2));
    push("m-1", m - 1u32);
    push("m-2", m - 2u32);
    push("(m-1)/2", (m - 1u32) >> 1);
    // every limb all-ones, reduced mod m
    push("allones", pow2(l * n) - 1u32);
    // limbs of (v-1): lower n-1 limbs all-ones
    push("2^(L(n-1))", pow2(l * (n - 1)));
    push("2^L-1", pow2(l) - 1u32);
    push("2^L", pow2(l));
    push("2^L+1", pow2(l) + 1u32);
    // the largest value whose limb vector has a second well-formed representation (+m)
    push("2^wf-m", pow2(spec.wf_total_bits()) - m);
    let mut rng = vcore::rng_for(seed, &format!("c05-{}", spec.name));
    for i in 0..n_seeded {
        push(&format!("seeded{i}"), vcore::big::random_below(&mut rng, m));
    }
    out
}

fn big_values(w: u32, seed: u64) -> Vec<BigUint> {
    let mut out: Vec<BigUint> = vec![];
    let mut push = |v: BigUint| {
        if v.bits() <= w as u64 && !out.contains(&v) {
            out.push(v);
        }
    };
    push(bu(0));
    push(bu(1));
    push(pow2(w) - 1u32);
    push(pow2(w - 1));
    for b in [96u32, 192] {
        push(pow2(b) - 1u32);
        push(pow2(b));
        push(pow2(b) + 1u32);
    }
    let mut rng = vcore::rng_for(seed, &format!("c05-big-{w}"));
    push(vcore::big::random_below(&mut rng, &pow2(w)));
    out
}

// ---------------------------------------------------------------------------------------------
// operation lists
// ---------------------------------------------------------------------------------------------

/// How thoroughly a field is covered.
#[derive(Clone, Copy, PartialEq)]
enum Depth {
    Full,
    Reduced,
}

fn field_ops(spec: &FieldSpec, depth: Depth, tier: Tier, seed: u64) -> Vec<FOp> {
    use FOp::*;
    let m = &spec.m;
    let mut rng = vcore::rng_for(seed, &format!("c05-consts-{}", spec.name));
    let c1 = vcore::big::random_below(&mut rng, m);
    let c2 = vcore::big::random_below(&mut rng, m);
    let nbits = m.bits() as usize;
    let nbytes = nbits.div_ceil(8);
    // mul_by_constant multiplies limb-wise when k <= max_limb_bound / (1000 * base) = base / 1000
    let thr = spec.base() / 1000u32;
    let mut v = vec![
        Assign, Add, Sub, Neg, Mul(None), Div, Inv, Inv0, IsZero, IsEqual, AssertEqual, AssertNotEqual, Select,
        MulConst(thr.clone()), MulConst(&thr + 1u32), MulConst(m - 1u32), AddConst(c1.clone()),
        LinComb(vec![c1.clone(), bu(3)], c2.clone()),
        ToLeBits(None, true), ToLeBits(None, false), ToLeBytes(None), FromLeBits(nbits), FromLeBytes(nbytes),
        IsEqualToFixed(bu(0)), AssertEqualToFixed(c1.clone()), AssertNotEqualToFixed(c1.clone()),
    ];
    if depth == Depth::Full {
        v.extend([
            AssignFixed(bu(0)), AssignFixed(bu(1)), AssignFixed(m - 1u32), AssignFixed(c1.clone()),
            Mul(Some(c1.clone())), Mul(Some(bu(0))), Mul(Some(bu(2))),
            MulFixedLhs(bu(0), Some(bu(5))), MulFixedLhs(bu(1), None), MulFixedLhs(bu(1), Some(bu(5))), MulFixedLhs(bu(2), Some(bu(5))),
            Square, Pow(0), Pow(1), Pow(2), Pow(5),
            AddConst(bu(0)), AddConst(bu(1)), AddConst(m - 1u32),
            MulConst(bu(0)), MulConst(bu(1)), MulConst(bu(2)), MulConst(c2.clone()),
            LinComb(vec![bu(1)], bu(0)), LinComb(vec![bu(0), bu(1), m - 1u32], bu(1)), LinComb(vec![c1.clone(), c2.clone(), thr.clone(), bu(2)], c1.clone()),
            AddAndMul(c1.clone(), bu(1), bu(0), c2.clone(), bu(2)),
            AssertZero, AssertNonZero, IsNotEqual,
            IsEqualToFixed(c1.clone()), IsEqualToFixed(m - 1u32), IsNotEqualToFixed(c1.clone()), IsNotEqualToFixed(bu(0)),
            AssertEqualToFixed(bu(0)), AssertNotEqualToFixed(bu(0)),
            CondAssertEqual, CondSwap,
            ToLeBits(Some(1), true), ToLeBits(Some(8), true), ToLeBits(Some(spec.log2_base as usize), true), ToLeBits(Some(spec.log2_base as usize + 1), true),
            ToLeBits(Some(8), false), ToLeBits(Some(spec.log2_base as usize + 1), false), ToBeBits(None, true),
            ToLeBytes(Some(1)), ToLeBytes(Some(spec.log2_base as usize / 8 + 1)), ToBeBytes(None),
            ToLeChunks(8, None), ToLeChunks(spec.log2_base as usize, None), ToLeChunks(8, Some(2)), ToLeChunks(5, None), ToLeChunks(spec.log2_base as usize / 2, Some(3)),
            Sgn0,
            FromLeBits(1), FromLeBits(spec.log2_base as usize + 1), FromLeBits(nbits + 8), FromBeBits(9),
            FromLeBytes(1), FromLeBytes(spec.log2_base as usize / 8 + 1), FromLeBytes(nbytes + 1), FromBeBytes(3),
            BitToField, ByteToField, IsSquare, AssertQr,
        ]);
    }
    // chains that leave the accumulator un-normalised before the consumer
    let chains: Vec<Vec<Step>> = {
        let mut c = vec![
            vec![Step::AddY],
            vec![Step::SubY],
            vec![Step::Neg, Step::SubY],
            // just below the lazy-normalisation threshold (max_limb_bound / 10) ...
            vec![Step::MulC(thr.clone()), Step::MulC(bu(64))],
            // ... and just above it (normalisation is triggered inside the chain)
            vec![Step::MulC(thr.clone()), Step::MulC(bu(128))],
        ];
        if depth == Depth::Full {
            c.extend([
                vec![Step::AddY, Step::AddY, Step::AddY, Step::AddSelf],
                vec![Step::MulC(bu(3)), Step::SubY, Step::AddC(c1.clone())],
                vec![Step::Neg, Step::MulC(thr.clone()), Step::MulC(bu(64)), Step::SubY],
                vec![Step::SubY, Step::MulC(thr.clone()), Step::MulC(bu(100)), Step::AddY],
            ]);
        }
        c
    };
    let consumers: Vec<Cons> = if depth == Depth::Full {
        vec![Cons::Expose, Cons::MulZ, Cons::IsEqualZ, Cons::AssertEqualZ, Cons::AssertNotEqualZ, Cons::IsZero, Cons::DivZByAcc, Cons::Inv0, Cons::ToLeBitsCanon, Cons::ToLeBytes, Cons::SelectZ]
    } else {
        vec![Cons::Expose, Cons::MulZ, Cons::IsEqualZ]
    };
    if depth == Depth::Full {
        // two limb-wise multiplications in a row: the limb bound jumps over max_limb_bound
        v.push(Chain(vec![Step::MulC(thr.clone()), Step::MulC(thr.clone())], Cons::Expose));
    }
    for (ci, ch) in chains.iter().enumerate() {
        for (ki, cons) in consumers.iter().enumerate() {
            // quick: every chain meets every consumer class, but not the full product
            if !tier.is_thorough() && depth == Depth::Full && ci >= 3 && (ci + ki) % 3 != 0 {
                continue;
            }
            v.push(Chain(ch.clone(), cons.clone()));
        }
    }
    v
}

/// Input tuples for a field operation.
fn field_inputs(spec: &FieldSpec, op: &FOp, tier: Tier, seed: u64, depth: Depth) -> Vec<Vec<V>> {
    use fops::Ty;
    let alph = field_alphabet(spec, seed, if tier.is_thorough() { 2 } else { 1 });
    let m = &spec.m;
    let tys = op.in_types();
    if tys.is_empty() {
        return vec![vec![]];
    }
    // vector-typed single input
    if let [Ty::Bits(n)] = tys[..] {
        let mut vals = vec![bu(0), bu(1), pow2(n as u32) - 1u32];
        if n as u64 >= m.bits() {
            vals.extend([m - 1u32, m.clone(), m + 1u32]);
        }
        let mut rng = vcore::rng_for(seed, &format!("c05-bits-{n}"));
        vals.push(vcore::big::random_below(&mut rng, &pow2(n as u32)));
        vals.retain(|v| v.bits() <= n as u64);
        vals.sort();
        vals.dedup();
        return vals.into_iter().map(|v| vec![V::Bits((0..n).map(|i| v.bit(i as u64)).collect())]).collect();
    }
    if let [Ty::Bytes(n)] = tys[..] {
        let mut vals = vec![bu(0), bu(1), pow2(8 * n as u32) - 1u32];
        if 8 * n as u64 >= m.bits() {
            vals.extend([m - 1u32, m.clone(), m + 1u32]);
        }
        let mut rng = vcore::rng_for(seed, &format!("c05-bytes-{n}"));
        vals.push(vcore::big::random_below(&mut rng, &pow2(8 * n as u32)));
        vals.retain(|v| v.bits() <= 8 * n as u64);
        vals.sort();
        vals.dedup();
        return vals
            .into_iter()
            .map(|v| {
                let mut b = v.to_bytes_le();
                b.resize(n, 0);
                vec![V::Bytes(b)]
            })
            .collect();
    }
    let alph_e: Vec<V> = alph.iter().map(|(_, v)| V::U(v.clone())).collect();
    let alph_b = vec![V::B(false), V::B(true)];
    let alph_y: Vec<V> = [0u8, 1, 128, 255].into_iter().map(V::Y).collect();
    let per_pos: Vec<Vec<V>> = tys
        .iter()
        .map(|t| match t {
            Ty::E => alph_e.clone(),
            Ty::B => alph_b.clone(),
            Ty::Y => alph_y.clone(),
            _ => unreachable!(),
        })
        .collect();
    let mut out: Vec<Vec<V>> = vec![];
    if let FOp::Chain(steps, cons) = op {
        // (x, y) on diagonals; z = the accumulator's value (equal case) and an unrelated value
        let shifts: &[usize] = if tier.is_thorough() && depth == Depth::Full { &[0, 1, 5] } else { &[1] };
        let stride = if tier.is_thorough() { 1 } else { 3 };
        for &shift in shifts {
            for d in (0..alph_e.len()).step_by(stride) {
                let x = alph_e[d].u().clone();
                let y = alph_e[(d + shift) % alph_e.len()].u().clone();
                let acc = fops::chain_acc(m, steps, &x, &y);
                let other = alph_e[(d + 2) % alph_e.len()].u().clone();
                for (zi, z) in [acc.clone(), other].into_iter().enumerate() {
                    let mut t = vec![V::U(x.clone()), V::U(y.clone()), V::U(z)];
                    if *cons == Cons::SelectZ {
                        t.push(V::B((d + zi) % 2 == 0));
                    }
                    if !out.contains(&t) {
                        out.push(t);
                    }
                }
            }
        }
        return out;
    }
    let n_e = tys.iter().filter(|t| **t == Ty::E).count();
    let full = tier.is_thorough() && depth == Depth::Full && n_e <= 2;
    if full {
        let mut idx = vec![0usize; per_pos.len()];
        loop {
            out.push(idx.iter().enumerate().map(|(i, j)| per_pos[i][*j].clone()).collect());
            let mut i = 0;
            loop {
                if i == idx.len() {
                    return out;
                }
                idx[i] += 1;
                if idx[i] < per_pos[i].len() {
                    break;
                }
                idx[i] = 0;
                i += 1;
            }
        }
    }
    let mlen = per_pos.iter().map(|a| a.len()).max().unwrap_or(1);
    let shifts: &[usize] = if n_e <= 1 { &[0] } else if tier.is_thorough() { &[0, 1, 3] } else { &[0, 1] };
    for &shift in shifts {
        for d in 0..mlen {
            let t: Vec<V> = per_pos.iter().enumerate().map(|(i, a)| a[(d + i * shift) % a.len()].clone()).collect();
            if !out.contains(&t) {
                out.push(t);
            }
        }
    }
    out
}

fn big_ops(tier: Tier) -> Vec<BOp> {
    use BOp::*;
    let widths: Vec<u32> = vec![1, 8, 95, 96, 97, 192, 193];
    let mut v = vec![];
    for &w in &widths {
        v.push(Assign(w));
        v.push(ToLeBits(w));
        v.push(ToLeBytes(w));
    }
    let pairs: Vec<(u32, u32)> = vec![(1, 1), (8, 8), (96, 96), (97, 95), (95, 193), (193, 192), (192, 8), (193, 193)];
    for &(a, b) in &pairs {
        v.extend([Add(a, b), Sub(a, b), Mul(a, b), DivRem(a, b), LowerThan(a, b), IsEqual(a, b), AssertEqual(a, b), AssertNotEqual(a, b)]);
    }
    v.extend([IsNotEqual(97, 193), Select(8, 193), Select(96, 96), AddMul(96, 96, 97), AddMul(1, 1, 1)]);
    for c in [bu(0), bu(1), pow2(96) - 1u32, pow2(96), pow2(192) + 1u32] {
        v.push(AssignFixed(c.clone()));
        v.push(IsEqualToFixed(193, c.clone()));
        v.push(AssertEqualToFixed(193, c.clone()));
        v.push(AssertNotEqualToFixed(193, c.clone()));
    }
    // a constant operand (assign_fixed_biguint) on either side; constants whose bit length is a
    // multiple of the limb size, one above, and small ones
    for c in [pow2(96) - 1u32, pow2(192) - 1u32, pow2(96), bu(5)] {
        for k in [bops::FK::Add, bops::FK::Sub, bops::FK::Mul, bops::FK::DivRem, bops::FK::LowerThan] {
            for lhs in [false, true] {
                if !tier.is_thorough() && c == bu(5) && lhs {
                    continue;
                }
                v.push(WithFixed(k, 193, c.clone(), lhs));
            }
        }
    }
    v.push(WithFixed(bops::FK::Add, 96, pow2(96) - 1u32, false));
    v.push(WithFixed(bops::FK::Mul, 8, pow2(96) - 1u32, true));
    // (assert_equal_to_fixed with a constant longer than x is a documented construction-time panic: not a case)
    v.extend([IsEqualToFixed(8, pow2(96)), IsNotEqualToFixed(97, bu(1))]);
    for n in [1usize, 8, 95, 96, 97, 193] {
        v.push(FromLeBits(n));
    }
    for n in [1usize, 11, 12, 13, 25] {
        v.push(FromLeBytes(n));
    }
    for n in [0u64, 1, 2, 3, 65537] {
        for (wx, wm) in [(8u32, 8u32), (97, 96), (193, 193)] {
            if n == 65537 && wx > 97 && !tier.is_thorough() {
                continue;
            }
            v.push(ModExp(wx, n, wm));
        }
    }
    if tier.is_thorough() {
        for &w in &[1024u32, 2048] {
            v.extend([Assign(w), ToLeBits(w), ToLeBytes(w), Add(w, w), Sub(w, w), Mul(w, w), DivRem(w, w), LowerThan(w, w), IsEqual(w, 193), AssertEqual(w, w)]);
            v.push(FromLeBits(w as usize));
            v.push(FromLeBytes(w as usize / 8));
            for n in [0u64, 1, 2, 3, 65537] {
                v.push(ModExp(w, n, w));
            }
        }
        v.push(DivRem(2048, 1024));
        v.push(Mul(2048, 8));
    }
    v
}

fn big_inputs(op: &BOp, tier: Tier, seed: u64) -> Vec<Vec<V>> {
    use bops::BTy;
    let tys = op.in_types();
    if tys.is_empty() {
        return vec![vec![]];
    }
    let per_pos: Vec<Vec<V>> = tys
        .iter()
        .map(|t| match t {
            BTy::U(w) => {
                let mut vals: Vec<V> = big_values(*w, seed).into_iter().map(V::U).collect();
                // one out-of-range value (must be rejected by the range check of assign_biguint)
                if matches!(op, BOp::Assign(_)) {
                    vals.push(V::U(pow2(*w)));
                    vals.push(V::U(pow2(96 * w.div_ceil(96)) - 1u32));
                }
                vals
            }
            BTy::B => vec![V::B(false), V::B(true)],
            BTy::Bits(n) => {
                let mut vals = vec![bu(0), bu(1), pow2(*n as u32) - 1u32, pow2(*n as u32 - 1)];
                let mut rng = vcore::rng_for(seed, &format!("c05-bbits-{n}"));
                vals.push(vcore::big::random_below(&mut rng, &pow2(*n as u32)));
                vals.retain(|v| v.bits() <= *n as u64);
                vals.sort();
                vals.dedup();
                vals.into_iter().map(|v| V::Bits((0..*n).map(|i| v.bit(i as u64)).collect())).collect()
            }
            BTy::Bytes(n) => {
                let mut vals = vec![bu(0), bu(1), pow2(8 * *n as u32) - 1u32, pow2(8 * *n as u32 - 1)];
                let mut rng = vcore::rng_for(seed, &format!("c05-bbytes-{n}"));
                vals.push(vcore::big::random_below(&mut rng, &pow2(8 * *n as u32)));
                vals.sort();
                vals.dedup();
                vals.into_iter()
                    .map(|v| {
                        let mut b = v.to_bytes_le();
                        b.resize(*n, 0);
                        V::Bytes(b)
                    })
                    .collect()
            }
        })
        .collect();
    let mut out: Vec<Vec<V>> = vec![];
    let n_u = tys.iter().filter(|t| matches!(t, BTy::U(_))).count();
    let huge = tys.iter().any(|t| matches!(t, BTy::U(w) if *w > 193));
    let full = tier.is_thorough() && n_u <= 2 && !huge && !matches!(op, BOp::ModExp(_, 65537, _));
    if full {
        let mut idx = vec![0usize; per_pos.len()];
        loop {
            out.push(idx.iter().enumerate().map(|(i, j)| per_pos[i][*j].clone()).collect());
            let mut i = 0;
            loop {
                if i == idx.len() {
                    return out;
                }
                idx[i] += 1;
                if idx[i] < per_pos[i].len() {
                    break;
                }
                idx[i] = 0;
                i += 1;
            }
        }
    }
    let mlen = per_pos.iter().map(|a| a.len()).max().unwrap_or(1);
    let shifts: &[usize] = if n_u <= 1 { &[0] } else if huge || matches!(op, BOp::ModExp(_, 65537, _)) { &[1] } else { &[0, 1, 2] };
    for &shift in shifts {
        for d in 0..mlen {
            let t: Vec<V> = per_pos.iter().enumerate().map(|(i, a)| a[(d + i * shift) % a.len()].clone()).collect();
            if !out.contains(&t) {
                out.push(t);
            }
        }
    }
    // the modulus-one and small-modulus corner cases of mod_exp, and x >= m
    if let BOp::ModExp(wx, _, wm) = op {
        for (x, m) in [(bu(5), bu(3)), (bu(0), bu(1)), (bu(7), bu(1)), (bu(1), bu(2)), (bu(6), bu(3))] {
            if x.bits() <= *wx as u64 && m.bits() <= *wm as u64 {
                let t = vec![V::U(x), V::U(m)];
                if !out.contains(&t) {
                    out.push(t);
                }
            }
        }
    }
    out
}

// ---------------------------------------------------------------------------------------------
// decoder self-checks
// ---------------------------------------------------------------------------------------------

fn selfcheck_field<K: CircuitField>(cx: &mut Ctx, fld: Fld)
where
    MEP: midnight_circuits::field::foreign::params::FieldEmulationParams<F, K>,
{
    let spec = fld.spec();
    let mut n = 0;
    let mut ok = true;
    for (_, v) in field_alphabet(&spec, cx.seed, 8) {
        let k = K::from_biguint(&v).unwrap();
        let lib: Vec<F> = <AssignedField<F, K, MEP> as Instantiable<F>>::as_public_input(&k);
        ok &= lib == encode_field(&spec, &v);
        ok &= decode_field_canonical(&spec, &lib) == Some(v.clone());
        n += 1;
        // the +m representation (when it is well-formed) decodes to the same residue, flagged
        let l = (&v + &spec.m - 1u32) % &spec.m;
        let lm = &l + &spec.m;
        if lm.bits() <= spec.wf_total_bits() as u64 {
            let raw: Vec<F> = limbs_of(&spec, &lm).iter().map(vgad::val::from_big).collect();
            ok &= decode_field_limbs(&spec, &raw) == Some(FieldDec { residue: v.clone(), canonical: false });
            ok &= decode_field_canonical(&spec, &raw).is_none();
        }
    }
    // a limb outside its range is rejected
    let mut raw = encode_field(&spec, &bu(5));
    raw[0] = vgad::val::from_big(&spec.base());
    ok &= decode_field_limbs(&spec, &raw).is_none();
    cx.require(ok && n >= 12, &format!("field decoder agrees with Instantiable::as_public_input on the alphabet of {}", spec.name));
}

fn selfcheck_big(cx: &mut Ctx) {
    let mut ok = true;
    let mut n = 0;
    for w in [1u32, 8, 95, 96, 97, 192, 193, 1024, 2048] {
        for v in big_values(w, cx.seed) {
            let lib: Vec<F> = AssignedBigUint::<F>::as_public_input(&v, w);
            ok &= Some(lib.clone()) == encode_biguint(&v, w);
            ok &= decode_biguint_limbs(&lib) == Some(v.clone());
            n += 1;
        }
    }
    ok &= decode_biguint_limbs(&[vgad::val::from_big(&pow2(96))]).is_none();
    cx.require(ok && n > 50, "biguint decoder agrees with AssignedBigUint::as_public_input");
}

// ---------------------------------------------------------------------------------------------
// multi-limb "+m" faults
// ---------------------------------------------------------------------------------------------

/// The second ("+m") well-formed representation of an assigned input, injected consistently.
///
/// `FieldChip::assign` assigns limb i through `assign_less_than_pow2(limb, 64)`, i.e. one
/// `decompose core` region with 10 advice assignments for a 64-bit limb in the (4 columns, 8 bits)
/// configuration: the limb itself, its bytes 0..3, the partial result (limb minus the low four
/// bytes) and its bytes 4..7. A prover who wants to use `(x - 1) + m` instead of `x - 1` changes
/// these 10 cells of each of the limbs; everything downstream is then computed by the library's own
/// witness code from the changed limbs (propagate mode). `e_index` is the position of the input
/// among the field-element inputs (which are assigned first). `None` if `x` has no second
/// representation.
fn noncanonical_input_plan(spec: &FieldSpec, e_index: usize, x: &BigUint) -> Option<Vec<(u64, Fault, Mode)>> {
    assert!(spec.wf_bits.iter().all(|b| *b == 64));
    let l = (x + &spec.m - 1u32) % &spec.m;
    let lm = &l + &spec.m;
    if lm.bits() > spec.wf_total_bits() as u64 {
        return None;
    }
    let per_limb = 10u64;
    let mut plan = vec![];
    for (i, limb) in limbs_of(spec, &lm).iter().enumerate() {
        let v = limb.to_u64_digits().first().copied().unwrap_or(0);
        let base = (e_index as u64 * spec.nb_limbs as u64 + i as u64) * per_limb;
        let set = |x: u64| Fault::Set([x, 0, 0, 0]);
        plan.push((base, set(v), Mode::Propagate));
        for j in 0..4u64 {
            plan.push((base + 1 + j, set((v >> (8 * j)) & 0xff), Mode::Propagate));
        }
        plan.push((base + 5, set(v & !0xffff_ffffu64), Mode::Propagate));
        for j in 0..4u64 {
            plan.push((base + 6 + j, set((v >> (8 * (4 + j))) & 0xff), Mode::Propagate));
        }
    }
    Some(plan)
}

/// Honest exploration and 1-deviation sweep of the emulated-field registry on a Curve25519 field.
fn c25_group<K: c25::C25Field>(cx: &mut Ctx, tier: Tier, seed: u64)
where
    midnight_circuits::field::foreign::params::MultiEmulationParams: midnight_circuits::field::foreign::params::FieldEmulationParams<F, K>,
{
    use vgad::{Scratch, ScratchCase};
    let spec = K::spec();
    let depth = if tier.is_thorough() { Depth::Full } else { Depth::Reduced };
    let mut cases: Vec<(String, Scratch<c25::XCase<K>>)> = vec![];
    let mut seen = std::collections::HashSet::new();
    // input-major order (first input tuple of every operation, then the second, ...): a wall cap
    // cuts every operation at the same depth instead of dropping the operations listed last
    let per_op: Vec<(FOp, Vec<Vec<V>>)> = field_ops(&spec, depth, tier, seed).into_iter().map(|op| (op.clone(), field_inputs(&spec, &op, tier, seed, depth))).collect();
    let deepest = per_op.iter().map(|(_, v)| v.len()).max().unwrap_or(0);
    for ii in 0..deepest {
        for (op, inputs) in &per_op {
            if let Some(ins) = inputs.get(ii) {
                let c = c25::XCase::<K>::new(op.clone(), ins.clone());
                if seen.insert(c.key()) {
                    cases.push((c.key(), Scratch(c)));
                }
            }
        }
    }
    // one fixed configuration: the smallest k at which the largest operations synthesise
    let mut k = 0u32;
    let mut seen_ops = std::collections::HashSet::new();
    for (_, c) in &cases {
        if c.0.expect_sat() && seen_ops.insert(format!("{:?}", c.0.op)) {
            match vgad::scratch_min_k(&c.0, 10, 16) {
                Some(kk) => k = k.max(kk),
                None => cx.machinery_error(format!("from-scratch circuit of {} does not fit k <= 16", c.0.op())),
            }
        }
    }
    cx.extra(&format!("{}_k", K::SHORT), json!(k));
    let info: Mutex<HashMap<String, (u64, (u64, u64))>> = Mutex::new(HashMap::new());
    cx.next_group_share(tier.pick(4.0, 400.0));
    cx.run_cases(&format!("{}-honest", K::SHORT), &cases, |c| {
        let mut out = CaseOut::batch();
        if !tier.is_thorough() {
            // quick: the honest run and the reference judgement only (thorough adds the instance
            // edits and the lies about exposed values of vgad::explore_honest)
            use vgad::Runnable;
            let run = vgad::run_once(c, k, vec![], false);
            let (s, e) = marks();
            out.eval(&format!("honest:{}", run.outcome.name()), true);
            let detail = json!({"case": c.0.key()});
            match (&run.outcome, c.0.expect_sat()) {
                (Outcome::Sat, true) => match c.r_judge(&run.ins, &run.outs) {
                    Judgement::Holds => {
                        info.lock().unwrap().insert(c.0.key(), (run.n_assign, (s, e)));
                    }
                    Judgement::Wrong(w) => out.viol(Viol::new(format!("{}:honest-result-wrong", c.0.op()), format!("honest circuit is satisfied but its exposed result contradicts the reference: {w}"), detail)),
                },
                (Outcome::Sat, false) => {
                    if let Judgement::Wrong(w) = c.r_judge(&run.ins, &run.outs) {
                        out.viol(Viol::new(format!("{}:out-of-domain-accepted", c.0.op()), format!("input outside the documented domain is accepted: {w}"), detail));
                    }
                }
                (o, true) => out.viol(Viol::new(format!("{}:completeness:{}", c.0.op(), o.name()), format!("honest witness for an admissible input is not accepted - {o:?}"), detail)),
                (_, false) => {}
            }
            return out;
        }
        let rep = vgad::explore_honest(c, k, &mut out);
        let (s, e) = marks();
        if rep.outcome == Outcome::Sat && c.0.expect_sat() {
            info.lock().unwrap().insert(c.0.key(), (rep.n_assign, (s, e)));
        }
        out.sample = Some(json!({"case": c.0.key(), "k": k, "honest": rep.outcome.name(), "assignments": rep.n_assign, "op_assignment_range": [s, e]}));
        out
    });
    let info = info.into_inner().unwrap();
    // 1-deviation sweep: first input tuple of every operation, the operation's own assignments
    // with a stride (quick: at most 24 indices per operation; thorough: at most 400)
    let mut fcases: Vec<(String, (Scratch<c25::XCase<K>>, Vec<u64>))> = vec![];
    let mut done_ops = std::collections::HashSet::new();
    for (key, c) in &cases {
        let Some((_n, (s, e))) = info.get(key) else { continue };
        if !done_ops.insert(format!("{:?}", c.0.op)) || e <= s {
            continue;
        }
        let max = tier.pick(24u64, 400u64);
        let stride = ((e - s) / max).max(1);
        let idxs: Vec<u64> = (*s..*e).step_by(stride as usize).collect();
        for (ci, chunk) in idxs.chunks(8).enumerate() {
            fcases.push((format!("{key}#{ci}"), (c.clone(), chunk.to_vec())));
        }
    }
    let faults: Vec<_> = vgad::default_faults(seed).into_iter().filter(|(n, _)| tier.is_thorough() || ["+1", "zero"].contains(n)).collect();
    cx.next_group_share(tier.pick(1.5, 400.0));
    cx.run_cases(&format!("{}-faults", K::SHORT), &fcases, |(c, idxs)| {
        let mut out = CaseOut::batch();
        vgad::explore_faults(c, k, idxs, &faults, &mut out);
        out
    });
}

fn main() {
    let mut cx = Ctx::from_args("C05", Level::FaultEnumeration);
    cx.worker_rayon_threads = Some(1);
    let seed = cx.seed;
    let tier = cx.tier;
    let only = std::env::var("C05_ONLY").ok();
    cx.assume("MockProver (with the trash-argument evaluation added by the C02 fix) is the satisfiability oracle; its agreement with the real verifier is C02's subject");
    cx.assume("prover freedom is bounded to <= 1 deviation from the honest witness generator (propagate mode), 2 deviations for the smallest operations, consistent lies about exposed values, and the consistent '+m' re-representation of assigned inputs");
    cx.assume("a well-formed non-canonical limb vector is an admissible representation of its residue (field_chip.rs documents this); exposures of such vectors are counted, not reported, and the outputs must still be correct for the residue");

    let mut cpu_marks: Vec<(&str, f64)> = vec![];
    // ---- decoder self-checks
    selfcheck_field::<midnight_curves::k256::Fp>(&mut cx, Fld::SecpBase);
    selfcheck_field::<midnight_curves::k256::Fq>(&mut cx, Fld::SecpScalar);
    selfcheck_field::<midnight_curves::Fp>(&mut cx, Fld::BlsBase);
    selfcheck_big(&mut cx);

    // ---- cases
    let configs: Vec<(u8, u8)> = if tier.is_thorough() { vec![(4, 8), (1, 8), (4, 8), (2, 9), (4, 8), (3, 10)] } else { vec![(4, 8)] };
    let mut cases: Vec<(String, Case)> = vec![];
    let flds: Vec<(Fld, Depth)> = if tier.is_thorough() {
        vec![(Fld::SecpBase, Depth::Full), (Fld::SecpScalar, Depth::Full), (Fld::BlsBase, Depth::Full)]
    } else {
        vec![(Fld::SecpBase, Depth::Full), (Fld::SecpScalar, Depth::Reduced), (Fld::BlsBase, Depth::Reduced)]
    };
    let mut specs_json = vec![];
    for (fld, depth) in &flds {
        let spec = fld.spec();
        specs_json.push(json!({"field": spec.name, "log2_base": spec.log2_base, "nb_limbs": spec.nb_limbs, "well_formed_bits": spec.wf_bits, "aux_moduli": spec.nb_moduli,
            "depth": if *depth == Depth::Full { "full" } else { "reduced" }}));
        for (oi, op) in field_ops(&spec, *depth, tier, seed).iter().enumerate() {
            for (ii, ins) in field_inputs(&spec, op, tier, seed, *depth).into_iter().enumerate() {
                let (cols, mbl) = configs[(oi + ii) % configs.len()];
                let c = Case {
                    kind: Kind::F(*fld, op.clone()),
                    ins,
                    cols,
                    mbl,
                };
                cases.push((c.key(), c));
            }
        }
    }
    for (oi, op) in big_ops(tier).iter().enumerate() {
        for (ii, ins) in big_inputs(op, tier, seed).into_iter().enumerate() {
            let (cols, mbl) = configs[(oi + ii) % configs.len()];
            let c = Case {
                kind: Kind::B(op.clone()),
                ins,
                cols,
                mbl,
            };
            cases.push((c.key(), c));
        }
    }
    {
        let mut seen = std::collections::HashSet::new();
        cases.retain(|(k, _)| seen.insert(k.clone()));
    }
    if let Some(f) = &only {
        cases.retain(|(k, _)| k.contains(f.as_str()));
    }
    cx.extra("fields", json!(specs_json));

    // ---- cases of the non-canonical-input phase: all-field-element-input operations of the
    // secp256k1 fields x tuples over the values that have a second representation (+ one that has not)
    let mut pm_cases: Vec<(String, Case)> = vec![];
    for (fld, depth) in &flds {
        if *fld == Fld::BlsBase {
            continue;
        }
        let spec = fld.spec();
        let two: Vec<BigUint> = field_alphabet(&spec, seed, 1).into_iter().map(|(_, v)| v).filter(|v| noncanonical_input_plan(&spec, 0, v).is_some()).collect();
        let other: BigUint = (&spec.m - 1u32) >> 1;
        for op in field_ops(&spec, *depth, tier, seed) {
            let tys = op.in_types();
            let n_e = tys.iter().take_while(|t| **t == fops::Ty::E).count();
            if n_e == 0 || tys.iter().skip(n_e).any(|t| *t == fops::Ty::E) {
                continue;
            }
            let mut tuples: Vec<Vec<BigUint>> = vec![];
            let lim = if tier.is_thorough() { two.len() } else { two.len().min(2) };
            for d in 0..lim {
                // all inputs re-representable, and one mixed tuple
                tuples.push((0..n_e).map(|i| two[(d + i) % two.len()].clone()).collect());
                tuples.push((0..n_e).map(|_| two[d].clone()).collect());
                if n_e > 1 {
                    tuples.push((0..n_e).map(|i| if i == 0 { two[d].clone() } else { other.clone() }).collect());
                }
            }
            if let FOp::Chain(steps, _) = &op {
                // z equal to the accumulator whenever that value has a second representation too
                for t in tuples.clone() {
                    let acc = fops::chain_acc(&spec.m, steps, &t[0], &t[1]);
                    tuples.push(vec![t[0].clone(), t[1].clone(), acc]);
                }
            }
            tuples.sort();
            tuples.dedup();
            for t in tuples {
                let mut ins: Vec<V> = t.into_iter().map(V::U).collect();
                for ty in tys.iter().skip(n_e) {
                    match ty {
                        fops::Ty::B => ins.push(V::B(true)),
                        _ => unreachable!(),
                    }
                }
                let c = Case { kind: Kind::F(*fld, op.clone()), ins, cols: 4, mbl: 8 };
                pm_cases.push((c.key(), c));
            }
        }
    }
    if let Some(f) = &only {
        pm_cases.retain(|(k, _)| k.contains(f.as_str()));
    }

    // ---- k per (operation, configuration)
    let mut kreq: Vec<(String, Case)> = vec![];
    {
        let mut seen = std::collections::HashSet::new();
        for (_, c) in cases.iter().chain(pm_cases.iter()) {
            if seen.insert(c.kkey()) {
                kreq.push((c.kkey(), c.clone()));
            }
        }
    }
    let ks: Mutex<HashMap<String, u32>> = Mutex::new(HashMap::new());
    cpu_marks.push(("min-k", cpu_s()));
    cx.run_cases("min-k", &kreq, |c| {
        let mut o = CaseOut::batch();
        match vgad::min_k(c) {
            Ok(k) => {
                ks.lock().unwrap().insert(c.kkey(), k);
                o.count(&format!("k={k}"), 1);
            }
            Err(p) => {
                o.count("k-panic", 1);
                let class: String = p.chars().filter(|ch| !ch.is_ascii_digit()).take(48).collect::<String>().split_whitespace().collect::<Vec<_>>().join("-");
                let scope = match &c.kind {
                    Kind::F(f, _) => f.short(),
                    Kind::B(_) => "big",
                };
                o.viol(Viol::new(format!("{scope}:sizing-panic:{class}"), format!("building the circuit for {} without witnesses panicked: {p}", c.op()), json!({"op": c.opkey()})));
            }
        }
        o
    });
    if cx.is_replay() {
        par_for_each(&kreq, |(kk, c)| {
            if let Ok(k) = vgad::min_k(c) {
                ks.lock().unwrap().insert(kk.clone(), k);
            }
        });
    }
    let ks = ks.into_inner().unwrap();
    let kof = |c: &Case| ks.get(&c.kkey()).copied();
    let cases: Vec<(String, Case)> = cases.into_iter().filter(|(_, c)| kof(c).is_some()).collect();

    // ---- phase 1a: honest run of every case (0 deviations)
    struct Hon {
        n: u64,
        op_range: (u64, u64),
        exposed: usize,
    }
    let hon: Mutex<HashMap<String, Hon>> = Mutex::new(HashMap::new());
    let t_hon = std::time::Instant::now();
    cpu_marks.push(("honest", cpu_s()));
    cx.run_cases("honest", &cases, |c| {
        let mut out = CaseOut::batch();
        let k = kof(c).unwrap();
        fops::NONCANON_SEEN.with(|x| x.set(0));
        let run = vgad::run_once(c, k, vec![], false);
        let (s, e) = marks();
        out.eval(&format!("honest:{}", run.outcome.name()), true);
        let detail = || json!({"case": c.key(), "inputs": c.ins.iter().map(|v| match v { V::U(x) => hex_full(x), o => o.show() }).collect::<Vec<_>>()});
        match (&run.outcome, c.expect_sat()) {
            (Outcome::Sat, true) => match c.judge(&run.ins, &run.outs) {
                Judgement::Holds => {
                    hon.lock().unwrap().insert(c.key(), Hon { n: run.n_assign, op_range: (s, e), exposed: run.flat.len() });
                }
                Judgement::Wrong(w) => out.viol(Viol::new(
                    format!("{}:[{}]:honest-result-wrong", c.op(), c.input_class(false)),
                    format!("honest circuit is satisfied but its exposed result contradicts the reference: {w}"),
                    detail(),
                )),
            },
            (Outcome::Sat, false) => {
                if let Judgement::Wrong(w) = c.judge(&run.ins, &run.outs) {
                    out.viol(Viol::new(format!("{}:[{}]:out-of-domain-accepted", c.op(), c.input_class(false)), format!("input outside the documented domain is accepted: {w}"), detail()));
                }
            }
            (o, true) => {
                let what = match o {
                    Outcome::Unsat(e) => format!("unsatisfiable: {e}"),
                    Outcome::SynthErr(e) => format!("synthesis error: {e}"),
                    Outcome::Panic(e) => format!("panic: {e}"),
                    Outcome::Sat => unreachable!(),
                };
                out.viol(Viol::new(
                    format!("{}:[{}]:completeness:{}", c.op(), c.input_class(true), o.name()),
                    format!("honest witness for an admissible input is not accepted - {what}"),
                    detail(),
                ));
            }
            (_, false) => {}
        }
        out.counter("advice_assignments", run.n_assign);
        out.counter("noncanonical_exposures_accepted:honest", fops::NONCANON_SEEN.with(|x| x.get()));
        out.sample = Some(json!({"case": c.key(), "k": k, "honest": run.outcome.name(), "assignments": run.n_assign, "op_assignment_range": [s, e], "exposed": run.flat.len()}));
        out
    });
    if cx.is_replay() {
        // rebuild the table of honest runs that the later phases select from
        par_for_each(&cases, |(key, c)| {
            if hon.lock().unwrap().contains_key(key) || !c.expect_sat() {
                return;
            }
            let run = vgad::run_once(c, kof(c).unwrap(), vec![], false);
            let (s, e) = marks();
            if run.outcome == Outcome::Sat && c.judge(&run.ins, &run.outs) == Judgement::Holds {
                hon.lock().unwrap().insert(key.clone(), Hon { n: run.n_assign, op_range: (s, e), exposed: run.flat.len() });
            }
        });
    }
    let hon = hon.into_inner().unwrap();
    let hon_s = t_hon.elapsed().as_secs_f64();

    // ---- phase 2: non-canonical ("+m") representations of the inputs reach every consumer
    // (secp256k1 fields, configuration (4, 8)): every non-empty subset of the inputs that have a
    // second well-formed representation is re-represented, consistently with its range checks.
    let mut mcases: Vec<(String, (Case, Vec<Vec<usize>>))> = vec![];
    for (key, c) in &pm_cases {
        if kof(c).is_none() {
            continue;
        }
        let Kind::F(f, _) = &c.kind else { continue };
        let spec = f.spec();
        let cand: Vec<usize> = c
            .ins
            .iter()
            .enumerate()
            .filter(|(i, v)| matches!(v, V::U(x) if noncanonical_input_plan(&spec, *i, x).is_some()))
            .map(|(i, _)| i)
            .collect();
        let mut subsets = vec![];
        for mask in 1usize..(1 << cand.len()) {
            subsets.push(cand.iter().enumerate().filter(|(b, _)| mask >> b & 1 == 1).map(|(_, i)| *i).collect::<Vec<usize>>());
        }
        mcases.push((key.clone(), (c.clone(), subsets)));
    }
    cpu_marks.push(("plus-m", cpu_s()));
    cx.run_cases("plus-m", &mcases, |(c, subsets)| {
        let mut out = CaseOut::batch();
        let Kind::F(f, _) = &c.kind else { unreachable!() };
        let spec = f.spec();
        let k = kof(c).unwrap();
        // the canonical run must itself be in order (its defects are reported by the honest phase)
        let honest = vgad::run_once(c, k, vec![], false);
        let honest_ok = match (&honest.outcome, c.expect_sat()) {
            (Outcome::Sat, true) => c.judge(&honest.ins, &honest.outs) == Judgement::Holds,
            (Outcome::Sat, false) => false,
            (_, sat) => !sat,
        };
        if !honest_ok {
            out.count("plus-m:skipped-canonical-run-already-fails", 1);
            return out;
        }
        fops::NONCANON_SEEN.with(|x| x.set(0));
        for subset in subsets {
            let mut plan = vec![];
            for i in subset {
                plan.extend(noncanonical_input_plan(&spec, *i, c.ins[*i].u()).unwrap());
            }
            let n_plan = plan.len();
            let run = vgad::run_once(c, k, plan, false);
            // the injection itself must have produced well-formed non-canonical inputs
            let mut injected = run.applied.len() == n_plan;
            for i in subset {
                injected &= matches!(run.ins.get(*i).and_then(|raw| decode_field_limbs(&spec, raw)), Some(d) if !d.canonical && d.residue == *c.ins[*i].u());
            }
            if !injected {
                out.eval("plus-m:injection-failed", true);
                out.viol(Viol::new("harness:plus-m-injection", "the +m re-representation could not be injected (layout of FieldChip::assign changed?)", json!({"case": c.key()})));
                continue;
            }
            out.eval(&format!("plus-m:{}", run.outcome.name()), true);
            match (&run.outcome, c.expect_sat()) {
                (Outcome::Sat, _) => match c.judge(&run.ins, &run.outs) {
                    Judgement::Holds => out.count("plus-m:accepted-correct", 1),
                    Judgement::Wrong(w) => out.viol(Viol::new(
                        format!("{}:wrong-on-noncanonical-input", c.op()),
                        format!("inputs {subset:?} given in their second (+m) well-formed representation: circuit satisfied although {w}"),
                        json!({"case": c.key(), "noncanonical_inputs": subset}),
                    )),
                },
                (_, true) => {
                    // the residues are in the domain but this representation is refused: a
                    // representation-sensitive consumer (documented for assert_equal)
                    out.count("plus-m:representation-sensitive-reject", 1);
                    out.counter(&format!("representation_sensitive:{}", c.op()), 1);
                }
                (_, false) => out.count("plus-m:rejected-out-of-domain", 1),
            }
        }
        out.counter("noncanonical_exposures_accepted:plus-m", fops::NONCANON_SEEN.with(|x| x.get()));
        out
    });

    // ---- phase 3: 1-deviation faults in propagate mode
    let limb_faults = |l: u32| -> Vec<(&'static str, Fault)> { vec![("+base", Fault::AddPow2(l)), ("-base", Fault::SubPow2(l))] };
    let base_faults: Vec<(&'static str, Fault)> = {
        let f = vgad::default_faults(seed);
        if tier.is_thorough() {
            f
        } else {
            f.into_iter().filter(|(n, _)| ["+1", "zero", "random"].contains(n)).collect()
        }
    };
    // Operand tuples: one per operation (two in thorough), taken a few steps down the diagonal so
    // that the operands are not 0/1/2 (which take the library's shortcuts). Quick sweeps one
    // variant per (field, operation name) (BigUint: two width variants per operation name).
    let budget_runs: u64 = tier.pick(10_000, 800_000);
    let mut chosen: Vec<(&String, &Case, &Hon)> = vec![];
    {
        let want = 1usize;
        let mut by_op: HashMap<String, Vec<(&String, &Case, &Hon)>> = HashMap::new();
        let mut order: Vec<String> = vec![];
        for (key, c) in &cases {
            if let Some(h) = hon.get(key) {
                let e = by_op.entry(c.opkey()).or_default();
                if e.is_empty() {
                    order.push(c.opkey());
                }
                e.push((key, c, h));
            }
        }
        let mut variants: HashMap<String, usize> = HashMap::new();
        for ok in &order {
            let v = &by_op[ok];
            if !tier.is_thorough() {
                let (name, max_variants) = match &v[0].1.kind {
                    Kind::F(f, op) => (format!("{}.{}", f.short(), op.name()), 1),
                    Kind::B(op) => (op.name(), 2),
                };
                let cnt = variants.entry(name).or_default();
                *cnt += 1;
                if *cnt > max_variants {
                    continue;
                }
            }
            if kof(v[0].1).unwrap() > 12 {
                continue;
            }
            // prefer tuples whose integer operands are pairwise distinct and not 0/1/2
            let nice = |c: &Case| {
                let us: Vec<&BigUint> = c.ins.iter().filter_map(|v| if let V::U(x) = v { Some(x) } else { None }).collect();
                us.iter().all(|x| **x > bu(2)) && (0..us.len()).all(|i| (0..i).all(|j| us[i] != us[j]))
            };
            let mut picks: Vec<usize> = (0..v.len()).filter(|i| nice(v[*i].1)).collect();
            if picks.len() > 3 {
                // not the first nice one either: take the 2nd and the last
                picks = vec![picks[1], picks[picks.len() - 1]];
            }
            picks.extend(if v.len() > 4 { vec![4, 1] } else { vec![v.len() - 1, 0] });
            let mut taken = 0;
            for p in picks {
                if taken < want && !chosen.iter().any(|(k, _, _)| *k == v[p].0) {
                    chosen.push(v[p]);
                    taken += 1;
                }
            }
        }
    }
    let n_faults_per_idx = (base_faults.len() + tier.pick(1, 2)) as u64;
    // the index space: the operation's own assignments [a, b); the assignments of the inputs and of
    // the exposure are swept in full for the `Assign` operations (they are the same regions for
    // every operation) and, in thorough, at 4x the stride elsewhere
    let is_assign = |c: &Case| matches!(&c.kind, Kind::F(_, FOp::Assign) | Kind::B(BOp::Assign(_)));
    let small: u64 = tier.pick(40, 40);
    let op_len = |c: &Case, h: &Hon| if is_assign(c) { h.n } else { h.op_range.1 - h.op_range.0 };
    // no single operation takes more than `cap_per_op` indices
    let cap_per_op: u64 = tier.pick(200, 2500);
    let total_idx: u64 = chosen.iter().map(|(_, c, h)| op_len(c, h)).sum();
    let stride: u64 = (total_idx * n_faults_per_idx).div_ceil(budget_runs).max(1);
    let mut fcases: Vec<(String, (Case, Vec<u64>, Vec<(&'static str, Fault)>))> = vec![];
    let mut swept: u64 = 0;
    let (mut kind_extra, mut kinds_seen) = (0u64, 0u64);
    for (key, c, h) in &chosen {
        let s = if op_len(c, h) <= small { 1 } else { stride.max(op_len(c, h).div_ceil(cap_per_op)) };
        let (a, b) = if is_assign(c) { (0, h.n) } else { h.op_range };
        let phase = vcore::fnv(key) % s;
        let mut idxs: Vec<u64> = vec![];
        for i in 0..h.n {
            let inside = i >= a && i < b;
            if inside {
                if (i - a) % s == phase {
                    idxs.push(i);
                }
            } else if tier.is_thorough() && i % (4 * s) == phase {
                idxs.push(i);
            }
        }
        // besides the stride: the first assignment of every cell kind (region name, column,
        // region-relative offset) inside the operation, so that no region shape is stepped over
        let mut kind_idxs: Vec<u64> = vec![];
        if s > 1 {
            if let Some(kinds) = kof(c).and_then(|k| vcore::in_pool(1, || vgad::trace_kinds(*c, k))) {
                for (_, occ) in &kinds {
                    if let Some(i) = occ.iter().find(|i| **i >= a && **i < b) {
                        if !idxs.contains(i) {
                            kind_idxs.push(*i);
                        }
                    }
                }
                kind_idxs.sort();
                kind_idxs.dedup();
                kind_extra += kind_idxs.len() as u64;
                kinds_seen += kinds.iter().filter(|(_, occ)| occ.iter().any(|i| *i >= a && *i < b)).count() as u64;
            }
        }
        swept += (idxs.len() + kind_idxs.len()) as u64;
        let mut faults = base_faults.clone();
        let mut lf = match &c.kind {
            Kind::F(f, _) => limb_faults(f.spec().log2_base),
            Kind::B(_) => limb_faults(BIG_LOG2_BASE),
        };
        if !tier.is_thorough() {
            lf.truncate(1);
        }
        faults.extend(lf);
        for (ci, chunk) in idxs.chunks(8).enumerate() {
            fcases.push((format!("{key}#{ci}"), ((*c).clone(), chunk.to_vec(), faults.clone())));
        }
        // the kind representatives beyond the stride: the first two fault values in quick, all in thorough
        let kf: Vec<(&'static str, Fault)> = if tier.is_thorough() { faults.clone() } else { faults.iter().take(2).cloned().collect() };
        for (ci, chunk) in kind_idxs.chunks(16).enumerate() {
            fcases.push((format!("{key}#k{ci}"), ((*c).clone(), chunk.to_vec(), kf.clone())));
        }
    }
    cx.note(format!(
        "fault phase: {} operation variants x {} operand tuple(s); {} assignment indices inside the operations, stride {} (coarser for operations with more than {} assignments so that none takes more than that many indices; every index for operations with <= {} assignments; input-assignment and exposure regions: every index in the Assign operations{}); {} indices swept x {} faults",
        chosen.iter().map(|(_, c, _)| c.opkey()).collect::<std::collections::HashSet<_>>().len(),
        1,
        total_idx,
        stride,
        cap_per_op * stride,
        small,
        if tier.is_thorough() { ", 4x the stride elsewhere" } else { ", not swept elsewhere" },
        swept,
        n_faults_per_idx
    ));
    cx.note(format!("fault phase: strided operations contain {kinds_seen} cell kinds (region name, column, offset); the first assignment of each is swept as well ({kind_extra} indices beyond the stride)"));
    // round-robin over the operations (all first chunks, then all second chunks, ...): if the wall
    // budget caps this phase, every operation has been swept to the same depth
    {
        let chunk_no = |k: &String| k.rsplit_once('#').and_then(|(_, n)| n.trim_start_matches('k').parse::<usize>().ok()).unwrap_or(0);
        let mut order: Vec<usize> = (0..fcases.len()).collect();
        order.sort_by_key(|i| (chunk_no(&fcases[*i].0), *i));
        let mut tmp: Vec<Option<(String, (Case, Vec<u64>, Vec<(&'static str, Fault)>))>> = fcases.into_iter().map(Some).collect();
        fcases = order.into_iter().map(|i| tmp[i].take().unwrap()).collect();
    }
    // ---- phase 4: instance binding and exposed-value lies on selected operand tuples per
    // operation (these depend on the circuit's wiring, not on the operand values)
    let mut bcases: Vec<(String, Case)> = vec![];
    {
        // cost of a binding case ~ 5 verifications per exposed position: quick takes every operation
        // with at most 40 exposed positions and one representative per (field, operation name)
        // of the wider ones; thorough takes one tuple of every operation variant with at most 700 exposed positions
        let max_exposed = tier.pick(40usize, 700usize);
        let rep_max_exposed = tier.pick(300usize, 700usize);
        let want: &[usize] = &[4];
        let mut per_op: HashMap<String, Vec<(&String, &Case, usize)>> = HashMap::new();
        let mut order: Vec<String> = vec![];
        for (key, c) in &cases {
            let Some(h) = hon.get(key) else { continue };
            let e = per_op.entry(c.opkey()).or_default();
            if e.is_empty() {
                order.push(c.opkey());
            }
            e.push((key, c, h.exposed));
        }
        let mut wide_seen = std::collections::HashSet::new();
        let mut variants: HashMap<String, usize> = HashMap::new();
        for ok in &order {
            let v = &per_op[ok];
            if !tier.is_thorough() {
                let (name, max_variants) = match &v[0].1.kind {
                    Kind::F(f, op) => (format!("{}.{}", f.short(), op.name()), 1),
                    Kind::B(op) => (op.name(), 2),
                };
                let cnt = variants.entry(name).or_default();
                *cnt += 1;
                if *cnt > max_variants {
                    continue;
                }
            }
            // big circuits (2048-bit modular exponentiation ...) only get the honest run
            if kof(v[0].1).unwrap() > 12 {
                continue;
            }
            let mut picks: Vec<usize> = want.iter().map(|w| w - 1).filter(|i| *i < v.len()).collect();
            if picks.is_empty() {
                picks.push(0);
            }
            for p in picks {
                let (key, c, exposed) = v[p];
                if exposed > max_exposed {
                    let name = match &c.kind {
                        Kind::F(f, op) => format!("{}.{}", f.short(), op.name()),
                        Kind::B(op) => op.name(),
                    };
                    if exposed > rep_max_exposed || !wide_seen.insert(name) {
                        continue;
                    }
                }
                bcases.push((key.clone(), c.clone()));
            }
        }
    }
    // widest first (the cost of a case is proportional to its exposed positions)
    bcases.sort_by_key(|(key, _)| std::cmp::Reverse(hon.get(key).map(|h| h.exposed).unwrap_or(0)));
    cpu_marks.push(("binding", cpu_s()));
    cx.run_cases("binding", &bcases, |c| {
        let mut out = CaseOut::batch();
        let _ = vgad::explore_honest(c, kof(c).unwrap(), &mut out);
        out
    });

    // ---- phase 5: 2 deviations inside small operations: all pairs of the operation's own assignments x {+1, zero}^2
    let f2: Vec<_> = vgad::default_faults(seed).into_iter().filter(|(n, _)| ["+1", "zero"].contains(n)).collect();
    let mut pcases: Vec<(String, (Case, Vec<(u64, u64)>))> = vec![];
    {
        let mut seen_ops: std::collections::HashSet<String> = Default::default();
        let max_n = tier.pick(10u64, 28u64);
        for (key, c) in &cases {
            let Some(h) = hon.get(key) else { continue };
            let (a, b) = if is_assign(c) { (0, h.n) } else { h.op_range };
            if b - a > max_n || b - a < 2 {
                continue;
            }
            // not the first tuples (shortcuts for 0/1 operands give empty operations anyway)
            let name = if tier.is_thorough() {
                c.opkey()
            } else {
                match &c.kind {
                    Kind::F(f, op) => format!("{}.{}", f.short(), op.name()),
                    Kind::B(op) => op.name(),
                }
            };
            if !seen_ops.insert(name) {
                continue;
            }
            let mut pairs = vec![];
            for i in a..b {
                for j in i + 1..b {
                    pairs.push((i, j));
                }
            }
            for (ci, chunk) in pairs.chunks(8).enumerate() {
                pcases.push((format!("{key}#{ci}"), (c.clone(), chunk.to_vec())));
            }
        }
    }
    cpu_marks.push(("pairs", cpu_s()));
    cx.run_cases("pairs", &pcases, |(c, pairs)| {
        let mut out = CaseOut::batch();
        vgad::explore_pairs(c, kof(c).unwrap(), pairs, &f2, &mut out);
        out
    });

    // ---- the fault sweep itself runs last (it is the largest phase)
    if std::env::var("C05_DEBUG_KEYS").is_ok() {
        for (k, _) in fcases.iter().take(3) {
            eprintln!("FAULT-CASE-KEY faults/{k}");
        }
    }
    // ---- region-local alternative-witness search (vgad::laws) on the operand tuples chosen for
    // the fault phase: every set of <= 3 lookup rows of a region (limb and quotient range checks)
    // answered with a neighbouring row of the actual table, gates repaired through free affine
    // cells, copy constraints pinning, survivors replayed on the real circuit and judged by the
    // reference. Thorough tier only (the quick tier has no room for it).
    {
        let lcases: Vec<(String, Case)> = chosen
            .iter()
            .enumerate()
            .filter(|_| tier.is_thorough())
            .map(|(_, (key, c, _))| (format!("{key}#laws"), (*c).clone()))
            .collect();
        let cfg = vgad::laws::Cfg { max_combinations: 100_000, max_real_runs: 4, ..Default::default() };
        let max_regions = 32usize;
        cpu_marks.push(("laws", cpu_s()));
        cx.next_group_share(420.0);
        cx.run_cases("laws", &lcases, |c| {
            let mut out = CaseOut::batch();
            fops::NONCANON_SEEN.with(|x| x.set(0));
            match kof(c) {
                Some(k) if k <= 12 => {
                    vgad::laws::explore_all(c, k, &cfg, max_regions, &mut out);
                }
                _ => out.count("laws:skipped-large-circuit", 1),
            }
            out
        });
    }
    // ---- Curve25519 fields (from-scratch chips, see c25.rs): the same registry and references;
    // before the long 1-deviation sweep of the ZkStdLib fields, which takes whatever time is left
    c25_group::<midnight_curves::curve25519::Fp>(&mut cx, tier, seed);
    c25_group::<midnight_curves::curve25519::Scalar>(&mut cx, tier, seed);
    cpu_marks.push(("faults", cpu_s()));
    cx.run_cases("faults", &fcases, |(c, idxs, faults)| {
        let mut out = CaseOut::batch();
        fops::NONCANON_SEEN.with(|x| x.set(0));
        vgad::explore_faults(c, kof(c).unwrap(), idxs, faults, &mut out);
        out.counter("noncanonical_exposures_accepted:faults", fops::NONCANON_SEEN.with(|x| x.get()));
        if std::env::var("C05_DEBUG_BENIGN").is_ok() {
            for &idx in idxs {
                for (fname, fault) in faults {
                    let run = vgad::run_once(c, kof(c).unwrap(), vec![(idx, fault.clone(), Mode::Propagate)], false);
                    if run.outcome == Outcome::Sat && run.applied.first().map(|a| a.changed) == Some(true) {
                        let a = &run.applied[0];
                        eprintln!("BENIGN {} idx={idx} fault={fname} col={} off={} marks={:?}", c.key().chars().take(90).collect::<String>(), a.column, a.offset, marks());
                    }
                }
            }
        }
        out
    });

    cx.set_rule(&format!(
        "emulated fields x operation registry (assign/assign_fixed, add/sub/neg/mul/div/inv/inv0/square/pow, add_constant, mul_by_constant around the \
         limb-wise threshold, linear_combination, zero/equality tests and assertions incl. _to_fixed, select/cond_swap/cond_assert_equal, bit/byte/chunk \
         (de)composition, sgn0, conversions, is_square/assert_qr, and CHAINS leaving the accumulator un-normalised below and above the lazy-normalisation \
         threshold before mul/is_equal/assert/is_zero/div/inv0/bits/bytes/select/exposure) x operand alphabet {{0,1,2,m-1,m-2,(m-1)/2, all-ones limbs, \
         2^(L(n-1)), 2^L-1, 2^L, 2^L+1, 2^wf-m, seeded}} (diagonals in quick, full product for arity<=2 in thorough); BigUint gadget (assign, add, sub, mul, \
         div_rem, mod_exp n in {{0,1,2,3,65537}}, lower_than, (in)equality tests/assertions incl. different limb counts and constants, select, to/from \
         bits/bytes) x widths {{1,8,95,96,97,192,193{}}} x values {{0,1,2^w-1,2^(w-1),2^96-1,2^96,2^96+1,2^192-1,2^192,2^192+1,seeded}}; per case: honest run \
         (satisfiable with the reference result recomputed from the decoded exposed inputs, or unsatisfiable if out of domain); per operation \
         (selected operand tuples): every single-position edit of the exposed vector, every exposed value changed with its copy cycle, \
         advice-assignment indices (stride {} inside the operation) x faults {{{}, +2^LOG2_BASE{}}} in propagate mode; every non-empty subset of the inputs given in their second (+m) well-formed representation, injected consistently with the range checks (secp256k1 fields); all \
         pairs of the operation's own assignments x {{+1,zero}}^2 for operations with few assignments. A case is one (field|biguint, operation, parameters, inputs, configuration); \
         evaluations count MockProver verdicts.",
        if tier.is_thorough() { ",1024,2048" } else { "" },
        stride,
        base_faults.iter().map(|f| f.0).collect::<Vec<_>>().join(","),
        if tier.is_thorough() { ", -2^LOG2_BASE" } else { "" },
    ));
    cpu_marks.push(("end", cpu_s()));
    cx.note(format!(
        "process CPU seconds per phase: {}",
        cpu_marks.windows(2).map(|w| format!("{}={:.0}", w[0].0, w[1].1 - w[0].1)).collect::<Vec<_>>().join(", ")
    ));
    let _ = hon_s;
    if tier == Tier::Quick {
        cx.note("quick: secp256k1 base field with the full operation list; secp256k1 scalar field and BLS12-381 base field with a reduced list; BigUint widths <= 193 bits");
    }
    cx.note("Curve25519 field chips: honest runs of the whole registry and a 1-deviation sweep with a stride, through FromScratch circuits (not the +m re-representation, pair and laws phases). Not covered: assign_as_public_input and BigUintGadget::constrain_as_public_input (they write the instance column themselves, outside the exposure log of the engine)");
    if only.is_none() && cx.remaining_s() > 0.0 {
        let sat = cx.class_count("honest:honest:sat");
        let unsat = cx.class_count("honest:honest:unsat") + cx.class_count("honest:honest:synth-err") + cx.class_count("honest:honest:crash-unsat");
        cx.require(sat > 100 && unsat > 10, "need both satisfiable and out-of-domain cases");
        cx.require(cx.class_count("faults:fault:unsat") > 100, "faults must be rejected somewhere");
        cx.require(cx.class_count("binding:instance-edit:rejected") > 100 && cx.class_count("binding:cycle-lie:rejected") > 100, "instance edits and exposed-value lies must be exercised");
        cx.require(cx.class_count("plus-m:plus-m:sat") > 50, "non-canonical input representations must be accepted by most operations");
    }
    cx.finish()
}
