//! Emulated-field operation registry: every operation is (field, FOp, typed inputs) with a
//! reference semantics over num-bigint residues.

use midnight_circuits::{
    field::{
        decomposition::chip::P2RDecompositionChip,
        foreign::{params::{FieldEmulationParams, MultiEmulationParams as MEP}, AssignedField, FieldChip},
        NativeChip, NativeGadget,
    },
    instructions::*,
    types::{AssignedBit, AssignedByte, AssignedNative},
    CircuitField,
};
use midnight_proofs::{circuit::{Layouter, Value}, plonk::Error};
use num_bigint::BigUint;
use num_integer::Integer;
use num_traits::{One, Zero};
use vgad::{val::*, Exposer, Judgement, F};

use crate::{common::*, dec::*};

pub type NG = NativeGadget<F, P2RDecompositionChip<F>, NativeChip<F>>;
pub type FC<K> = FieldChip<F, K, MEP, NG>;
pub type AF<K> = AssignedField<F, K, MEP>;

#[derive(Clone, Copy, Debug, PartialEq, Eq, Hash, PartialOrd, Ord)]
pub enum Fld {
    SecpBase,
    SecpScalar,
    BlsBase,
}

impl Fld {
    pub fn spec(self) -> FieldSpec {
        match self {
            Fld::SecpBase => FieldSpec::of::<midnight_curves::k256::Fp, MEP>("secp256k1-Fp"),
            Fld::SecpScalar => FieldSpec::of::<midnight_curves::k256::Fq, MEP>("secp256k1-Fq"),
            Fld::BlsBase => FieldSpec::of::<midnight_curves::Fp, MEP>("bls12-381-Fp"),
        }
    }
    pub fn short(self) -> &'static str {
        match self {
            Fld::SecpBase => "secpFp",
            Fld::SecpScalar => "secpFq",
            Fld::BlsBase => "blsFp",
        }
    }
}

#[derive(Clone, Debug, PartialEq, Eq)]
pub enum Step {
    AddY,
    SubY,
    AddSelf,
    Neg,
    MulC(BigUint),
    AddC(BigUint),
}

#[derive(Clone, Debug, PartialEq, Eq)]
pub enum Cons {
    Expose,
    MulZ,
    IsEqualZ,
    AssertEqualZ,
    AssertNotEqualZ,
    IsZero,
    /// z / acc
    DivZByAcc,
    Inv0,
    ToLeBitsCanon,
    ToLeBytes,
    SelectZ,
}

#[derive(Clone, Debug, PartialEq, Eq)]
pub enum FOp {
    Assign,
    AssignFixed(BigUint),
    Add,
    Sub,
    Neg,
    Mul(Option<BigUint>),
    /// lhs is `assign_fixed(c0)`, rhs the (only) input, optional multiplying constant
    MulFixedLhs(BigUint, Option<BigUint>),
    Square,
    Pow(u64),
    Div,
    Inv,
    Inv0,
    AddConst(BigUint),
    MulConst(BigUint),
    LinComb(Vec<BigUint>, BigUint),
    AddAndMul(BigUint, BigUint, BigUint, BigUint, BigUint),
    IsZero,
    AssertZero,
    AssertNonZero,
    IsEqual,
    IsNotEqual,
    IsEqualToFixed(BigUint),
    IsNotEqualToFixed(BigUint),
    AssertEqual,
    AssertNotEqual,
    AssertEqualToFixed(BigUint),
    AssertNotEqualToFixed(BigUint),
    Select,
    CondAssertEqual,
    CondSwap,
    ToLeBits(Option<usize>, bool),
    ToBeBits(Option<usize>, bool),
    ToLeBytes(Option<usize>),
    ToBeBytes(Option<usize>),
    ToLeChunks(usize, Option<usize>),
    Sgn0,
    FromLeBits(usize),
    FromBeBits(usize),
    FromLeBytes(usize),
    FromBeBytes(usize),
    BitToField,
    ByteToField,
    IsSquare,
    AssertQr,
    /// inputs x, y, z: acc = steps(x, y), then the consumer (possibly with z)
    Chain(Vec<Step>, Cons),
}

#[derive(Clone, Copy, Debug, PartialEq, Eq)]
pub enum Ty {
    E,
    B,
    Y,
    Bits(usize),
    Bytes(usize),
}

impl FOp {
    pub fn name(&self) -> String {
        match self {
            FOp::Chain(_, c) => format!("Chain-{c:?}"),
            _ => {
                let s = format!("{self:?}");
                s.split(|c| c == '(' || c == ' ').next().unwrap().to_string()
            }
        }
    }
    pub fn in_types(&self) -> Vec<Ty> {
        use FOp::*;
        use Ty::*;
        match self {
            AssignFixed(_) => vec![],
            Assign | Neg | Square | Pow(_) | Inv | Inv0 | AddConst(_) | MulConst(_) | IsZero | AssertZero | AssertNonZero | IsEqualToFixed(_)
            | IsNotEqualToFixed(_) | AssertEqualToFixed(_) | AssertNotEqualToFixed(_) | ToLeBits(..) | ToBeBits(..) | ToLeBytes(_) | ToBeBytes(_)
            | ToLeChunks(..) | Sgn0 | IsSquare | AssertQr | MulFixedLhs(..) => vec![E],
            Add | Sub | Mul(_) | Div | IsEqual | IsNotEqual | AssertEqual | AssertNotEqual => vec![E, E],
            LinComb(cs, _) => vec![E; cs.len()],
            AddAndMul(..) => vec![E, E, E],
            Select | CondAssertEqual | CondSwap => vec![B, E, E],
            FromLeBits(n) | FromBeBits(n) => vec![Bits(*n)],
            FromLeBytes(n) | FromBeBytes(n) => vec![Bytes(*n)],
            BitToField => vec![B],
            ByteToField => vec![Y],
            Chain(_, Cons::SelectZ) => vec![E, E, E, B],
            Chain(..) => vec![E, E, E],
        }
    }
}

// ---------------------------------------------------------------------------------------------
// reference semantics
// ---------------------------------------------------------------------------------------------

pub struct Zm<'a>(pub &'a BigUint);

impl Zm<'_> {
    pub fn add(&self, a: &BigUint, b: &BigUint) -> BigUint {
        (a + b) % self.0
    }
    pub fn sub(&self, a: &BigUint, b: &BigUint) -> BigUint {
        ((a % self.0) + self.0 - (b % self.0)) % self.0
    }
    pub fn neg(&self, a: &BigUint) -> BigUint {
        (self.0 - (a % self.0)) % self.0
    }
    pub fn mul(&self, a: &BigUint, b: &BigUint) -> BigUint {
        (a * b) % self.0
    }
    pub fn inv(&self, a: &BigUint) -> Option<BigUint> {
        if (a % self.0).is_zero() {
            None
        } else {
            Some(a.modpow(&(self.0 - 2u32), self.0))
        }
    }
    pub fn is_square(&self, a: &BigUint) -> bool {
        let a = a % self.0;
        a.is_zero() || a.modpow(&((self.0 - 1u32) >> 1), self.0).is_one()
    }
}

pub fn chain_acc(m: &BigUint, steps: &[Step], x: &BigUint, y: &BigUint) -> BigUint {
    let z = Zm(m);
    let mut acc = x.clone();
    for s in steps {
        acc = match s {
            Step::AddY => z.add(&acc, y),
            Step::SubY => z.sub(&acc, y),
            Step::AddSelf => z.add(&acc, &acc),
            Step::Neg => z.neg(&acc),
            Step::MulC(c) => z.mul(&acc, c),
            Step::AddC(c) => z.add(&acc, c),
        };
    }
    acc
}

fn bits_le(x: &BigUint, n: usize) -> Vec<bool> {
    (0..n).map(|i| x.bit(i as u64)).collect()
}

fn bits_val(b: &[bool]) -> BigUint {
    let mut x = BigUint::zero();
    for (i, bit) in b.iter().enumerate() {
        if *bit {
            x.set_bit(i as u64, true);
        }
    }
    x
}

/// What the reference says about the outputs.
pub enum Expect {
    /// exactly these outputs
    Exact(Vec<V>),
    /// one bit-vector output of this length (in the order given by `be`) whose LE value is
    /// congruent to the residue mod m
    BitsCongruent { len: usize, be: bool, residue: BigUint },
    /// one chunk-vector output: `n` chunks of `bits` bits whose LE value is congruent to the
    /// residue mod m
    ChunksCongruent { n: usize, bits: usize, residue: BigUint },
}

/// `None` = inputs outside the operation's domain (the circuit must be unsatisfiable).
pub fn reference(spec: &FieldSpec, op: &FOp, ins: &[V]) -> Option<Expect> {
    use FOp::*;
    let m = &spec.m;
    let z = Zm(m);
    let e = |i: usize| ins[i].u().clone();
    let num_bits = m.bits() as usize;
    let ex = |v: Vec<V>| Some(Expect::Exact(v));
    match op {
        Assign => ex(vec![]),
        AssignFixed(c) => ex(vec![V::U(c % m)]),
        Add => ex(vec![V::U(z.add(&e(0), &e(1)))]),
        Sub => ex(vec![V::U(z.sub(&e(0), &e(1)))]),
        Neg => ex(vec![V::U(z.neg(&e(0)))]),
        Mul(c) => ex(vec![V::U(z.mul(&z.mul(&e(0), &e(1)), c.as_ref().unwrap_or(&BigUint::one())))]),
        MulFixedLhs(c0, c) => ex(vec![V::U(z.mul(&z.mul(c0, &e(0)), c.as_ref().unwrap_or(&BigUint::one())))]),
        Square => ex(vec![V::U(z.mul(&e(0), &e(0)))]),
        Pow(n) => ex(vec![V::U(e(0).modpow(&BigUint::from(*n), m))]),
        Div => {
            let i = z.inv(&e(1))?;
            ex(vec![V::U(z.mul(&e(0), &i))])
        }
        Inv => ex(vec![V::U(z.inv(&e(0))?)]),
        Inv0 => ex(vec![V::U(z.inv(&e(0)).unwrap_or_else(BigUint::zero))]),
        AddConst(c) => ex(vec![V::U(z.add(&e(0), c))]),
        MulConst(c) => ex(vec![V::U(z.mul(&e(0), c))]),
        LinComb(cs, k) => {
            let mut acc = k % m;
            for (i, c) in cs.iter().enumerate() {
                acc = z.add(&acc, &z.mul(c, &e(i)));
            }
            ex(vec![V::U(acc)])
        }
        AddAndMul(a, b, c, k, mm) => {
            let mut acc = k % m;
            acc = z.add(&acc, &z.mul(a, &e(0)));
            acc = z.add(&acc, &z.mul(b, &e(1)));
            acc = z.add(&acc, &z.mul(c, &e(2)));
            acc = z.add(&acc, &z.mul(mm, &z.mul(&e(0), &e(1))));
            ex(vec![V::U(acc)])
        }
        IsZero => ex(vec![V::B(e(0).is_zero())]),
        AssertZero => {
            if !e(0).is_zero() {
                return None;
            }
            ex(vec![])
        }
        AssertNonZero => {
            if e(0).is_zero() {
                return None;
            }
            ex(vec![])
        }
        IsEqual => ex(vec![V::B(e(0) == e(1))]),
        IsNotEqual => ex(vec![V::B(e(0) != e(1))]),
        IsEqualToFixed(c) => ex(vec![V::B(e(0) == c % m)]),
        IsNotEqualToFixed(c) => ex(vec![V::B(e(0) != c % m)]),
        AssertEqual => {
            if e(0) != e(1) {
                return None;
            }
            ex(vec![])
        }
        AssertNotEqual => {
            if e(0) == e(1) {
                return None;
            }
            ex(vec![])
        }
        AssertEqualToFixed(c) => {
            if e(0) != c % m {
                return None;
            }
            ex(vec![])
        }
        AssertNotEqualToFixed(c) => {
            if e(0) == c % m {
                return None;
            }
            ex(vec![])
        }
        Select => ex(vec![V::U(if ins[0].b() { e(1) } else { e(2) })]),
        CondAssertEqual => {
            if ins[0].b() && e(1) != e(2) {
                return None;
            }
            ex(vec![])
        }
        CondSwap => {
            if ins[0].b() {
                ex(vec![V::U(e(2)), V::U(e(1))])
            } else {
                ex(vec![V::U(e(1)), V::U(e(2))])
            }
        }
        ToLeBits(nb, canon) | ToBeBits(nb, canon) => {
            let n = nb.unwrap_or(num_bits);
            let be = matches!(op, ToBeBits(..));
            if e(0).bits() as usize > n {
                return None;
            }
            if *canon {
                let mut b = bits_le(&e(0), n);
                if be {
                    b.reverse();
                }
                ex(vec![V::Bits(b)])
            } else {
                Some(Expect::BitsCongruent { len: n, be, residue: e(0) })
            }
        }
        ToLeBytes(nb) | ToBeBytes(nb) => {
            let n = nb.unwrap_or(num_bits.div_ceil(8));
            if e(0).bits() as usize > 8 * n {
                return None;
            }
            let mut b = e(0).to_bytes_le();
            b.resize(n, 0);
            if matches!(op, ToBeBytes(_)) {
                b.reverse();
            }
            ex(vec![V::Bytes(b)])
        }
        ToLeChunks(bits, nc) => {
            let n = nc.unwrap_or(if spec.log2_base as usize % bits == 0 {
                (spec.log2_base as usize / bits) * spec.nb_limbs as usize
            } else {
                num_bits.div_ceil(*bits)
            });
            if e(0).bits() as usize > bits * n {
                return None;
            }
            Some(Expect::ChunksCongruent { n, bits: *bits, residue: e(0) })
        }
        Sgn0 => ex(vec![V::B(e(0).is_odd())]),
        FromLeBits(_) | FromBeBits(_) => {
            let V::Bits(b) = &ins[0] else { panic!() };
            let mut b = b.clone();
            if matches!(op, FromBeBits(_)) {
                b.reverse();
            }
            ex(vec![V::U(bits_val(&b) % m)])
        }
        FromLeBytes(_) | FromBeBytes(_) => {
            let V::Bytes(b) = &ins[0] else { panic!() };
            let mut b = b.clone();
            if matches!(op, FromBeBytes(_)) {
                b.reverse();
            }
            ex(vec![V::U(BigUint::from_bytes_le(&b) % m)])
        }
        BitToField => ex(vec![V::U(BigUint::from(ins[0].b() as u32))]),
        ByteToField => {
            let V::Y(y) = &ins[0] else { panic!() };
            ex(vec![V::U(BigUint::from(*y))])
        }
        IsSquare => ex(vec![V::B(z.is_square(&e(0)))]),
        AssertQr => {
            if !z.is_square(&e(0)) {
                return None;
            }
            ex(vec![])
        }
        Chain(steps, cons) => {
            let acc = chain_acc(m, steps, &e(0), &e(1));
            let zz = e(2);
            match cons {
                Cons::Expose => ex(vec![V::U(acc)]),
                Cons::MulZ => ex(vec![V::U(z.mul(&acc, &zz))]),
                Cons::IsEqualZ => ex(vec![V::B(acc == zz)]),
                Cons::AssertEqualZ => {
                    if acc != zz {
                        return None;
                    }
                    ex(vec![])
                }
                Cons::AssertNotEqualZ => {
                    if acc == zz {
                        return None;
                    }
                    ex(vec![])
                }
                Cons::IsZero => ex(vec![V::B(acc.is_zero())]),
                Cons::DivZByAcc => ex(vec![V::U(z.mul(&zz, &z.inv(&acc)?))]),
                Cons::Inv0 => ex(vec![V::U(z.inv(&acc).unwrap_or_else(BigUint::zero))]),
                Cons::ToLeBitsCanon => ex(vec![V::Bits(bits_le(&acc, num_bits))]),
                Cons::ToLeBytes => {
                    let mut b = acc.to_bytes_le();
                    b.resize(num_bits.div_ceil(8), 0);
                    ex(vec![V::Bytes(b)])
                }
                Cons::SelectZ => ex(vec![V::U(if ins[3].b() { acc } else { zz })]),
            }
        }
    }
}

// ---------------------------------------------------------------------------------------------
// judge
// ---------------------------------------------------------------------------------------------

fn rawhex(raw: &[F]) -> String {
    format!("[{}]", raw.iter().map(hex).collect::<Vec<_>>().join(","))
}

/// Decodes one exposed value of type `t`. Field elements are decoded up to well-formed
/// representation (a well-formed non-canonical vector is an admissible representation of its
/// residue by the library's own design; it is reported through `noncanon`).
fn decode(spec: &FieldSpec, t: Ty, raw: &[F], noncanon: &mut u32) -> Option<V> {
    match t {
        Ty::E => {
            let d = decode_field_limbs(spec, raw)?;
            if !d.canonical {
                *noncanon += 1;
            }
            Some(V::U(d.residue))
        }
        Ty::B => (raw.len() == 1).then(|| as_bool(&raw[0]).map(V::B)).flatten(),
        Ty::Y => (raw.len() == 1).then(|| as_u8(&raw[0]).map(V::Y)).flatten(),
        Ty::Bits(n) => {
            if raw.len() != n {
                return None;
            }
            raw.iter().map(as_bool).collect::<Option<Vec<_>>>().map(V::Bits)
        }
        Ty::Bytes(n) => {
            if raw.len() != n {
                return None;
            }
            raw.iter().map(as_u8).collect::<Option<Vec<_>>>().map(V::Bytes)
        }
    }
}

fn ty_of(v: &V) -> Ty {
    match v {
        V::U(_) => Ty::E,
        V::B(_) => Ty::B,
        V::Y(_) => Ty::Y,
        V::Bits(b) => Ty::Bits(b.len()),
        V::Bytes(b) => Ty::Bytes(b.len()),
        V::Nat(_) => unreachable!(),
    }
}

thread_local! {
    /// number of well-formed non-canonical field-element exposures seen by `judge_field` calls that
    /// returned `Holds` (read and reset by the driver)
    pub static NONCANON_SEEN: std::cell::Cell<u64> = const { std::cell::Cell::new(0) };
}

pub fn judge_field(spec: &FieldSpec, op: &FOp, ins: &[Vec<F>], outs: &[Vec<F>]) -> Judgement {
    let tys = op.in_types();
    if ins.len() != tys.len() {
        return Judgement::Wrong(format!("{} input exposures, expected {}", ins.len(), tys.len()));
    }
    let mut noncanon = 0u32;
    let mut dec = vec![];
    for (t, raw) in tys.iter().zip(ins) {
        match decode(spec, *t, raw, &mut noncanon) {
            Some(v) => dec.push(v),
            None => return Judgement::Wrong(format!("an exposed input is not a well-formed encoding ({t:?}: {})", rawhex(raw))),
        }
    }
    let shown = || dec.iter().map(|v| v.show()).collect::<Vec<_>>().join(", ");
    let Some(expect) = reference(spec, op, &dec) else {
        return Judgement::Wrong(format!("inputs [{}] are outside the operation's domain", shown()));
    };
    match expect {
        Expect::Exact(exp) => {
            if outs.len() != exp.len() {
                return Judgement::Wrong(format!("{} outputs exposed, reference has {}", outs.len(), exp.len()));
            }
            for (i, (raw, e)) in outs.iter().zip(&exp).enumerate() {
                match decode(spec, ty_of(e), raw, &mut noncanon) {
                    Some(v) if v == *e => {}
                    Some(v) => return Judgement::Wrong(format!("inputs [{}]: output {i} is {} but the reference says {}", shown(), v.show(), e.show())),
                    None => return Judgement::Wrong(format!("inputs [{}]: output {i} is not a well-formed encoding: {}", shown(), rawhex(raw))),
                }
            }
        }
        Expect::BitsCongruent { len, be, residue } => {
            if outs.len() != 1 || outs[0].len() != len {
                return Judgement::Wrong(format!("expected one output of {len} bits"));
            }
            let mut raw = outs[0].clone();
            if be {
                raw.reverse();
            }
            let Some(v) = decode_bits_le(&raw) else {
                return Judgement::Wrong(format!("output bits are not all boolean: {}", rawhex(&raw)));
            };
            if &v % &spec.m != residue {
                return Judgement::Wrong(format!("inputs [{}]: output bits encode {} which is not congruent to the input", shown(), hexs(&v)));
            }
        }
        Expect::ChunksCongruent { n, bits, residue } => {
            if outs.len() != 1 || outs[0].len() != n {
                return Judgement::Wrong(format!("expected one output of {n} chunks, got {:?}", outs.iter().map(|o| o.len()).collect::<Vec<_>>()));
            }
            let mut acc = BigUint::zero();
            for c in outs[0].iter().rev() {
                let c = to_big(c);
                if c.bits() as usize > bits {
                    return Judgement::Wrong(format!("inputs [{}]: a chunk ({}) exceeds {bits} bits", shown(), hexs(&c)));
                }
                acc = (acc << bits) + c;
            }
            if &acc % &spec.m != residue {
                return Judgement::Wrong(format!("inputs [{}]: chunks encode {} which is not congruent to the input", shown(), hexs(&acc)));
            }
        }
    }
    if noncanon > 0 {
        NONCANON_SEEN.with(|c| c.set(c.get() + noncanon as u64));
    }
    Judgement::Holds
}

// ---------------------------------------------------------------------------------------------
// synthesis
// ---------------------------------------------------------------------------------------------

enum A<K: CircuitField>
where
    MEP: FieldEmulationParams<F, K>,
{
    E(AF<K>),
    B(AssignedBit<F>),
    Y(AssignedByte<F>),
    Bits(Vec<AssignedBit<F>>),
    Bytes(Vec<AssignedByte<F>>),
    Nat(Vec<AssignedNative<F>>),
}

pub fn synth_field<K, L, N>(chip: &FC<K>, std: &N, l: &mut L, ex: &Exposer, op: &FOp, ins: &[V]) -> Result<(), Error>
where
    K: CircuitField,
    MEP: FieldEmulationParams<F, K>,
    L: Layouter<F>,
    N: AssignmentInstructions<F, AssignedBit<F>>
        + AssignmentInstructions<F, AssignedByte<F>>
        + PublicInputInstructions<F, AssignedBit<F>>
        + PublicInputInstructions<F, AssignedByte<F>>
        + PublicInputInstructions<F, AssignedNative<F>>,
{
    use FOp::*;
    let m = K::modulus();
    let k = |v: &BigUint| -> K { K::from_biguint(&(v % &m)).expect("canonical operand") };
    // ---- assign and expose the inputs
    let mut a: Vec<A<K>> = vec![];
    for v in ins {
        a.push(match v {
            V::U(x) => A::E(chip.assign(l, Value::known(k(x)))?),
            V::B(b) => A::B(std.assign(l, Value::known(*b))?),
            V::Y(y) => A::Y(std.assign(l, Value::known(*y))?),
            V::Bits(b) => A::Bits(std.assign_many(l, &b.iter().map(|x| Value::known(*x)).collect::<Vec<_>>())?),
            V::Bytes(b) => A::Bytes(std.assign_many(l, &b.iter().map(|x| Value::known(*x)).collect::<Vec<_>>())?),
            V::Nat(_) => unreachable!(),
        });
    }
    for x in &a {
        match x {
            A::E(c) => ex.input_with(chip, std, l, c)?,
            A::B(c) => ex.input(std, l, c)?,
            A::Y(c) => ex.input(std, l, c)?,
            A::Bits(c) => ex.input_with(&NatVecChip, std, l, &bits_to_natvec(c))?,
            A::Bytes(c) => ex.input_with(&NatVecChip, std, l, &bytes_to_natvec(c))?,
            A::Nat(_) => unreachable!(),
        }
    }
    let e = |i: usize| match &a[i] {
        A::E(c) => c.clone(),
        _ => unreachable!(),
    };
    let b = |i: usize| match &a[i] {
        A::B(c) => c.clone(),
        _ => unreachable!(),
    };
    let mut outs: Vec<A<K>> = vec![];
    mark_start();
    match op {
        Assign => {}
        AssignFixed(c) => outs.push(A::E(chip.assign_fixed(l, k(c))?)),
        Add => outs.push(A::E(chip.add(l, &e(0), &e(1))?)),
        Sub => outs.push(A::E(chip.sub(l, &e(0), &e(1))?)),
        Neg => outs.push(A::E(chip.neg(l, &e(0))?)),
        Mul(c) => outs.push(A::E(chip.mul(l, &e(0), &e(1), c.as_ref().map(&k))?)),
        MulFixedLhs(c0, c) => {
            let lhs: AF<K> = chip.assign_fixed(l, k(c0))?;
            outs.push(A::E(chip.mul(l, &lhs, &e(0), c.as_ref().map(&k))?))
        }
        Square => outs.push(A::E(chip.square(l, &e(0))?)),
        Pow(n) => outs.push(A::E(chip.pow(l, &e(0), *n)?)),
        Div => outs.push(A::E(chip.div(l, &e(0), &e(1))?)),
        Inv => outs.push(A::E(chip.inv(l, &e(0))?)),
        Inv0 => outs.push(A::E(chip.inv0(l, &e(0))?)),
        AddConst(c) => outs.push(A::E(chip.add_constant(l, &e(0), k(c))?)),
        MulConst(c) => outs.push(A::E(chip.mul_by_constant(l, &e(0), k(c))?)),
        LinComb(cs, kk) => {
            let terms: Vec<(K, AF<K>)> = cs.iter().enumerate().map(|(i, c)| (k(c), e(i))).collect();
            outs.push(A::E(chip.linear_combination(l, &terms, k(kk))?))
        }
        AddAndMul(ca, cb, cc, kk, mm) => outs.push(A::E(chip.add_and_mul(l, (k(ca), &e(0)), (k(cb), &e(1)), (k(cc), &e(2)), k(kk), k(mm))?)),
        IsZero => outs.push(A::B(chip.is_zero(l, &e(0))?)),
        AssertZero => chip.assert_zero(l, &e(0))?,
        AssertNonZero => chip.assert_non_zero(l, &e(0))?,
        IsEqual => outs.push(A::B(chip.is_equal(l, &e(0), &e(1))?)),
        IsNotEqual => outs.push(A::B(chip.is_not_equal(l, &e(0), &e(1))?)),
        IsEqualToFixed(c) => outs.push(A::B(chip.is_equal_to_fixed(l, &e(0), k(c))?)),
        IsNotEqualToFixed(c) => outs.push(A::B(chip.is_not_equal_to_fixed(l, &e(0), k(c))?)),
        AssertEqual => chip.assert_equal(l, &e(0), &e(1))?,
        AssertNotEqual => chip.assert_not_equal(l, &e(0), &e(1))?,
        AssertEqualToFixed(c) => chip.assert_equal_to_fixed(l, &e(0), k(c))?,
        AssertNotEqualToFixed(c) => chip.assert_not_equal_to_fixed(l, &e(0), k(c))?,
        Select => outs.push(A::E(chip.select(l, &b(0), &e(1), &e(2))?)),
        CondAssertEqual => chip.cond_assert_equal(l, &b(0), &e(1), &e(2))?,
        CondSwap => {
            let (x, y) = chip.cond_swap(l, &b(0), &e(1), &e(2))?;
            outs.push(A::E(x));
            outs.push(A::E(y));
        }
        ToLeBits(nb, canon) => outs.push(A::Bits(chip.assigned_to_le_bits(l, &e(0), *nb, *canon)?)),
        ToBeBits(nb, canon) => outs.push(A::Bits(chip.assigned_to_be_bits(l, &e(0), *nb, *canon)?)),
        ToLeBytes(nb) => outs.push(A::Bytes(chip.assigned_to_le_bytes(l, &e(0), *nb)?)),
        ToBeBytes(nb) => outs.push(A::Bytes(chip.assigned_to_be_bytes(l, &e(0), *nb)?)),
        ToLeChunks(bits, nc) => outs.push(A::Nat(chip.assigned_to_le_chunks(l, &e(0), *bits, *nc)?)),
        Sgn0 => outs.push(A::B(chip.sgn0(l, &e(0))?)),
        FromLeBits(_) | FromBeBits(_) => {
            let A::Bits(bits) = &a[0] else { unreachable!() };
            outs.push(A::E(if matches!(op, FromLeBits(_)) { chip.assigned_from_le_bits(l, bits)? } else { chip.assigned_from_be_bits(l, bits)? }))
        }
        FromLeBytes(_) | FromBeBytes(_) => {
            let A::Bytes(bytes) = &a[0] else { unreachable!() };
            outs.push(A::E(if matches!(op, FromLeBytes(_)) { chip.assigned_from_le_bytes(l, bytes)? } else { chip.assigned_from_be_bytes(l, bytes)? }))
        }
        BitToField => outs.push(A::E(chip.convert(l, &b(0))?)),
        ByteToField => {
            let A::Y(y) = &a[0] else { unreachable!() };
            outs.push(A::E(chip.convert(l, y)?))
        }
        IsSquare => outs.push(A::B(chip.is_square(l, &e(0))?)),
        AssertQr => chip.assert_qr(l, &e(0))?,
        Chain(steps, cons) => {
            let (x, y, zz) = (e(0), e(1), e(2));
            let mut acc = x;
            for s in steps {
                acc = match s {
                    Step::AddY => chip.add(l, &acc, &y)?,
                    Step::SubY => chip.sub(l, &acc, &y)?,
                    Step::AddSelf => chip.add(l, &acc, &acc)?,
                    Step::Neg => chip.neg(l, &acc)?,
                    Step::MulC(c) => chip.mul_by_constant(l, &acc, k(c))?,
                    Step::AddC(c) => chip.add_constant(l, &acc, k(c))?,
                };
            }
            match cons {
                Cons::Expose => outs.push(A::E(acc)),
                Cons::MulZ => outs.push(A::E(chip.mul(l, &acc, &zz, None)?)),
                Cons::IsEqualZ => outs.push(A::B(chip.is_equal(l, &acc, &zz)?)),
                Cons::AssertEqualZ => chip.assert_equal(l, &acc, &zz)?,
                Cons::AssertNotEqualZ => chip.assert_not_equal(l, &acc, &zz)?,
                Cons::IsZero => outs.push(A::B(chip.is_zero(l, &acc)?)),
                Cons::DivZByAcc => outs.push(A::E(chip.div(l, &zz, &acc)?)),
                Cons::Inv0 => outs.push(A::E(chip.inv0(l, &acc)?)),
                Cons::ToLeBitsCanon => outs.push(A::Bits(chip.assigned_to_le_bits(l, &acc, None, true)?)),
                Cons::ToLeBytes => outs.push(A::Bytes(chip.assigned_to_le_bytes(l, &acc, None)?)),
                Cons::SelectZ => outs.push(A::E(chip.select(l, &b(3), &acc, &zz)?)),
            }
        }
    }
    mark_end();
    for x in &outs {
        match x {
            A::E(c) => ex.output_with(chip, std, l, c)?,
            A::B(c) => ex.output(std, l, c)?,
            A::Y(c) => ex.output(std, l, c)?,
            A::Bits(c) => ex.output_with(&NatVecChip, std, l, &bits_to_natvec(c))?,
            A::Bytes(c) => ex.output_with(&NatVecChip, std, l, &bytes_to_natvec(c))?,
            A::Nat(c) => ex.output_with(&NatVecChip, std, l, &NatVec(c.clone()))?,
        }
    }
    Ok(())
}
