//! Big-unsigned-integer gadget operation registry (circuits/src/biguint/biguint_gadget.rs).
//!
//! `AssignedBigUint` has no `PublicInputInstructions` and its limbs are crate-private, so a value
//! is exposed through the gadget's own public API: `to_le_bytes` (12 bytes per base-2^96 limb,
//! which binds every limb to [0, 2^96)), each group of 12 bytes recombined into one native value
//! (`assigned_from_le_bytes`) and the vector of these values exposed in one call. The exposed
//! vector is exactly `AssignedBigUint::as_public_input(v, 96 * nb_limbs)`.

use midnight_circuits::{
    biguint::AssignedBigUint,
    instructions::*,
    types::{AssignedBit, AssignedByte, AssignedNative},
};
use midnight_proofs::{circuit::{Layouter, Value}, plonk::Error};
use midnight_zk_stdlib::ZkStdLib;
use num_bigint::BigUint;
use num_integer::Integer;
use num_traits::Zero;
use vgad::{val::*, Exposer, Judgement, F};

use crate::{common::*, dec::*};

#[derive(Clone, Debug, PartialEq, Eq)]
pub enum BOp {
    /// assign_biguint(x, nb_bits)
    Assign(u32),
    AssignFixed(BigUint),
    Add(u32, u32),
    Sub(u32, u32),
    Mul(u32, u32),
    DivRem(u32, u32),
    /// x width, exponent, modulus width
    ModExp(u32, u64, u32),
    LowerThan(u32, u32),
    IsEqual(u32, u32),
    IsNotEqual(u32, u32),
    IsEqualToFixed(u32, BigUint),
    IsNotEqualToFixed(u32, BigUint),
    AssertEqual(u32, u32),
    AssertNotEqual(u32, u32),
    AssertEqualToFixed(u32, BigUint),
    AssertNotEqualToFixed(u32, BigUint),
    Select(u32, u32),
    ToLeBits(u32),
    ToLeBytes(u32),
    FromLeBits(usize),
    FromLeBytes(usize),
    /// (x + y) * z: an addition result feeding a multiplication
    AddMul(u32, u32, u32),
    /// binary operation between an assigned x (width) and a constant assigned with
    /// `assign_fixed_biguint` (whose limb-size bookkeeping is separate from `assign_biguint`'s);
    /// the flag puts the constant on the left
    WithFixed(FK, u32, BigUint, bool),
}

#[derive(Clone, Copy, Debug, PartialEq, Eq)]
pub enum FK {
    Add,
    Sub,
    Mul,
    DivRem,
    LowerThan,
}

/// input descriptor: big integer of a declared width, bit, bit vector, byte vector
#[derive(Clone, Copy, Debug, PartialEq, Eq)]
pub enum BTy {
    U(u32),
    B,
    Bits(usize),
    Bytes(usize),
}

impl BOp {
    pub fn name(&self) -> String {
        let s = format!("{self:?}");
        format!("Big{}", s.split(|c| c == '(' || c == ' ').next().unwrap())
    }
    pub fn in_types(&self) -> Vec<BTy> {
        use BOp::*;
        match self {
            WithFixed(_, w, _, _) => vec![BTy::U(*w)],
            Assign(w) | IsEqualToFixed(w, _) | IsNotEqualToFixed(w, _) | AssertEqualToFixed(w, _) | AssertNotEqualToFixed(w, _) | ToLeBits(w) | ToLeBytes(w) => vec![BTy::U(*w)],
            AssignFixed(_) => vec![],
            Add(a, b) | Sub(a, b) | Mul(a, b) | DivRem(a, b) | LowerThan(a, b) | IsEqual(a, b) | IsNotEqual(a, b) | AssertEqual(a, b) | AssertNotEqual(a, b) => vec![BTy::U(*a), BTy::U(*b)],
            ModExp(a, _, b) => vec![BTy::U(*a), BTy::U(*b)],
            Select(a, b) => vec![BTy::B, BTy::U(*a), BTy::U(*b)],
            FromLeBits(n) => vec![BTy::Bits(*n)],
            FromLeBytes(n) => vec![BTy::Bytes(*n)],
            AddMul(a, b, c) => vec![BTy::U(*a), BTy::U(*b), BTy::U(*c)],
        }
    }
}

/// `None` = outside the domain (must be unsatisfiable). Inputs of type `U(w)` must be below 2^w.
pub fn reference(op: &BOp, ins: &[V]) -> Option<Vec<V>> {
    use BOp::*;
    for (t, v) in op.in_types().iter().zip(ins) {
        if let (BTy::U(w), V::U(x)) = (t, v) {
            if x.bits() > *w as u64 {
                return None;
            }
        }
    }
    let u = |i: usize| ins[i].u().clone();
    Some(match op {
        Assign(_) => vec![],
        AssignFixed(c) => vec![V::U(c.clone())],
        Add(..) => vec![V::U(u(0) + u(1))],
        Sub(..) => {
            if u(0) < u(1) {
                return None;
            }
            vec![V::U(u(0) - u(1))]
        }
        Mul(..) => vec![V::U(u(0) * u(1))],
        DivRem(..) => {
            if u(1).is_zero() {
                return None;
            }
            let (q, r) = u(0).div_rem(&u(1));
            vec![V::U(q), V::U(r)]
        }
        ModExp(_, n, _) => {
            if u(1).is_zero() {
                return None;
            }
            vec![V::U(u(0).modpow(&BigUint::from(*n), &u(1)))]
        }
        LowerThan(..) => vec![V::B(u(0) < u(1))],
        IsEqual(..) => vec![V::B(u(0) == u(1))],
        IsNotEqual(..) => vec![V::B(u(0) != u(1))],
        IsEqualToFixed(_, c) => vec![V::B(u(0) == *c)],
        IsNotEqualToFixed(_, c) => vec![V::B(u(0) != *c)],
        AssertEqual(..) => {
            if u(0) != u(1) {
                return None;
            }
            vec![]
        }
        AssertNotEqual(..) => {
            if u(0) == u(1) {
                return None;
            }
            vec![]
        }
        AssertEqualToFixed(_, c) => {
            if u(0) != *c {
                return None;
            }
            vec![]
        }
        AssertNotEqualToFixed(_, c) => {
            if u(0) == *c {
                return None;
            }
            vec![]
        }
        Select(..) => vec![V::U(if ins[0].b() { u(1) } else { u(2) })],
        ToLeBits(w) => {
            let n = 96 * u32::div_ceil(*w, 96) as usize;
            vec![V::Bits((0..n).map(|i| u(0).bit(i as u64)).collect())]
        }
        ToLeBytes(w) => {
            let n = 12 * u32::div_ceil(*w, 96) as usize;
            let mut b = u(0).to_bytes_le();
            b.resize(n, 0);
            vec![V::Bytes(b)]
        }
        FromLeBits(_) => {
            let V::Bits(b) = &ins[0] else { panic!() };
            let mut x = BigUint::zero();
            for (i, bit) in b.iter().enumerate() {
                if *bit {
                    x.set_bit(i as u64, true);
                }
            }
            vec![V::U(x)]
        }
        FromLeBytes(_) => {
            let V::Bytes(b) = &ins[0] else { panic!() };
            vec![V::U(BigUint::from_bytes_le(b))]
        }
        AddMul(..) => vec![V::U((u(0) + u(1)) * u(2))],
        WithFixed(k, _, c, lhs) => {
            let (a, b) = if *lhs { (c.clone(), u(0)) } else { (u(0), c.clone()) };
            match k {
                FK::Add => vec![V::U(a + b)],
                FK::Sub => {
                    if a < b {
                        return None;
                    }
                    vec![V::U(a - b)]
                }
                FK::Mul => vec![V::U(a * b)],
                FK::DivRem => {
                    if b.is_zero() {
                        return None;
                    }
                    let (q, r) = a.div_rem(&b);
                    vec![V::U(q), V::U(r)]
                }
                FK::LowerThan => vec![V::B(a < b)],
            }
        }
    })
}

fn rawhex(raw: &[F]) -> String {
    format!("[{}]", raw.iter().map(hex).collect::<Vec<_>>().join(","))
}

fn decode_in(t: BTy, raw: &[F]) -> Option<V> {
    match t {
        BTy::U(_) => decode_biguint_limbs(raw).map(V::U),
        BTy::B => (raw.len() == 1).then(|| as_bool(&raw[0]).map(V::B)).flatten(),
        BTy::Bits(n) => {
            if raw.len() != n {
                return None;
            }
            raw.iter().map(as_bool).collect::<Option<Vec<_>>>().map(V::Bits)
        }
        BTy::Bytes(n) => {
            if raw.len() != n {
                return None;
            }
            raw.iter().map(as_u8).collect::<Option<Vec<_>>>().map(V::Bytes)
        }
    }
}

pub fn judge_big(op: &BOp, ins: &[Vec<F>], outs: &[Vec<F>]) -> Judgement {
    let tys = op.in_types();
    if ins.len() != tys.len() {
        return Judgement::Wrong(format!("{} input exposures, expected {}", ins.len(), tys.len()));
    }
    let mut dec = vec![];
    for (t, raw) in tys.iter().zip(ins) {
        match decode_in(*t, raw) {
            Some(v) => dec.push(v),
            None => return Judgement::Wrong(format!("an exposed input is not a canonical encoding ({t:?}: {})", rawhex(raw))),
        }
    }
    let shown = || dec.iter().map(|v| v.show()).collect::<Vec<_>>().join(", ");
    let Some(exp) = reference(op, &dec) else {
        return Judgement::Wrong(format!("inputs [{}] are outside the operation's domain {:?}", shown(), tys));
    };
    if outs.len() != exp.len() {
        return Judgement::Wrong(format!("{} outputs exposed, reference has {}", outs.len(), exp.len()));
    }
    for (i, (raw, e)) in outs.iter().zip(&exp).enumerate() {
        let got = match e {
            V::U(_) => decode_biguint_limbs(raw).map(V::U),
            V::B(_) => decode_in(BTy::B, raw),
            V::Bits(b) => decode_in(BTy::Bits(b.len()), raw),
            V::Bytes(b) => decode_in(BTy::Bytes(b.len()), raw),
            _ => unreachable!(),
        };
        match got {
            Some(v) if v == *e => {}
            Some(v) => return Judgement::Wrong(format!("inputs [{}]: output {i} is {} but the reference says {}", shown(), v.show(), e.show())),
            None => return Judgement::Wrong(format!("inputs [{}]: output {i} is not a canonical encoding: {}", shown(), rawhex(raw))),
        }
    }
    Judgement::Holds
}

enum A {
    U(AssignedBigUint<F>),
    B(AssignedBit<F>),
    Bits(Vec<AssignedBit<F>>),
    Bytes(Vec<AssignedByte<F>>),
}

/// Exposes a big unsigned integer as its vector of base-2^96 limbs (see the module comment).
fn limbs_for_exposure<L: Layouter<F>>(std: &ZkStdLib, l: &mut L, x: &AssignedBigUint<F>) -> Result<NatVec, Error> {
    let bytes = std.biguint().to_le_bytes(l, x)?;
    let mut limbs: Vec<AssignedNative<F>> = vec![];
    for chunk in bytes.chunks(12) {
        limbs.push(std.assigned_from_le_bytes(l, chunk)?);
    }
    Ok(NatVec(limbs))
}

pub fn synth_big<L: Layouter<F>>(std: &ZkStdLib, l: &mut L, ex: &Exposer, op: &BOp, ins: &[V]) -> Result<(), Error> {
    use BOp::*;
    let g = std.biguint();
    let tys = op.in_types();
    let mut a: Vec<A> = vec![];
    for (t, v) in tys.iter().zip(ins) {
        a.push(match (t, v) {
            (BTy::U(w), V::U(x)) => A::U(g.assign_biguint(l, Value::known(x.clone()), *w)?),
            (BTy::B, V::B(b)) => A::B(std.assign(l, Value::known(*b))?),
            (BTy::Bits(_), V::Bits(b)) => A::Bits(std.assign_many(l, &b.iter().map(|x| Value::known(*x)).collect::<Vec<_>>())?),
            (BTy::Bytes(_), V::Bytes(b)) => A::Bytes(std.assign_many(l, &b.iter().map(|x| Value::known(*x)).collect::<Vec<_>>())?),
            _ => panic!("ill-typed case"),
        });
    }
    for x in &a {
        match x {
            A::U(c) => {
                let nv = limbs_for_exposure(std, l, c)?;
                ex.input_with(&NatVecChip, std, l, &nv)?
            }
            A::B(c) => ex.input(std, l, c)?,
            A::Bits(c) => ex.input_with(&NatVecChip, std, l, &bits_to_natvec(c))?,
            A::Bytes(c) => ex.input_with(&NatVecChip, std, l, &bytes_to_natvec(c))?,
        }
    }
    let u = |i: usize| match &a[i] {
        A::U(c) => c.clone(),
        _ => unreachable!(),
    };
    let mut outs: Vec<A> = vec![];
    mark_start();
    match op {
        Assign(_) => {}
        AssignFixed(c) => outs.push(A::U(g.assign_fixed_biguint(l, c.clone())?)),
        Add(..) => outs.push(A::U(g.add(l, &u(0), &u(1))?)),
        Sub(..) => outs.push(A::U(g.sub(l, &u(0), &u(1))?)),
        Mul(..) => outs.push(A::U(g.mul(l, &u(0), &u(1))?)),
        DivRem(..) => {
            let (q, r) = g.div_rem(l, &u(0), &u(1))?;
            outs.push(A::U(q));
            outs.push(A::U(r));
        }
        ModExp(_, n, _) => outs.push(A::U(g.mod_exp(l, &u(0), *n, &u(1))?)),
        LowerThan(..) => outs.push(A::B(g.lower_than(l, &u(0), &u(1))?)),
        IsEqual(..) => outs.push(A::B(g.is_equal(l, &u(0), &u(1))?)),
        IsNotEqual(..) => outs.push(A::B(g.is_not_equal(l, &u(0), &u(1))?)),
        IsEqualToFixed(_, c) => outs.push(A::B(g.is_equal_to_fixed(l, &u(0), c.clone())?)),
        IsNotEqualToFixed(_, c) => outs.push(A::B(g.is_not_equal_to_fixed(l, &u(0), c.clone())?)),
        AssertEqual(..) => g.assert_equal(l, &u(0), &u(1))?,
        AssertNotEqual(..) => g.assert_not_equal(l, &u(0), &u(1))?,
        AssertEqualToFixed(_, c) => g.assert_equal_to_fixed(l, &u(0), c.clone())?,
        AssertNotEqualToFixed(_, c) => g.assert_not_equal_to_fixed(l, &u(0), c.clone())?,
        Select(..) => {
            let A::B(b) = &a[0] else { unreachable!() };
            outs.push(A::U(g.select(l, b, &u(1), &u(2))?))
        }
        ToLeBits(_) => outs.push(A::Bits(g.to_le_bits(l, &u(0))?)),
        ToLeBytes(_) => outs.push(A::Bytes(g.to_le_bytes(l, &u(0))?)),
        FromLeBits(_) => {
            let A::Bits(b) = &a[0] else { unreachable!() };
            outs.push(A::U(g.from_le_bits(l, b)?))
        }
        FromLeBytes(_) => {
            let A::Bytes(b) = &a[0] else { unreachable!() };
            outs.push(A::U(g.from_le_bytes(l, b)?))
        }
        AddMul(..) => {
            let s = g.add(l, &u(0), &u(1))?;
            outs.push(A::U(g.mul(l, &s, &u(2))?))
        }
        WithFixed(k, _, c, lhs) => {
            let cf = g.assign_fixed_biguint(l, c.clone())?;
            let (x, y) = if *lhs { (cf, u(0)) } else { (u(0), cf) };
            match k {
                FK::Add => outs.push(A::U(g.add(l, &x, &y)?)),
                FK::Sub => outs.push(A::U(g.sub(l, &x, &y)?)),
                FK::Mul => outs.push(A::U(g.mul(l, &x, &y)?)),
                FK::DivRem => {
                    let (q, r) = g.div_rem(l, &x, &y)?;
                    outs.push(A::U(q));
                    outs.push(A::U(r));
                }
                FK::LowerThan => outs.push(A::B(g.lower_than(l, &x, &y)?)),
            }
        }
    }
    mark_end();
    for x in &outs {
        match x {
            A::U(c) => {
                let nv = limbs_for_exposure(std, l, c)?;
                ex.output_with(&NatVecChip, std, l, &nv)?
            }
            A::B(c) => ex.output(std, l, c)?,
            A::Bits(c) => ex.output_with(&NatVecChip, std, l, &bits_to_natvec(c))?,
            A::Bytes(c) => ex.output_with(&NatVecChip, std, l, &bytes_to_natvec(c))?,
        }
    }
    Ok(())
}
