//! Curve25519 base and scalar fields emulated over the BLS12-381 scalar field. ZkStdLib does not
//! instantiate these chips, so they are configured "from scratch" (feature `testing`): a native
//! gadget and a `FieldChip` built on it, with the same operation registry, reference semantics
//! and judge as the secp256k1 / BLS12-381 fields. Their parameters differ from those: 5 limbs of
//! 51 bits (LOG2_BASE not a multiple of 8), and a most significant limb with a tighter bound.

use std::marker::PhantomData;

use midnight_circuits::{
    field::{
        decomposition::chip::P2RDecompositionConfig,
        foreign::{field_chip::{nb_field_chip_columns, FieldChipConfig}, params::{FieldEmulationParams, MultiEmulationParams as MEP}},
    },
    instructions::PublicInputInstructions,
    testing_utils::FromScratch,
    types::AssignedNative,
    CircuitField,
};
use midnight_proofs::{
    circuit::{Layouter, Value},
    plonk::{Column, ConstraintSystem, Error, Instance},
};
use vgad::{Exposer, Judgement, ScratchCase, F};

use crate::{
    common::V,
    dec::FieldSpec,
    fops::{self, FOp, FC, NG},
};

pub trait C25Field: CircuitField
where
    MEP: FieldEmulationParams<F, Self>,
{
    const SHORT: &'static str;
    fn spec() -> FieldSpec;
}

impl C25Field for midnight_curves::curve25519::Fp {
    const SHORT: &'static str = "c25519Fp";
    fn spec() -> FieldSpec {
        FieldSpec::of::<Self, MEP>("curve25519-Fp")
    }
}

impl C25Field for midnight_curves::curve25519::Scalar {
    const SHORT: &'static str = "c25519Fq";
    fn spec() -> FieldSpec {
        FieldSpec::of::<Self, MEP>("curve25519-Scalar")
    }
}

#[derive(Clone, Debug)]
pub struct C25Chip<K: C25Field>
where
    MEP: FieldEmulationParams<F, K>,
{
    pub ng: NG,
    pub fc: FC<K>,
}

impl<K: C25Field> FromScratch<F> for C25Chip<K>
where
    MEP: FieldEmulationParams<F, K>,
{
    type Config = (P2RDecompositionConfig, FieldChipConfig);
    fn new_from_scratch(config: &Self::Config) -> Self {
        let ng = NG::new_from_scratch(&config.0);
        // FieldChip::new clones the gadget; the clone shares the table bookkeeping of `ng`
        let fc = FC::<K>::new(&config.1, &ng);
        C25Chip { ng, fc }
    }
    fn configure_from_scratch(meta: &mut ConstraintSystem<F>, instance_columns: &[Column<Instance>; 2]) -> Self::Config {
        let ngc = NG::configure_from_scratch(meta, instance_columns);
        let cols = (0..nb_field_chip_columns::<F, K, MEP>()).map(|_| meta.advice_column()).collect::<Vec<_>>();
        (ngc, FC::<K>::configure(meta, &cols))
    }
    fn load_from_scratch(&self, layouter: &mut impl Layouter<F>) -> Result<(), Error> {
        self.ng.load_from_scratch(layouter)
    }
}

impl<K: C25Field> PublicInputInstructions<F, AssignedNative<F>> for C25Chip<K>
where
    MEP: FieldEmulationParams<F, K>,
{
    fn as_public_input(&self, l: &mut impl Layouter<F>, x: &AssignedNative<F>) -> Result<Vec<AssignedNative<F>>, Error> {
        self.ng.as_public_input(l, x)
    }
    fn constrain_as_public_input(&self, l: &mut impl Layouter<F>, x: &AssignedNative<F>) -> Result<(), Error> {
        self.ng.constrain_as_public_input(l, x)
    }
    fn assign_as_public_input(&self, l: &mut impl Layouter<F>, v: Value<F>) -> Result<AssignedNative<F>, Error> {
        self.ng.assign_as_public_input(l, v)
    }
}

#[derive(Clone, Debug)]
pub struct XCase<K> {
    pub op: FOp,
    pub ins: Vec<V>,
    pub _k: PhantomData<fn() -> K>,
}

impl<K: C25Field> XCase<K>
where
    MEP: FieldEmulationParams<F, K>,
{
    pub fn new(op: FOp, ins: Vec<V>) -> Self {
        XCase { op, ins, _k: PhantomData }
    }
}

impl<K: C25Field> ScratchCase for XCase<K>
where
    MEP: FieldEmulationParams<F, K>,
{
    type Chip = C25Chip<K>;
    fn key(&self) -> String {
        let ins = self.ins.iter().map(|v| v.show()).collect::<Vec<_>>().join(",");
        format!("{}:{:?}[{}]", K::SHORT, self.op, ins)
    }
    fn op(&self) -> String {
        format!("{}.{}", K::SHORT, crate::abbreviate(&format!("{:?}", self.op)))
    }
    fn expect_sat(&self) -> bool {
        fops::reference(&K::spec(), &self.op, &self.ins).is_some()
    }
    fn judge(&self, ins: &[Vec<F>], outs: &[Vec<F>]) -> Judgement {
        fops::judge_field(&K::spec(), &self.op, ins, outs)
    }
    fn synth<L: Layouter<F>>(&self, chip: &Self::Chip, l: &mut L, ex: &Exposer) -> Result<(), Error> {
        fops::synth_field(&chip.fc, &chip.ng, l, ex, &self.op, &self.ins)
    }
}
