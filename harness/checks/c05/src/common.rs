//! Shared plumbing: typed values, the vector-of-natives exposure wrapper, op-range marks.

use std::cell::Cell;

use midnight_circuits::{
    instructions::PublicInputInstructions,
    types::{AssignedBit, AssignedByte, AssignedNative, InnerValue, Instantiable},
};
use midnight_proofs::{
    circuit::{Layouter, Value},
    plonk::Error,
};
use num_bigint::BigUint;
use vgad::F;

/// A typed value of the reference model.
#[derive(Clone, Debug, PartialEq, Eq)]
pub enum V {
    /// emulated field element (residue) or big unsigned integer
    U(BigUint),
    B(bool),
    Y(u8),
    /// bit vector (LE)
    Bits(Vec<bool>),
    /// byte vector (LE)
    Bytes(Vec<u8>),
    /// native values (chunks)
    Nat(Vec<BigUint>),
}

/// Hex form; values of more than 100 hex digits are abbreviated (head, tail, bit length and a hash
/// of the full value keep the text unique).
pub fn hexs(x: &BigUint) -> String {
    let h = x.to_str_radix(16);
    if h.len() > 100 {
        format!("0x{}..{}(bits={},fnv={:08x})", &h[..8], &h[h.len() - 8..], x.bits(), vcore::fnv(&h) as u32)
    } else {
        format!("0x{h}")
    }
}

pub fn hex_full(x: &BigUint) -> String {
    format!("0x{}", x.to_str_radix(16))
}

impl V {
    pub fn show(&self) -> String {
        match self {
            V::U(x) => hexs(x),
            V::B(b) => format!("{}", *b as u8),
            V::Y(y) => format!("y{y}"),
            V::Bits(b) => {
                let mut x = BigUint::from(0u32);
                for (i, bit) in b.iter().enumerate() {
                    if *bit {
                        x.set_bit(i as u64, true);
                    }
                }
                format!("bits{}:{}", b.len(), hexs(&x))
            }
            V::Bytes(b) => format!("bytes{}:{}", b.len(), hexs(&BigUint::from_bytes_le(b))),
            V::Nat(v) => format!("[{}]", v.iter().map(hexs).collect::<Vec<_>>().join(",")),
        }
    }
    pub fn u(&self) -> &BigUint {
        match self {
            V::U(x) => x,
            _ => panic!("not an integer"),
        }
    }
    pub fn b(&self) -> bool {
        match self {
            V::B(b) => *b,
            _ => panic!("not a bit"),
        }
    }
}

// ---------------------------------------------------------------------------------------------
// exposure of a vector of native cells as ONE exposure call
// ---------------------------------------------------------------------------------------------

/// A vector of native cells exposed verbatim (used for bit/byte/chunk vectors and for the
/// base-2^96 limbs of a big unsigned integer).
#[derive(Clone, Debug)]
pub struct NatVec(pub Vec<AssignedNative<F>>);

impl InnerValue for NatVec {
    type Element = Vec<F>;
    fn value(&self) -> Value<Vec<F>> {
        Value::from_iter(self.0.iter().map(|c| c.value().copied()))
    }
}

impl Instantiable<F> for NatVec {
    fn as_public_input(element: &Vec<F>) -> Vec<F> {
        element.clone()
    }
}

pub struct NatVecChip;

impl PublicInputInstructions<F, NatVec> for NatVecChip {
    fn as_public_input(&self, _: &mut impl Layouter<F>, assigned: &NatVec) -> Result<Vec<AssignedNative<F>>, Error> {
        Ok(assigned.0.clone())
    }
    fn constrain_as_public_input(&self, _: &mut impl Layouter<F>, _: &NatVec) -> Result<(), Error> {
        unimplemented!()
    }
    fn assign_as_public_input(&self, _: &mut impl Layouter<F>, _: Value<Vec<F>>) -> Result<NatVec, Error> {
        unimplemented!()
    }
}

pub fn bits_to_natvec(bits: &[AssignedBit<F>]) -> NatVec {
    NatVec(bits.iter().map(|b| b.clone().into()).collect())
}

pub fn bytes_to_natvec(bytes: &[AssignedByte<F>]) -> NatVec {
    NatVec(bytes.iter().map(|b| b.clone().into()).collect())
}

// ---------------------------------------------------------------------------------------------
// marks: the range of advice-assignment indices used by the operation itself (as opposed to the
// assignment of the inputs and the exposure of the outputs)
// ---------------------------------------------------------------------------------------------

thread_local! {
    static MARK: Cell<(u64, u64)> = const { Cell::new((0, 0)) };
}

pub fn mark_start() {
    let c = midnight_proofs::verif::counters().0;
    MARK.with(|m| m.set((c, c)));
}

pub fn mark_end() {
    let c = midnight_proofs::verif::counters().0;
    MARK.with(|m| m.set((m.get().0, c)));
}

/// (first index of the operation, first index after the operation) of the last synthesis on this
/// thread.
pub fn marks() -> (u64, u64) {
    MARK.with(|m| m.get())
}
