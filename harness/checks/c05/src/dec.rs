//! Decoders of raw public-input vectors for emulated field elements and big unsigned integers
//! (reusable by other checks), plus the matching reference encoders.
//!
//! Emulated field element of K over F (`AssignedField<F, K, P>`), see
//! circuits/src/field/foreign/field_chip.rs: limbs `[x_0..x_{n-1}]` in base `2^LOG2_BASE`
//! represent the integer `1 + sum_i base^i x_i`; the off-circuit encoding
//! `Instantiable::as_public_input(v)` is the base-`2^LOG2_BASE` little-endian decomposition of
//! `(v - 1) mod m` in exactly `NB_LIMBS` limbs. A limb vector is *well-formed* if limb i is below
//! `2^wf_bits[i]` (`well_formed_log2_bounds`); it is *canonical* if additionally the represented
//! integer `sum_i base^i x_i` is below `m`. The library deliberately admits well-formed
//! non-canonical vectors ("some of them have two representations").
//!
//! Big unsigned integer (`AssignedBigUint<F>`), see circuits/src/biguint/types.rs:
//! `AssignedBigUint::as_public_input(v, nb_bits)` is the base-`2^96` little-endian decomposition
//! in `ceil(nb_bits / 96)` limbs.

use midnight_circuits::{
    field::foreign::{params::FieldEmulationParams, well_formed_log2_bounds},
    CircuitField,
};
use num_bigint::BigUint;
use num_traits::{One, Zero};
use vgad::{val::*, F};

pub const BIG_LOG2_BASE: u32 = 96;

/// Static description of one emulated field (K over the BLS12-381 scalar field).
#[derive(Clone, Debug)]
pub struct FieldSpec {
    pub name: &'static str,
    pub m: BigUint,
    pub log2_base: u32,
    pub nb_limbs: u32,
    /// per-limb well-formedness bound (log2), least significant limb first
    pub wf_bits: Vec<u32>,
    /// auxiliary moduli count (for the notes)
    pub nb_moduli: usize,
}

impl FieldSpec {
    pub fn of<K: CircuitField, P: FieldEmulationParams<F, K>>(name: &'static str) -> Self {
        FieldSpec {
            name,
            m: K::modulus(),
            log2_base: P::LOG2_BASE,
            nb_limbs: P::NB_LIMBS,
            wf_bits: well_formed_log2_bounds::<F, K, P>(),
            nb_moduli: P::moduli().len(),
        }
    }
    pub fn base(&self) -> BigUint {
        BigUint::one() << self.log2_base
    }
    /// total number of bits of a well-formed limb vector
    pub fn wf_total_bits(&self) -> u32 {
        self.wf_bits.iter().sum()
    }
}

/// Result of decoding a limb vector of an emulated field element.
#[derive(Clone, Debug, PartialEq, Eq)]
pub struct FieldDec {
    /// the residue in [0, m)
    pub residue: BigUint,
    /// is the vector the canonical encoding (`Instantiable::as_public_input(residue)`)?
    pub canonical: bool,
}

/// Decodes the raw exposed limbs of an emulated field element. `None` if the vector has the wrong
/// length or a limb is outside its well-formedness range.
pub fn decode_field_limbs(spec: &FieldSpec, raw: &[F]) -> Option<FieldDec> {
    if raw.len() != spec.nb_limbs as usize {
        return None;
    }
    let mut acc = BigUint::zero();
    for (i, x) in raw.iter().enumerate().rev() {
        let xi = to_big(x);
        if xi.bits() > spec.wf_bits[i] as u64 {
            return None;
        }
        acc = (acc << spec.log2_base) + xi;
    }
    let canonical = acc < spec.m;
    Some(FieldDec {
        residue: (acc + 1u32) % &spec.m,
        canonical,
    })
}

/// Strict decoder: `Some(v)` iff `raw == Instantiable::as_public_input(v)`.
pub fn decode_field_canonical(spec: &FieldSpec, raw: &[F]) -> Option<BigUint> {
    decode_field_limbs(spec, raw).filter(|d| d.canonical).map(|d| d.residue)
}

/// Reference encoder (mirror of `Instantiable::as_public_input` for `AssignedField`).
pub fn encode_field(spec: &FieldSpec, v: &BigUint) -> Vec<F> {
    let mut x = (v + &spec.m - 1u32) % &spec.m;
    let mask = spec.base() - 1u32;
    let mut out = vec![];
    for _ in 0..spec.nb_limbs {
        out.push(from_big(&(&x & &mask)));
        x >>= spec.log2_base;
    }
    assert!(x.is_zero());
    out
}

/// The limbs (as integers) of the integer `l` in the field's base, exactly `nb_limbs` of them.
pub fn limbs_of(spec: &FieldSpec, l: &BigUint) -> Vec<BigUint> {
    let mask = spec.base() - 1u32;
    let mut x = l.clone();
    let mut out = vec![];
    for _ in 0..spec.nb_limbs {
        out.push(&x & &mask);
        x >>= spec.log2_base;
    }
    out
}

/// Decodes base-2^96 limbs of a big unsigned integer. `None` if a limb is not below 2^96.
pub fn decode_biguint_limbs(raw: &[F]) -> Option<BigUint> {
    let mut acc = BigUint::zero();
    for x in raw.iter().rev() {
        let xi = to_big(x);
        if xi.bits() > BIG_LOG2_BASE as u64 {
            return None;
        }
        acc = (acc << BIG_LOG2_BASE) + xi;
    }
    Some(acc)
}

/// Reference encoder (mirror of `AssignedBigUint::as_public_input(v, nb_bits)`); `None` if `v`
/// does not fit.
pub fn encode_biguint(v: &BigUint, nb_bits: u32) -> Option<Vec<F>> {
    let n = nb_bits.div_ceil(BIG_LOG2_BASE);
    let mask = (BigUint::one() << BIG_LOG2_BASE) - 1u32;
    let mut x = v.clone();
    let mut out = vec![];
    for _ in 0..n {
        out.push(from_big(&(&x & &mask)));
        x >>= BIG_LOG2_BASE;
    }
    if x.is_zero() {
        Some(out)
    } else {
        None
    }
}

/// Decodes a vector of exposed bits (each must be 0 or 1), little-endian.
pub fn decode_bits_le(raw: &[F]) -> Option<BigUint> {
    let mut acc = BigUint::zero();
    for (i, b) in raw.iter().enumerate() {
        if as_bool(b)? {
            acc.set_bit(i as u64, true);
        }
    }
    Some(acc)
}

/// Decodes a vector of exposed bytes (each must be below 256), little-endian.
#[allow(dead_code)]
pub fn decode_bytes_le(raw: &[F]) -> Option<BigUint> {
    let mut bytes = vec![];
    for b in raw {
        bytes.push(as_u8(b)?);
    }
    Some(BigUint::from_bytes_le(&bytes))
}
