//! C13 — the pairing is bilinear, non-degenerate and consistent across entry points.
//!
//! Space (complete enumeration): scalar alphabet² × G1 alphabet × G2 alphabet for bilinearity
//! through every entry point; all pair lists of length 0..=3 over a 4-pair alphabet (incl.
//! identity members) plus longer lists on a diagonal for the multi-Miller-loop product rule;
//! target-group axioms on a small alphabet. Both engines (BLS12-381, BN254).

use ff::Field;
use group::{prime::PrimeCurveAffine, Curve, Group};
use pairing::{Engine, MillerLoopResult, MultiMillerLoop};
use serde_json::json;
use vcore::{catch, panic_site, CaseOut, Ctx, Level, Viol};

fn scalars<F: Field>(cx: &Ctx, tag: &str) -> Vec<(String, F)> {
    let mut rng = cx.rng(&format!("c13-scalars-{tag}"));
    vec![
        ("0".into(), F::ZERO),
        ("1".into(), F::ONE),
        ("2".into(), F::ONE.double()),
        ("r-1".into(), -F::ONE),
        ("s0".into(), F::random(&mut rng)),
        ("s1".into(), F::random(&mut rng)),
        // thorough only (the quick tier takes the first five)
        ("r-2".into(), -F::ONE.double()),
        ("(r-1)/2".into(), (-F::ONE) * F::ONE.double().invert().unwrap()),
        ("2^64".into(), F::ONE.double().pow_vartime([64u64])),
        ("2^128".into(), F::ONE.double().pow_vartime([128u64])),
        ("2^254".into(), F::ONE.double().pow_vartime([254u64])),
    ]
}

fn run_engine<E>(cx: &mut Ctx, name: &'static str)
where
    E: MultiMillerLoop,
    E::G1Affine: PrimeCurveAffine<Curve = E::G1, Scalar = E::Fr> + Sync,
    E::G2Affine: PrimeCurveAffine<Curve = E::G2, Scalar = E::Fr> + Sync,
    E::G1: Curve<AffineRepr = E::G1Affine> + Group<Scalar = E::Fr>,
    E::G2: Curve<AffineRepr = E::G2Affine> + Group<Scalar = E::Fr>,
    E::Gt: Group<Scalar = E::Fr> + Sync,
    E::Fr: Sync,
    E::G2Prepared: From<E::G2Affine>,
{
    let mut rng = cx.rng(&format!("c13-points-{name}"));
    let mut g1s: Vec<(String, E::G1Affine)> = vec![
        ("O".into(), E::G1Affine::identity()),
        ("G".into(), E::G1Affine::generator()),
        ("P".into(), E::G1::random(&mut rng).to_affine()),
    ];
    let mut g2s: Vec<(String, E::G2Affine)> = vec![
        ("O".into(), E::G2Affine::identity()),
        ("G".into(), E::G2Affine::generator()),
        ("Q".into(), E::G2::random(&mut rng).to_affine()),
    ];
    // opposite points (both tiers: additivity and cancelling lists need them)
    let (neg_p, neg_q) = ((-g1s[2].1.to_curve()).to_affine(), (-g2s[2].1.to_curve()).to_affine());
    g1s.push(("-P".into(), neg_p));
    g2s.push(("-Q".into(), neg_q));
    if cx.tier.is_thorough() {
        let (g1, g2) = (E::G1Affine::generator().to_curve(), E::G2Affine::generator().to_curve());
        g1s.push(("-G".into(), (-g1).to_affine()));
        g1s.push(("2G".into(), g1.double().to_affine()));
        g1s.push(("P'".into(), E::G1::random(&mut rng).to_affine()));
        g2s.push(("-G".into(), (-g2).to_affine()));
        g2s.push(("2G".into(), g2.double().to_affine()));
        g2s.push(("Q'".into(), E::G2::random(&mut rng).to_affine()));
    }
    let sc = scalars::<E::Fr>(cx, name);
    let sc = if cx.tier.is_thorough() { sc } else { sc[..5].to_vec() };

    // ---- (1) bilinearity through every entry point
    let mut cases = vec![];
    for (pn, p) in &g1s {
        for (qn, q) in &g2s {
            for (an, a) in &sc {
                for (bn, b) in &sc {
                    cases.push((format!("{name}:e({an}*{pn},{bn}*{qn})"), (*p, *q, *a, *b, pn == "O" || qn == "O" || an == "0" || bn == "0")));
                }
            }
        }
    }
    cx.run_cases(&format!("{name}-bilinear"), &cases, |(p, q, a, b, degenerate)| {
        let mut out = CaseOut::batch();
        let r = catch(|| {
            let ap = (*p * *a).to_affine();
            let bq = (*q * *b).to_affine();
            let base = E::pairing(p, q);
            let expect = base * (*a * *b);
            let lhs = E::pairing(&ap, &bq);
            // entry point 2: multi-Miller loop of one prepared pair
            let prep = E::G2Prepared::from(bq);
            let via_mml = E::multi_miller_loop(&[(&ap, &prep)]).final_exponentiation();
            // linearity in each argument separately
            let left = E::pairing(&ap, q) * *b;
            let right = E::pairing(p, &bq) * *a;
            let is_id = lhs == E::Gt::identity();
            let should_be_id = bool::from(ap.is_identity()) || bool::from(bq.is_identity());
            (lhs == expect, via_mml == lhs, left == expect && right == expect, is_id, should_be_id)
        });
        match r {
            Err(p) => out.viol(Viol::new(format!("{name}:pairing:panic:{}", panic_site(&p)), format!("pairing panicked: {p}"), json!({}))),
            Ok((bil, entry, lin, is_id, should)) => {
                out.eval(if is_id { "identity" } else { "non-identity" }, !*degenerate);
                if !bil {
                    out.viol(Viol::new(format!("{name}:bilinearity"), "e(aP,bQ) != e(P,Q)^(ab)", json!({})));
                }
                if !entry {
                    out.viol(Viol::new(format!("{name}:entry-point-mismatch"), "multi_miller_loop+final_exponentiation != pairing", json!({})));
                }
                if !lin {
                    out.viol(Viol::new(format!("{name}:linearity"), "e(aP,Q)^b or e(P,bQ)^a differs", json!({})));
                }
                if is_id != should {
                    out.viol(Viol::new(format!("{name}:degeneracy"), format!("e is identity = {is_id} but an argument is the identity = {should}"), json!({})));
                }
            }
        }
        out
    });

    // ---- (1b) additivity in each slot over the whole point alphabets (equal and opposite
    // operands included): e(P1 + P2, Q) = e(P1, Q) e(P2, Q), e(P, Q1 + Q2) = e(P, Q1) e(P, Q2)
    let mut cases = vec![];
    for (an, a) in &g1s {
        for (bn, b) in &g1s {
            for (qn, q) in &g2s {
                cases.push((format!("{name}:add1({an}+{bn},{qn})"), (Some((*a, *b, *q)), None, an != "O" && bn != "O" && qn != "O")));
            }
        }
    }
    for (pn, p) in &g1s {
        for (an, a) in &g2s {
            for (bn, b) in &g2s {
                cases.push((format!("{name}:add2({pn},{an}+{bn})"), (None, Some((*p, *a, *b)), pn != "O" && an != "O" && bn != "O")));
            }
        }
    }
    cx.run_cases(&format!("{name}-additive"), &cases, |(first, second, proper)| {
        let mut out = CaseOut::batch();
        let r = catch(|| match (first, second) {
            (Some((a, b, q)), _) => E::pairing(&(a.to_curve() + b.to_curve()).to_affine(), q) == E::pairing(a, q) + E::pairing(b, q),
            (_, Some((p, a, b))) => E::pairing(p, &(a.to_curve() + b.to_curve()).to_affine()) == E::pairing(p, a) + E::pairing(p, b),
            _ => true,
        });
        match r {
            Err(p) => out.viol(Viol::new(format!("{name}:pairing:panic:{}", panic_site(&p)), format!("pairing panicked: {p}"), json!({}))),
            Ok(ok) => {
                out.eval("additive", *proper);
                if !ok {
                    out.viol(Viol::new(format!("{name}:additivity"), "e is not additive in one of its arguments", json!({})));
                }
            }
        }
        out
    });

    // ---- (2) product rule on lists
    let mut pair_alpha: Vec<(String, E::G1Affine, E::G2Affine)> = vec![
        ("GG".into(), g1s[1].1, g2s[1].1),
        ("PQ".into(), g1s[2].1, g2s[2].1),
        ("OQ".into(), g1s[0].1, g2s[2].1),
        ("PO".into(), g1s[2].1, g2s[0].1),
    ];
    if cx.tier.is_thorough() {
        // members that cancel against PQ (the shape of a KZG check) and the doubly degenerate pair
        pair_alpha.push(("-PQ".into(), g1s[3].1, g2s[2].1));
        pair_alpha.push(("P-Q".into(), g1s[2].1, g2s[3].1));
        pair_alpha.push(("OO".into(), g1s[0].1, g2s[0].1));
    }
    let mut lists: Vec<Vec<usize>> = vec![vec![]];
    let mut frontier: Vec<Vec<usize>> = vec![vec![]];
    for _ in 0..cx.tier.pick(3, 4) {
        let mut next = vec![];
        for l in &frontier {
            for i in 0..pair_alpha.len() {
                let mut m = l.clone();
                m.push(i);
                next.push(m);
            }
        }
        lists.extend(next.iter().cloned());
        frontier = next;
    }
    for len in (cx.tier.pick(3usize, 4usize) + 1)..=8usize {
        for start in 0..pair_alpha.len() {
            lists.push((0..len).map(|j| (start + j) % pair_alpha.len()).collect());
        }
        lists.push(vec![2; len]); // all-degenerate list
        let mut l = vec![0; len];
        l[len - 1] = 3; // identity member last
        lists.push(l);
    }
    let cases: Vec<(String, Vec<usize>)> = lists
        .into_iter()
        .map(|l| (format!("{name}:[{}]", l.iter().map(|i| pair_alpha[*i].0.clone()).collect::<Vec<_>>().join(",")), l))
        .collect();
    cx.run_cases(&format!("{name}-lists"), &cases, |l| {
        let mut out = CaseOut::batch();
        let r = catch(|| {
            let preps: Vec<E::G2Prepared> = l.iter().map(|i| E::G2Prepared::from(pair_alpha[*i].2)).collect();
            let terms: Vec<(&E::G1Affine, &E::G2Prepared)> = l.iter().zip(preps.iter()).map(|(i, pr)| (&pair_alpha[*i].1, pr)).collect();
            let got = E::multi_miller_loop(&terms).final_exponentiation();
            let expect: E::Gt = l.iter().fold(E::Gt::identity(), |acc, i| acc + E::pairing(&pair_alpha[*i].1, &pair_alpha[*i].2));
            got == expect
        });
        let degenerate_members = l.iter().filter(|i| [2usize, 3, 6].contains(*i)).count();
        match r {
            Err(p) => out.viol(Viol::new(format!("{name}:mml:panic:len={}", if l.is_empty() { "0".into() } else { ">0".to_string() }), format!("multi_miller_loop panicked: {p}"), json!({"list": l}))),
            Ok(ok) => {
                out.eval(if degenerate_members == 0 { "all-proper" } else { "with-identity-members" }, l.len() >= 2);
                if !ok {
                    let key = if l.is_empty() {
                        format!("{name}:mml:empty-list-not-one")
                    } else {
                        format!("{name}:mml:product-rule")
                    };
                    out.viol(Viol::new(key, "final_exponentiation(multi_miller_loop(list)) != product of pairings", json!({"list": l})));
                }
            }
        }
        out.sample = Some(json!({"list": l.iter().map(|i| pair_alpha[*i].0.clone()).collect::<Vec<_>>()}));
        out
    });

    // ---- (3) target group axioms
    let gen = E::pairing(&g1s[1].1, &g2s[1].1);
    let gts: Vec<(String, E::Gt)> = vec![
        ("1".into(), E::Gt::identity()),
        ("g".into(), gen),
        ("-g".into(), -gen),
        ("h".into(), E::pairing(&g1s[2].1, &g2s[2].1)),
        ("2h-g".into(), E::pairing(&g1s[2].1, &g2s[2].1).double() - gen),
    ];
    // `Gt::generator()` is an explicit `unimplemented!()` stub for the BN254 dev curve; it is
    // compared with e(G1, G2) only where it is provided.
    let published_gen: Option<E::Gt> = catch(|| E::Gt::generator()).ok();
    if published_gen.is_none() {
        cx.note(format!("{name}: Gt::generator() is an unimplemented!() stub; comparison with e(G1,G2) skipped"));
    }
    let mut cases = vec![];
    for (an, a) in &gts {
        for (bn, b) in &gts {
            for (cn, c) in &gts {
                cases.push((format!("{name}:gt({an},{bn},{cn})"), (*a, *b, *c)));
            }
        }
    }
    let scal = sc.clone();
    cx.run_cases(&format!("{name}-gt"), &cases, |(a, b, c)| {
        let mut out = CaseOut::batch();
        let r = catch(|| {
            let assoc = (*a + *b) + *c == *a + (*b + *c);
            let comm = *a + *b == *b + *a;
            let ident = *a + E::Gt::identity() == *a;
            let inv = *a + (-*a) == E::Gt::identity() && *a - *a == E::Gt::identity();
            let dbl = a.double() == *a + *a;
            // order r: (r-1)·a + a = 1
            let order = *a * (-E::Fr::ONE) + *a == E::Gt::identity();
            let mut acc = *a;
            acc += *b;
            acc -= *b;
            let assign = acc == *a;
            // scalar action is a homomorphism
            let mut hom = true;
            for (_, s) in &scal {
                for (_, t) in &scal {
                    hom &= *a * (*s + *t) == *a * *s + *a * *t;
                    hom &= (*a * *s) * *t == *a * (*s * *t);
                }
            }
            (assoc, comm, ident, inv, dbl, order, assign, hom)
        });
        match r {
            Err(p) => out.viol(Viol::new(format!("{name}:gt:panic"), format!("Gt arithmetic panicked: {p}"), json!({}))),
            Ok(t) => {
                out.eval("gt-axioms", true);
                let names = ["assoc", "comm", "identity", "inverse", "double", "order-r", "assign-ops", "scalar-hom"];
                let vals = [t.0, t.1, t.2, t.3, t.4, t.5, t.6, t.7];
                for (n, v) in names.iter().zip(vals) {
                    if !v {
                        out.viol(Viol::new(format!("{name}:gt:{n}"), format!("target group law `{n}` fails"), json!({})));
                    }
                }
            }
        }
        out
    });
    // the published Gt generator is e(G1, G2)
    if let Some(pg) = published_gen {
        let mut o = CaseOut::one("gt-generator", true);
        if pg != gen {
            o.viol(Viol::new(format!("{name}:gt:generator"), "Gt::generator() != e(G1::generator, G2::generator)", json!({})));
        }
        cx.record(&format!("{name}-gt"), &format!("{name}:generator"), o);
    }
}

/// BLS12-381-specific entry points: free `pairing`, prepared from projective, MillerLoopResult `+`.
fn bls_specific(cx: &mut Ctx) {
    use midnight_curves::{bls12_381, Bls12, G1Affine, G1Projective, G2Affine, G2Prepared, G2Projective, Gt};
    let mut rng = cx.rng("c13-bls-specific");
    let p = G1Projective::random(&mut rng).to_affine();
    let q = G2Projective::random(&mut rng);
    let qa = q.to_affine();
    let pts1 = [G1Affine::identity(), G1Affine::generator(), p];
    let pts2 = [G2Affine::identity(), G2Affine::generator(), qa];
    let mut cases = vec![];
    for (i, a) in pts1.iter().enumerate() {
        for (j, b) in pts2.iter().enumerate() {
            for (k, c) in pts1.iter().enumerate() {
                for (l, d) in pts2.iter().enumerate() {
                    cases.push((format!("bls:mlr-add({i},{j},{k},{l})"), (*a, *b, *c, *d, i > 0 && j > 0 && k > 0 && l > 0)));
                }
            }
        }
    }
    cx.run_cases("bls-entry-points", &cases, |(a, b, c, d, proper)| {
        let mut out = CaseOut::batch();
        let r = catch(|| {
            let free = bls12_381::pairing(a, b);
            let eng = <Bls12 as Engine>::pairing(a, b);
            let pa = G2Prepared::from(*b);
            let pc = G2Prepared::from(*d);
            let m1 = Bls12::multi_miller_loop(&[(a, &pa)]);
            let m2 = Bls12::multi_miller_loop(&[(c, &pc)]);
            let sum = (&m1 + &m2).final_exponentiation();
            let mut acc = m1;
            acc += m2;
            let sum2 = acc.final_exponentiation();
            let both = Bls12::multi_miller_loop(&[(a, &pa), (c, &pc)]).final_exponentiation();
            let expect: Gt = eng + <Bls12 as Engine>::pairing(c, d);
            (free == eng, sum == expect, sum2 == expect, both == expect)
        });
        match r {
            Err(p) => out.viol(Viol::new("bls:entry:panic", format!("panicked: {p}"), json!({}))),
            Ok((a1, a2, a3, a4)) => {
                out.eval("entry-points", *proper);
                if !a1 {
                    out.viol(Viol::new("bls:free-pairing-vs-engine", "pairing() != Engine::pairing", json!({})));
                }
                if !a2 || !a3 {
                    out.viol(Viol::new("bls:miller-loop-result-add", "MillerLoopResult + / += then final_exponentiation != product", json!({})));
                }
                if !a4 {
                    out.viol(Viol::new("bls:mml:product-rule", "two-term multi_miller_loop != product", json!({})));
                }
            }
        }
        out
    });
    let _ = q;
}

fn main() {
    let mut cx = Ctx::from_args("C13", Level::Exploration);
    cx.set_rule(
        "complete enumeration of: scalar alphabet^2 x G1 alphabet x G2 alphabet (bilinearity, linearity \
         in each slot, non-degeneracy, entry-point agreement); G1 alphabet^2 x G2 alphabet and G1 alphabet x G2 alphabet^2 \
         (additivity, equal and opposite operands included); all pair lists of length 0..=3 over a \
         4-pair alphabet with identity members (thorough: 0..=4 over 7 pairs incl. pairs that cancel and (O,O); point alphabets \
         of 7, scalar alphabet of 11) + lengths 4..=8 on a diagonal (product rule); Gt \
         alphabet^3 (group axioms, order r, scalar action). A case is non-trivial when no operand \
         is an identity / zero (bilinear), the list has >= 2 members (lists); keys are unique.",
    );
    cx.assume("no independent big-integer pairing is used: the oracle is the algebraic characterisation (bilinearity + non-degeneracy + entry-point agreement), which determines the pairing up to a fixed exponent");
    cx.assume("seeded representatives come from VERIF_SEED; the enumeration over the alphabet is complete");
    run_engine::<midnight_curves::Bls12>(&mut cx, "bls12-381");
    run_engine::<midnight_curves::bn256::Bn256>(&mut cx, "bn254");
    bls_specific(&mut cx);
    let nonid = cx.class_count("bls12-381-bilinear:non-identity");
    cx.require(nonid > 0, "no non-degenerate pairing evaluated");
    cx.finish()
}
