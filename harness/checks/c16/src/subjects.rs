//! The valid objects C16 starts from, their byte layouts, and the blob bundle handed to the
//! sandboxed children.

use std::{collections::BTreeMap, io};

use ff::{Field, PrimeField};
use group::{prime::PrimeCurveAffine, GroupEncoding};
use midnight_circuits::{
    hash::poseidon::PoseidonChip,
    instructions::{
        hash::HashCPU, ArithInstructions, AssertionInstructions, AssignmentInstructions,
        PublicInputInstructions,
    },
    types::AssignedNative,
};
use midnight_curves::{G1Affine, G2Affine};
use midnight_proofs::{
    circuit::{Layouter, SimpleFloorPlanner, Value},
    plonk::Error,
    utils::SerdeFormat,
};
use midnight_zk_stdlib::{MidnightCircuit, Relation, ZkStdLib, ZkStdLibArch};
use midnight_zkir::{Instruction, IrType, Operation, ZkirRelation};
use rand_chacha::ChaCha20Rng;
use rand_core::SeedableRng;
use vfam::{
    fam::{FamParams, F},
    lattice::{self, Config, Hash, Wit},
};

// ---------------------------------------------------------------------------------------------
// Formats
// ---------------------------------------------------------------------------------------------

#[derive(Clone, Copy, Debug, PartialEq, Eq)]
pub enum Fmt {
    P,
    R,
}

impl Fmt {
    pub fn sf(self) -> SerdeFormat {
        match self {
            Fmt::P => SerdeFormat::Processed,
            Fmt::R => SerdeFormat::RawBytes,
        }
    }
    pub fn name(self) -> &'static str {
        match self {
            Fmt::P => "Processed",
            Fmt::R => "RawBytes",
        }
    }
    pub fn tag(self) -> &'static str {
        match self {
            Fmt::P => "proc",
            Fmt::R => "raw",
        }
    }
    pub fn other(self) -> Fmt {
        match self {
            Fmt::P => Fmt::R,
            Fmt::R => Fmt::P,
        }
    }
    pub fn g1_len(self) -> usize {
        match self {
            Fmt::P => 48,
            Fmt::R => 96,
        }
    }
    pub fn g2_len(self) -> usize {
        match self {
            Fmt::P => 96,
            Fmt::R => 192,
        }
    }
}

// ---------------------------------------------------------------------------------------------
// Relations
// ---------------------------------------------------------------------------------------------

fn wr_u64<W: io::Write>(w: &mut W, c: u64) -> io::Result<()> {
    w.write_all(&c.to_le_bytes())
}
fn rd_u64<R: io::Read>(r: &mut R) -> io::Result<u64> {
    let mut b = [0u8; 8];
    r.read_exact(&mut b)?;
    Ok(u64::from_le_bytes(b))
}

/// Relation A: instance = witness^2 + c (native arithmetic only, default architecture).
#[derive(Clone, Debug)]
pub struct RelA {
    pub c: u64,
}

impl Relation for RelA {
    type Instance = F;
    type Witness = F;
    fn format_instance(x: &F) -> Result<Vec<F>, Error> {
        Ok(vec![*x])
    }
    fn circuit(
        &self,
        std_lib: &ZkStdLib,
        layouter: &mut impl Layouter<F>,
        instance: Value<F>,
        witness: Value<F>,
    ) -> Result<(), Error> {
        let inst: AssignedNative<F> = std_lib.assign_as_public_input(layouter, instance)?;
        let w: AssignedNative<F> = std_lib.assign(layouter, witness)?;
        let sq = std_lib.mul(layouter, &w, &w, None)?;
        let y = std_lib.add_constant(layouter, &sq, F::from(self.c))?;
        std_lib.assert_equal(layouter, &inst, &y)
    }
    fn write_relation<W: io::Write>(&self, w: &mut W) -> io::Result<()> {
        wr_u64(w, self.c)
    }
    fn read_relation<R: io::Read>(r: &mut R) -> io::Result<Self> {
        rd_u64(r).map(|c| RelA { c })
    }
}

impl RelA {
    pub fn honest(&self, seed: u64) -> (F, F) {
        let w = F::random(vcore::rng_for(seed, "c16-relA-w"));
        (w * w + F::from(self.c), w)
    }
}

/// Relation B: two public inputs (Poseidon(w0, w1, c), x) with x < 2^16, over an architecture
/// that enables every chip (so that the serialized header has many non-default bytes and the
/// key has many commitments). The tables of unused chips are not loaded, so k stays small.
#[derive(Clone, Debug)]
pub struct RelB {
    pub c: u64,
    pub arch: ZkStdLibArch,
}

pub fn arch_wide() -> ZkStdLibArch {
    ZkStdLibArch {
        jubjub: true,
        poseidon: true,
        sha2_256: true,
        sha2_512: true,
        keccak_256: true,
        sha3_256: true,
        blake2b: true,
        secp256k1: true,
        bls12_381: true,
        // an enabled but unused base64 chip makes the honest prover fail (its lookup has no
        // loaded table), so it stays off
        base64: false,
        automaton: true,
        nr_pow2range_cols: 4,
    }
}

impl Relation for RelB {
    type Instance = (F, F);
    type Witness = [F; 2];
    fn format_instance(x: &(F, F)) -> Result<Vec<F>, Error> {
        Ok(vec![x.0, x.1])
    }
    fn circuit(
        &self,
        std_lib: &ZkStdLib,
        layouter: &mut impl Layouter<F>,
        instance: Value<(F, F)>,
        witness: Value<[F; 2]>,
    ) -> Result<(), Error> {
        let mut msg: Vec<AssignedNative<F>> =
            std_lib.assign_many(layouter, &witness.transpose_array())?;
        msg.push(std_lib.assign_fixed(layouter, F::from(self.c))?);
        let out = std_lib.poseidon(layouter, &msg)?;
        std_lib.constrain_as_public_input(layouter, &out)?;
        let x: AssignedNative<F> =
            std_lib.assign_as_public_input(layouter, instance.map(|i| i.1))?;
        let bound: AssignedNative<F> = std_lib.assign_fixed(layouter, F::from(1u64 << 16))?;
        let lt = std_lib.lower_than(layouter, &x, &bound, 17)?;
        std_lib.assert_true(layouter, &lt)
    }
    fn used_chips(&self) -> ZkStdLibArch {
        self.arch
    }
    fn write_relation<W: io::Write>(&self, w: &mut W) -> io::Result<()> {
        wr_u64(w, self.c)?;
        self.arch.write(w)
    }
    fn read_relation<R: io::Read>(r: &mut R) -> io::Result<Self> {
        let c = rd_u64(r)?;
        let arch = ZkStdLibArch::read(r)?;
        Ok(RelB { c, arch })
    }
}

impl RelB {
    pub fn honest(&self, seed: u64) -> ((F, F), [F; 2]) {
        use rand_core::RngCore;
        let mut rng = vcore::rng_for(seed, "c16-relB-w");
        let w: [F; 2] = core::array::from_fn(|_| F::random(&mut rng));
        let x = F::from(rng.next_u32() as u64 & 0xffff);
        let h = <PoseidonChip<F> as HashCPU<F, F>>::hash(&[w[0], w[1], F::from(self.c)]);
        ((h, x), w)
    }
}

pub const REL_A: RelA = RelA { c: 7 };
pub fn rel_b() -> RelB {
    RelB { c: 11, arch: arch_wide() }
}

// ---------------------------------------------------------------------------------------------
// Fam (bare plonk VerifyingKey)
// ---------------------------------------------------------------------------------------------

pub fn fam_cfg(which: usize, seed: u64) -> Result<Config, String> {
    // fam0: every argument kind (constraint-system degree 5, quotient degree 4 = 2^2);
    // fam1: no lookups and a cubic main gate: constraint-system degree 4, so the quotient degree
    // (3) is not a power of two and the extended domain needs ceil(log2 3) = 2 extra bits — the
    // header sweep over `k` then crosses the boundary where floor and ceiling differ.
    let p = if which == 0 {
        FamParams::rich(2, 2)
    } else {
        let mut p = FamParams::rich(1, 2);
        p.gate_deg = 3;
        p.lookup = false;
        p.lookup_any = false;
        p.lookup_nz = false;
        p
    };
    let k = lattice::min_k(&p, false, seed).ok_or("fam circuit does not fit")?;
    Ok(Config {
        p,
        v1: false,
        num_proofs: 1,
        nb_committed: 0,
        k,
        hash: Hash::Blake2b,
        wit: Wit::Seeded(0),
    })
}

pub fn fam_instances(cfg: &Config, seed: u64) -> Vec<Vec<F>> {
    let (_, inst) = lattice::honest::<SimpleFloorPlanner>(cfg, 0, seed);
    inst
}

// ---------------------------------------------------------------------------------------------
// ZKIR programs with a byte-exact layout of their bincode encoding
// ---------------------------------------------------------------------------------------------

fn ins(op: Operation, i: &[&str], o: &[&str]) -> Instruction {
    Instruction {
        operation: op,
        inputs: i.iter().map(|s| s.to_string()).collect(),
        outputs: o.iter().map(|s| s.to_string()).collect(),
    }
}

pub fn zkir_program(which: usize) -> Vec<Instruction> {
    use Operation::*;
    if which == 0 {
        vec![
            ins(Load(IrType::Native), &[], &["a", "b"]),
            ins(Add, &["a", "b"], &["s"]),
            ins(Publish, &["s"], &[]),
        ]
    } else {
        vec![
            ins(Load(IrType::BigUint(64)), &[], &["x", "m"]),
            ins(Load(IrType::Bytes(8)), &[], &["w"]),
            ins(ModExp(3), &["x", "m"], &["y"]),
            ins(IntoBytes(8), &["y"], &["yb"]),
            ins(FromBytes(IrType::Native), &["w"], &["wn"]),
            ins(AssertNotEqual, &["yb", "w"], &[]),
            ins(Publish, &["m", "wn"], &[]),
        ]
    }
}

pub fn zkir_json(which: usize) -> String {
    if which == 0 {
        r#"{"version":{"major":3,"minor":0},"instructions":[{"op":{"load":"Native"},"outputs":["a","b"]},{"op":"add","inputs":["a","b"],"outputs":["s"]},{"op":"publish","inputs":["s"]}]}"#.into()
    } else {
        r#"{"instructions":[{"op":{"load":{"BigUint":64}},"outputs":["x","m"]},{"op":{"load":{"Bytes":8}},"outputs":["w"]},{"op":{"mod_exp":3},"inputs":["x","m"],"outputs":["y"]},{"op":{"into_bytes":8},"inputs":["y"],"outputs":["yb"]},{"op":{"from_bytes":"Native"},"inputs":["w"],"outputs":["wn"]},{"op":"assert_not_equal","inputs":["yb","w"]},{"op":"publish","inputs":["m","wn"]}]}"#.into()
    }
}

/// `ZkirRelation::read_relation` decodes the tuple `(Program, usize)` although
/// `write_relation` writes the program only, so it always consumes one varint more than was
/// written. Inside a serialized `MidnightPK` that varint is the version byte of the plonk key
/// that follows the relation; the bincode subject of this check is therefore the output of
/// `write_relation` followed by that byte.
pub const ZKIR_TRAILER: u8 = 0x03;

pub fn zkir_encode(rel: &ZkirRelation) -> Vec<u8> {
    let mut v = vec![];
    rel.write_relation(&mut v).expect("write to vec");
    v.push(ZKIR_TRAILER);
    v
}

/// bincode `standard()` varint of an unsigned integer.
pub fn varint(x: u128) -> Vec<u8> {
    if x < 251 {
        vec![x as u8]
    } else if x < 1 << 16 {
        let mut v = vec![251];
        v.extend((x as u16).to_le_bytes());
        v
    } else if x < 1 << 32 {
        let mut v = vec![252];
        v.extend((x as u32).to_le_bytes());
        v
    } else if x < 1 << 64 {
        let mut v = vec![253];
        v.extend((x as u64).to_le_bytes());
        v
    } else {
        let mut v = vec![254];
        v.extend(x.to_le_bytes());
        v
    }
}

fn op_index(op: &Operation) -> u32 {
    use Operation::*;
    match op {
        Load(_) => 0,
        Publish => 1,
        AssertEqual => 2,
        AssertNotEqual => 3,
        IsEqual => 4,
        Add => 5,
        Sub => 6,
        Mul => 7,
        Neg => 8,
        ModExp(_) => 9,
        InnerProduct => 10,
        AffineCoordinates => 11,
        IntoBytes(_) => 12,
        FromBytes(_) => 13,
        Poseidon => 14,
        Sha256 => 15,
        Sha512 => 16,
    }
}

fn put(out: &mut Vec<u8>, lay: &mut Vec<Span>, bytes: &[u8], name: &str, kind: Kind) {
    lay.push(Span {
        off: out.len(),
        len: bytes.len(),
        name: name.to_string(),
        kind,
    });
    out.extend_from_slice(bytes);
}

fn enc_type(out: &mut Vec<u8>, lay: &mut Vec<Span>, t: &IrType, pre: &str) {
    let (idx, param): (u32, Option<u128>) = match t {
        IrType::Bool => (0, None),
        IrType::Bytes(n) => (1, Some(*n as u128)),
        IrType::Native => (2, None),
        IrType::BigUint(n) => (3, Some(*n as u128)),
        IrType::JubjubPoint => (4, None),
        IrType::JubjubScalar => (5, None),
    };
    put(out, lay, &varint(idx as u128), &format!("{pre}.type-tag"), Kind::Tag);
    if let Some(p) = param {
        put(out, lay, &varint(p), &format!("{pre}.type-param"), Kind::Param);
    }
}

/// Hand-rolled bincode encoding of a program that records what every byte is. `main` checks it
/// against `write_relation`, so the layout is the library's, not a model of it.
pub fn zkir_manual(prog: &[Instruction]) -> (Vec<u8>, Vec<Span>) {
    let mut out = vec![];
    let mut lay = vec![];
    put(&mut out, &mut lay, &varint(prog.len() as u128), "instructions.len", Kind::Len);
    for i in prog {
        put(&mut out, &mut lay, &varint(op_index(&i.operation) as u128), "instruction.op-tag", Kind::Tag);
        match &i.operation {
            Operation::Load(t) => enc_type(&mut out, &mut lay, t, "instruction.op.load"),
            Operation::FromBytes(t) => enc_type(&mut out, &mut lay, t, "instruction.op.from_bytes"),
            Operation::ModExp(n) => put(&mut out, &mut lay, &varint(*n as u128), "instruction.op.mod_exp-param", Kind::Param),
            Operation::IntoBytes(n) => put(&mut out, &mut lay, &varint(*n as u128), "instruction.op.into_bytes-param", Kind::Param),
            _ => {}
        }
        for (nm, list) in [("inputs", &i.inputs), ("outputs", &i.outputs)] {
            put(&mut out, &mut lay, &varint(list.len() as u128), &format!("instruction.{nm}.len"), Kind::Len);
            for s in list {
                put(&mut out, &mut lay, &varint(s.len() as u128), &format!("instruction.{nm}.name.len"), Kind::Len);
                put(&mut out, &mut lay, s.as_bytes(), &format!("instruction.{nm}.name"), Kind::Opaque);
            }
        }
    }
    put(&mut out, &mut lay, &[ZKIR_TRAILER], "trailing-varint", Kind::Param);
    (out, lay)
}

// ---------------------------------------------------------------------------------------------
// Layouts
// ---------------------------------------------------------------------------------------------

#[derive(Clone, Copy, Debug, PartialEq, Eq)]
pub enum Kind {
    /// fixed-width header field (version word, flag, size byte, count)
    Header,
    /// bincode length prefix
    Len,
    /// bincode enum tag
    Tag,
    /// bincode integer parameter of an IR operation / type
    Param,
    G1c,
    G1u,
    G2c,
    G2u,
    Scalar,
    Opaque,
}

#[derive(Clone, Debug)]
pub struct Span {
    pub off: usize,
    pub len: usize,
    pub name: String,
    pub kind: Kind,
}

pub fn field_at(lay: &[Span], off: usize) -> Option<&Span> {
    lay.iter().find(|f| f.off <= off && off < f.off + f.len)
}

/// Name of the byte at `off`: `field` or `field[byte i]` for multi-byte header fields.
pub fn byte_name(lay: &[Span], off: usize) -> String {
    match field_at(lay, off) {
        Some(f) if f.len > 1 && matches!(f.kind, Kind::Header | Kind::Len | Kind::Param | Kind::Tag) => {
            format!("{}[byte{}]", f.name, off - f.off)
        }
        Some(f) if f.len > 1 => format!("{}[body]", f.name),
        Some(f) => f.name.clone(),
        None => "<past-the-end>".into(),
    }
}

const ARCH_FLAGS: [&str; 11] = [
    "jubjub", "poseidon", "sha2_256", "sha2_512", "keccak_256", "sha3_256", "blake2b", "secp256k1",
    "bls12_381", "base64", "automaton",
];

pub fn arch_layout(pre: &str) -> Vec<Span> {
    let mut l = vec![Span { off: 0, len: 4, name: format!("{pre}version"), kind: Kind::Header }];
    for (i, n) in ARCH_FLAGS.iter().enumerate() {
        l.push(Span { off: 4 + i, len: 1, name: format!("{pre}{n}"), kind: Kind::Header });
    }
    l.push(Span { off: 15, len: 1, name: format!("{pre}nr_pow2range_cols"), kind: Kind::Header });
    l
}

/// Layout of a plonk `VerifyingKey` starting at `base` inside a buffer of `total` bytes.
pub fn vk_layout(bytes: &[u8], base: usize, fmt: Fmt) -> Result<Vec<Span>, String> {
    let g = fmt.g1_len();
    let kind = if fmt == Fmt::P { Kind::G1c } else { Kind::G1u };
    if bytes.len() < base + 6 {
        return Err("vk too short".into());
    }
    let mut l = vec![
        Span { off: base, len: 1, name: "vk.version".into(), kind: Kind::Header },
        Span { off: base + 1, len: 1, name: "vk.k".into(), kind: Kind::Header },
        Span { off: base + 2, len: 4, name: "vk.fixed_commitments.count".into(), kind: Kind::Header },
    ];
    let count = u32::from_le_bytes(bytes[base + 2..base + 6].try_into().unwrap()) as usize;
    let mut off = base + 6;
    for _ in 0..count {
        l.push(Span { off, len: g, name: "vk.fixed_commitment".into(), kind });
        off += g;
    }
    if off > bytes.len() || (bytes.len() - off) % g != 0 {
        return Err("vk body is not a whole number of commitments".into());
    }
    while off < bytes.len() {
        l.push(Span { off, len: g, name: "vk.permutation_commitment".into(), kind });
        off += g;
    }
    Ok(l)
}

pub fn mvk_layout(bytes: &[u8], fmt: Fmt) -> Result<Vec<Span>, String> {
    let mut l = arch_layout("arch.");
    l.push(Span { off: 16, len: 1, name: "max_bit_len".into(), kind: Kind::Header });
    l.push(Span { off: 17, len: 4, name: "nb_public_inputs".into(), kind: Kind::Header });
    l.extend(vk_layout(bytes, 21, fmt)?);
    Ok(l)
}

pub fn mpk_layout(bytes: &[u8]) -> Vec<Span> {
    // max_bit_len, k, relation (u64), then the plonk proving key (vk + polynomials): only the
    // head is labelled; the rest is opaque (reported-only object)
    let mut l = vec![
        Span { off: 0, len: 1, name: "max_bit_len".into(), kind: Kind::Header },
        Span { off: 1, len: 1, name: "k".into(), kind: Kind::Header },
        Span { off: 2, len: 8, name: "relation".into(), kind: Kind::Header },
        Span { off: 10, len: 1, name: "pk.vk.version".into(), kind: Kind::Header },
        Span { off: 11, len: 1, name: "pk.vk.k".into(), kind: Kind::Header },
        Span { off: 12, len: 4, name: "pk.vk.fixed_commitments.count".into(), kind: Kind::Header },
    ];
    l.push(Span { off: 16, len: bytes.len().saturating_sub(16), name: "pk.body".into(), kind: Kind::Opaque });
    l
}

pub fn params_layout(bytes: &[u8], fmt: Fmt) -> Vec<Span> {
    let mut l = vec![Span { off: 0, len: 4, name: "k".into(), kind: Kind::Header }];
    let k = u32::from_le_bytes(bytes[..4].try_into().unwrap());
    let n = 1usize << k;
    let g = fmt.g1_len();
    let kind = if fmt == Fmt::P { Kind::G1c } else { Kind::G1u };
    let mut off = 4;
    for nm in ["g", "g_lagrange"] {
        for _ in 0..n {
            l.push(Span { off, len: g, name: nm.into(), kind });
            off += g;
        }
    }
    let k2 = if fmt == Fmt::P { Kind::G2c } else { Kind::G2u };
    for nm in ["g2", "s_g2"] {
        l.push(Span { off, len: fmt.g2_len(), name: nm.into(), kind: k2 });
        off += fmt.g2_len();
    }
    l
}

/// Greedy segmentation of a proof into compressed G1 points and scalars: a 48-byte window that
/// decodes as a point of the prime-order subgroup is a point (32+16 bytes of scalars pass that
/// test with probability ~2^-126), anything else is a 32-byte scalar.
pub fn proof_layout(proof: &[u8]) -> Result<Vec<Span>, String> {
    let mut l = vec![];
    let mut off = 0;
    while off < proof.len() {
        if off + 48 <= proof.len() {
            let mut r = <G1Affine as GroupEncoding>::Repr::default();
            r.as_mut().copy_from_slice(&proof[off..off + 48]);
            if bool::from(G1Affine::from_bytes(&r).is_some()) {
                l.push(Span { off, len: 48, name: "proof.point".into(), kind: Kind::G1c });
                off += 48;
                continue;
            }
        }
        if off + 32 > proof.len() {
            return Err(format!("proof does not segment: {} stray bytes", proof.len() - off));
        }
        let mut r = <F as PrimeField>::Repr::default();
        r.as_mut().copy_from_slice(&proof[off..off + 32]);
        if !bool::from(F::from_repr(r).is_some()) {
            return Err(format!("proof does not segment: non-canonical scalar at {off}"));
        }
        l.push(Span { off, len: 32, name: "proof.scalar".into(), kind: Kind::Scalar });
        off += 32;
    }
    Ok(l)
}

// ---------------------------------------------------------------------------------------------
// Blob bundle (parent -> children)
// ---------------------------------------------------------------------------------------------

pub type Bundle = BTreeMap<String, Vec<u8>>;

pub fn bundle_write(b: &Bundle) -> Vec<u8> {
    let mut out = vec![];
    out.extend((b.len() as u32).to_le_bytes());
    for (k, v) in b {
        out.extend((k.len() as u32).to_le_bytes());
        out.extend(k.as_bytes());
        out.extend((v.len() as u64).to_le_bytes());
        out.extend(v);
    }
    out
}

pub fn bundle_read(mut s: &[u8]) -> Option<Bundle> {
    fn take<'a>(s: &mut &'a [u8], n: usize) -> Option<&'a [u8]> {
        if s.len() < n {
            return None;
        }
        let (a, b) = s.split_at(n);
        *s = b;
        Some(a)
    }
    let n = u32::from_le_bytes(take(&mut s, 4)?.try_into().ok()?);
    let mut b = Bundle::new();
    for _ in 0..n {
        let kl = u32::from_le_bytes(take(&mut s, 4)?.try_into().ok()?) as usize;
        let k = String::from_utf8(take(&mut s, kl)?.to_vec()).ok()?;
        let vl = u64::from_le_bytes(take(&mut s, 8)?.try_into().ok()?) as usize;
        b.insert(k, take(&mut s, vl)?.to_vec());
    }
    Some(b)
}

fn std_rel_blobs<R: Relation>(
    b: &mut Bundle,
    tag: &str,
    rel: &R,
    instance: &R::Instance,
    witness: R::Witness,
    seed: u64,
    with_pk: bool,
) -> Result<(), String> {
    let k = MidnightCircuit::from_relation(rel).min_k();
    let srs = (*vfam::api::setup(k, seed)).clone();
    let vk = midnight_zk_stdlib::setup_vk(&srs, rel);
    let pk = midnight_zk_stdlib::setup_pk(rel, &vk);
    let proof = midnight_zk_stdlib::prove::<R, blake2b_simd::State>(
        &srs,
        &pk,
        rel,
        instance,
        witness,
        ChaCha20Rng::seed_from_u64(seed ^ 0xc16),
    )
    .map_err(|e| format!("prove {tag}: {e:?}"))?;
    midnight_zk_stdlib::verify::<R, blake2b_simd::State>(&srs.verifier_params(), &vk, instance, None, &proof)
        .map_err(|e| format!("verify {tag}: {e:?}"))?;
    for f in [Fmt::P, Fmt::R] {
        let mut v = vec![];
        vk.write(&mut v, f.sf()).map_err(|e| e.to_string())?;
        b.insert(format!("mvk:{tag}:{}", f.tag()), v);
        if with_pk {
            let mut v = vec![];
            pk.write(&mut v, f.sf()).map_err(|e| e.to_string())?;
            b.insert(format!("mpk:{tag}:{}", f.tag()), v);
        }
        let mut v = vec![];
        srs.verifier_params().write(&mut v, f.sf()).map_err(|e| e.to_string())?;
        b.insert(format!("vparams:{tag}:{}", f.tag()), v);
    }
    b.insert(format!("proof:{tag}"), proof);
    b.insert(format!("k:{tag}"), vec![k as u8]);
    Ok(())
}

/// Builds every valid object deterministically from the seed. `full` adds the subjects that
/// only the thorough tier uses (Fam keys, proving key, prover parameters).
pub fn build_bundle(seed: u64, full: bool) -> Result<Bundle, String> {
    let mut b = Bundle::new();
    let (ia, wa) = REL_A.honest(seed);
    std_rel_blobs(&mut b, "A", &REL_A, &ia, wa, seed, full)?;
    let rb = rel_b();
    let (ib, wb) = rb.honest(seed);
    std_rel_blobs(&mut b, "B", &rb, &ib, wb, seed, false)?;

    // architecture descriptor on its own
    let mut v = vec![];
    arch_wide().write(&mut v).map_err(|e| e.to_string())?;
    b.insert("arch".into(), v);

    // IR programs
    for w in 0..2 {
        let rel = ZkirRelation::from_instructions(&zkir_program(w)).map_err(|e| format!("{e:?}"))?;
        b.insert(format!("zkir:bin:{w}"), zkir_encode(&rel));
        b.insert(format!("zkir:json:{w}"), zkir_json(w).into_bytes());
    }

    if full {
        for w in 0..2 {
            let cfg = fam_cfg(w, seed)?;
            let r = lattice::round(&cfg, seed, false)?;
            let proof = r.proof.clone()?;
            if r.verdict != Some(vfam::api::Verdict::Accept) {
                return Err(format!("fam proof {w} not accepted: {:?}", r.verdict));
            }
            let (params, pk) = lattice::keys(&cfg.p, false, cfg.k, seed)?;
            for f in [Fmt::P, Fmt::R] {
                let mut v = vec![];
                pk.get_vk().write(&mut v, f.sf()).map_err(|e| e.to_string())?;
                b.insert(format!("vk:fam{w}:{}", f.tag()), v);
                let mut v = vec![];
                params.verifier_params().write(&mut v, f.sf()).map_err(|e| e.to_string())?;
                b.insert(format!("vparams:fam{w}:{}", f.tag()), v);
            }
            b.insert(format!("proof:fam{w}"), proof);
        }
        // prover parameters (reported only)
        let srs = vfam::api::setup(4, seed);
        for f in [Fmt::P, Fmt::R] {
            let mut v = vec![];
            srs.write_custom(&mut v, f.sf()).map_err(|e| e.to_string())?;
            b.insert(format!("params:{}", f.tag()), v);
        }
    }
    Ok(b)
}

// ---------------------------------------------------------------------------------------------
// Crafted encodings
// ---------------------------------------------------------------------------------------------

pub fn g2_generator_bytes(fmt: Fmt) -> Vec<u8> {
    let mut v = vec![];
    use midnight_proofs::utils::helpers::ProcessedSerdeObject;
    midnight_curves::G2Projective::from(G2Affine::generator()).write(&mut v, fmt.sf()).unwrap();
    v
}
