//! IR programs covering the instruction grammar (every operation x every type parameter x input
//! / output arities 0..=4, with degenerate and huge integer parameters), as bincode bytes and as
//! JSON text, plus structurally broken JSON documents.

use midnight_zkir::{Instruction, IrType, Operation};

use crate::mutate::{Mu, Mutation};

pub fn ir_types() -> Vec<IrType> {
    vec![
        IrType::Bool,
        IrType::Bytes(0),
        IrType::Bytes(8),
        IrType::Bytes((1usize << 32) + 5),
        IrType::Bytes(usize::MAX),
        IrType::Native,
        IrType::BigUint(0),
        IrType::BigUint(64),
        IrType::BigUint(u32::MAX),
        IrType::JubjubPoint,
        IrType::JubjubScalar,
    ]
}

pub fn ir_ops() -> Vec<Operation> {
    use Operation::*;
    let mut v = vec![];
    for t in ir_types() {
        v.push(Load(t));
    }
    v.extend([Publish, AssertEqual, AssertNotEqual, IsEqual, Add, Sub, Mul, Neg]);
    v.extend([ModExp(0), ModExp(3), ModExp(u64::MAX)]);
    v.extend([InnerProduct, AffineCoordinates]);
    for n in [0usize, 1, 32, (1usize << 32) + 5, usize::MAX] {
        v.push(IntoBytes(n));
    }
    for t in ir_types() {
        v.push(FromBytes(t));
    }
    v.extend([Poseidon, Sha256, Sha512]);
    v
}

fn names(prefix: &str, n: usize) -> Vec<String> {
    (0..n).map(|i| format!("{prefix}{i}")).collect()
}

fn type_json(t: &IrType) -> String {
    match t {
        IrType::Bool => "\"Bool\"".into(),
        IrType::Bytes(n) => format!("{{\"Bytes\":{n}}}"),
        IrType::Native => "\"Native\"".into(),
        IrType::BigUint(n) => format!("{{\"BigUint\":{n}}}"),
        IrType::JubjubPoint => "\"JubjubPoint\"".into(),
        IrType::JubjubScalar => "\"JubjubScalar\"".into(),
    }
}

pub fn op_json(op: &Operation) -> String {
    use Operation::*;
    match op {
        Load(t) => format!("{{\"load\":{}}}", type_json(t)),
        FromBytes(t) => format!("{{\"from_bytes\":{}}}", type_json(t)),
        ModExp(n) => format!("{{\"mod_exp\":{n}}}"),
        IntoBytes(n) => format!("{{\"into_bytes\":{n}}}"),
        Publish => "\"publish\"".into(),
        AssertEqual => "\"assert_equal\"".into(),
        AssertNotEqual => "\"assert_not_equal\"".into(),
        IsEqual => "\"is_equal\"".into(),
        Add => "\"add\"".into(),
        Sub => "\"sub\"".into(),
        Mul => "\"mul\"".into(),
        Neg => "\"neg\"".into(),
        InnerProduct => "\"inner_product\"".into(),
        AffineCoordinates => "\"affine_coordinates\"".into(),
        Poseidon => "\"poseidon\"".into(),
        Sha256 => "\"sha256\"".into(),
        Sha512 => "\"sha512\"".into(),
    }
}

fn list_json(v: &[String]) -> String {
    format!("[{}]", v.iter().map(|s| format!("\"{s}\"")).collect::<Vec<_>>().join(","))
}

fn grammar() -> Vec<(String, Instruction)> {
    let mut v = vec![];
    for op in ir_ops() {
        for ni in 0..=4 {
            for no in 0..=4 {
                v.push((
                    format!("{}/in{ni}/out{no}", op_json(&op)),
                    Instruction {
                        operation: op,
                        inputs: names("i", ni),
                        outputs: names("o", no),
                    },
                ));
            }
        }
    }
    v
}

pub fn grammar_bincode() -> Vec<Mutation> {
    grammar()
        .into_iter()
        .map(|(name, i)| {
            let mut bytes = bincode::encode_to_vec(vec![i], bincode::config::standard()).expect("encode");
            bytes.push(crate::subjects::ZKIR_TRAILER);
            Mutation {
                mu: Mu::Whole(bytes),
                field: "<all>".into(),
                class: format!("grammar:{name}"),
            }
        })
        .collect()
}

pub fn grammar_json() -> Vec<Mutation> {
    grammar()
        .into_iter()
        .map(|(name, i)| {
            let text = format!(
                "{{\"instructions\":[{{\"op\":{},\"inputs\":{},\"outputs\":{}}}]}}",
                op_json(&i.operation),
                list_json(&i.inputs),
                list_json(&i.outputs)
            );
            Mutation {
                mu: Mu::Whole(text.into_bytes()),
                field: "<all>".into(),
                class: format!("grammar:{name}"),
            }
        })
        .collect()
}

pub fn json_structural() -> Vec<Mutation> {
    let big_name = "n".repeat(1 << 16);
    let deep_open = "[".repeat(2000);
    let deep_obj = "{\"op\":".repeat(2000);
    let many = format!(
        "{{\"instructions\":[{}]}}",
        vec!["{\"op\":\"publish\",\"inputs\":[\"a\"]}"; 4096].join(",")
    );
    let docs: Vec<(&str, String)> = vec![
        ("empty", "".into()),
        ("whitespace", "  \n".into()),
        ("null", "null".into()),
        ("number", "42".into()),
        ("string", "\"instructions\"".into()),
        ("top-level-array", "[]".into()),
        ("empty-object", "{}".into()),
        ("instructions-missing", "{\"version\":{\"major\":3}}".into()),
        ("instructions-null", "{\"instructions\":null}".into()),
        ("instructions-empty", "{\"instructions\":[]}".into()),
        ("instructions-not-array", "{\"instructions\":{}}".into()),
        ("instructions-duplicate", "{\"instructions\":[],\"instructions\":[]}".into()),
        ("instruction-empty-object", "{\"instructions\":[{}]}".into()),
        ("op-missing", "{\"instructions\":[{\"inputs\":[\"a\"],\"outputs\":[\"b\"]}]}".into()),
        ("op-null", "{\"instructions\":[{\"op\":null}]}".into()),
        ("op-number", "{\"instructions\":[{\"op\":5}]}".into()),
        ("op-unknown", "{\"instructions\":[{\"op\":\"frobnicate\",\"inputs\":[\"a\"]}]}".into()),
        ("op-camel-case", "{\"instructions\":[{\"op\":\"Add\",\"inputs\":[\"a\",\"b\"],\"outputs\":[\"c\"]}]}".into()),
        ("op-duplicate", "{\"instructions\":[{\"op\":\"add\",\"op\":\"sub\",\"inputs\":[\"a\",\"b\"],\"outputs\":[\"c\"]}]}".into()),
        ("inputs-duplicate", "{\"instructions\":[{\"op\":\"neg\",\"inputs\":[\"a\"],\"inputs\":[\"a\"],\"outputs\":[\"c\"]}]}".into()),
        ("outputs-duplicate", "{\"instructions\":[{\"op\":\"neg\",\"inputs\":[\"a\"],\"outputs\":[\"c\"],\"outputs\":[\"c\"]}]}".into()),
        ("inputs-string", "{\"instructions\":[{\"op\":\"neg\",\"inputs\":\"a\",\"outputs\":[\"c\"]}]}".into()),
        ("inputs-numbers", "{\"instructions\":[{\"op\":\"neg\",\"inputs\":[1],\"outputs\":[\"c\"]}]}".into()),
        ("inputs-null", "{\"instructions\":[{\"op\":\"neg\",\"inputs\":null,\"outputs\":[\"c\"]}]}".into()),
        ("inputs-nested", "{\"instructions\":[{\"op\":\"neg\",\"inputs\":[[\"a\"]],\"outputs\":[\"c\"]}]}".into()),
        ("unknown-field", "{\"instructions\":[{\"op\":\"neg\",\"inputs\":[\"a\"],\"outputs\":[\"c\"],\"extra\":1}]}".into()),
        ("same-name-in-out", "{\"instructions\":[{\"op\":\"neg\",\"inputs\":[\"a\"],\"outputs\":[\"a\"]}]}".into()),
        ("empty-names", "{\"instructions\":[{\"op\":\"neg\",\"inputs\":[\"\"],\"outputs\":[\"\"]}]}".into()),
        ("load-null", "{\"instructions\":[{\"op\":{\"load\":null},\"outputs\":[\"a\"]}]}".into()),
        ("load-unknown-type", "{\"instructions\":[{\"op\":{\"load\":\"Field\"},\"outputs\":[\"a\"]}]}".into()),
        ("load-two-keys", "{\"instructions\":[{\"op\":{\"load\":\"Native\",\"from_bytes\":\"Native\"},\"outputs\":[\"a\"]}]}".into()),
        ("load-empty-map", "{\"instructions\":[{\"op\":{},\"outputs\":[\"a\"]}]}".into()),
        ("bytes-negative", "{\"instructions\":[{\"op\":{\"load\":{\"Bytes\":-1}},\"outputs\":[\"a\"]}]}".into()),
        ("bytes-float", "{\"instructions\":[{\"op\":{\"load\":{\"Bytes\":1.5}},\"outputs\":[\"a\"]}]}".into()),
        ("bytes-1e99", "{\"instructions\":[{\"op\":{\"load\":{\"Bytes\":1e99}},\"outputs\":[\"a\"]}]}".into()),
        ("bytes-2^64", "{\"instructions\":[{\"op\":{\"load\":{\"Bytes\":18446744073709551616}},\"outputs\":[\"a\"]}]}".into()),
        ("bytes-2^64-1", "{\"instructions\":[{\"op\":{\"load\":{\"Bytes\":18446744073709551615}},\"outputs\":[\"a\"]}]}".into()),
        ("bytes-string", "{\"instructions\":[{\"op\":{\"load\":{\"Bytes\":\"8\"}},\"outputs\":[\"a\"]}]}".into()),
        ("biguint-2^32", "{\"instructions\":[{\"op\":{\"load\":{\"BigUint\":4294967296}},\"outputs\":[\"a\"]}]}".into()),
        ("biguint-0", "{\"instructions\":[{\"op\":{\"load\":{\"BigUint\":0}},\"outputs\":[\"a\"]}]}".into()),
        ("into_bytes-2^32+5", "{\"instructions\":[{\"op\":{\"into_bytes\":4294967301},\"inputs\":[\"a\"],\"outputs\":[\"b\"]}]}".into()),
        ("into_bytes-2^64", "{\"instructions\":[{\"op\":{\"into_bytes\":18446744073709551616},\"inputs\":[\"a\"],\"outputs\":[\"b\"]}]}".into()),
        ("into_bytes-missing-param", "{\"instructions\":[{\"op\":\"into_bytes\",\"inputs\":[\"a\"],\"outputs\":[\"b\"]}]}".into()),
        ("mod_exp-2^64", "{\"instructions\":[{\"op\":{\"mod_exp\":18446744073709551616},\"inputs\":[\"a\",\"m\"],\"outputs\":[\"b\"]}]}".into()),
        ("mod_exp-negative", "{\"instructions\":[{\"op\":{\"mod_exp\":-3},\"inputs\":[\"a\",\"m\"],\"outputs\":[\"b\"]}]}".into()),
        ("add-with-param", "{\"instructions\":[{\"op\":{\"add\":1},\"inputs\":[\"a\",\"b\"],\"outputs\":[\"c\"]}]}".into()),
        ("name-64KiB", format!("{{\"instructions\":[{{\"op\":\"neg\",\"inputs\":[\"{big_name}\"],\"outputs\":[\"c\"]}}]}}")),
        ("name-nul", "{\"instructions\":[{\"op\":\"neg\",\"inputs\":[\"\\u0000\"],\"outputs\":[\"c\"]}]}".into()),
        ("name-lone-surrogate", "{\"instructions\":[{\"op\":\"neg\",\"inputs\":[\"\\ud800\"],\"outputs\":[\"c\"]}]}".into()),
        ("nested-arrays-2000", deep_open),
        ("nested-objects-2000", deep_obj),
        ("4096-instructions", many),
        ("bom", "\u{feff}{\"instructions\":[]}".into()),
        ("trailing-garbage", "{\"instructions\":[]} x".into()),
        ("trailing-comma", "{\"instructions\":[],}".into()),
        ("comment", "{\"instructions\":[] /* c */}".into()),
        ("single-quotes", "{'instructions':[]}".into()),
        ("constant-inputs", "{\"instructions\":[{\"op\":\"add\",\"inputs\":[\"Native:-0x01\",\"BigUint:zz\"],\"outputs\":[\"c\"]}]}".into()),
    ];
    docs.into_iter()
        .map(|(c, d)| Mutation {
            mu: Mu::Whole(d.into_bytes()),
            field: "<all>".into(),
            class: format!("json:{c}"),
        })
        .collect()
}
