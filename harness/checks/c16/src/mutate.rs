//! The mutation space: for every subject a deterministic list of batches of mutations of its
//! valid encoding. Parent and children both call `batches` and therefore agree on what mutation
//! `(subject, batch, index)` is.

use ff::PrimeField;
use group::{prime::PrimeCurveAffine, GroupEncoding};
use midnight_curves::{serde::SerdeObject, G1Affine, G2Affine};
use num_bigint::BigUint;
use rand_core::RngCore;
use vfam::fam::F;

use crate::subjects::*;

#[derive(Clone, Debug)]
pub enum Mu {
    Identity,
    /// the valid bytes, read with the other checked format
    CrossFmt,
    Trunc(usize),
    Byte { off: usize, val: u8 },
    /// replace `del` bytes at `off` by `ins`
    Splice { off: usize, del: usize, ins: Vec<u8> },
    Append(Vec<u8>),
    /// a whole input unrelated to the valid encoding
    Whole(Vec<u8>),
}

#[derive(Clone, Debug)]
pub struct Mutation {
    pub mu: Mu,
    /// mutated field (layout name, no index)
    pub field: String,
    /// mutation class, e.g. `truncate`, `point<-off-curve`
    pub class: String,
}

#[derive(Clone, Debug)]
pub struct Batch {
    pub label: String,
    /// `Some(off)`: the batch is the 256-value sweep of the byte at `off`
    pub sweep: Option<usize>,
    pub muts: Vec<Mutation>,
}

pub fn apply(valid: &[u8], mu: &Mu) -> Vec<u8> {
    match mu {
        Mu::Identity | Mu::CrossFmt => valid.to_vec(),
        Mu::Trunc(n) => valid[..*n].to_vec(),
        Mu::Byte { off, val } => {
            let mut v = valid.to_vec();
            v[*off] = *val;
            v
        }
        Mu::Splice { off, del, ins } => {
            let mut v = valid[..*off].to_vec();
            v.extend_from_slice(ins);
            v.extend_from_slice(&valid[off + del..]);
            v
        }
        Mu::Append(x) => {
            let mut v = valid.to_vec();
            v.extend_from_slice(x);
            v
        }
        Mu::Whole(x) => x.clone(),
    }
}

// ---------------------------------------------------------------------------------------------
// Subjects
// ---------------------------------------------------------------------------------------------

#[derive(Clone, Debug, PartialEq, Eq)]
pub enum SKind {
    Proof { tag: &'static str },
    FamProof { w: usize },
    Mvk { tag: &'static str, fmt: Fmt },
    FamVk { w: usize, fmt: Fmt },
    VParams { fmt: Fmt },
    Arch,
    ZkirBin { w: usize },
    ZkirJson { w: usize },
    Mpk { fmt: Fmt },
    Params { fmt: Fmt },
}

#[derive(Clone, Copy, Debug, PartialEq, Eq)]
pub enum Profile {
    /// everything the design lists
    Full,
    /// identity + sweeps of the labelled header fields only (expensive subject in the quick tier)
    HeaderOnly,
}

#[derive(Clone, Debug)]
pub struct SubjectDef {
    /// also the bundle key of the valid encoding
    pub name: String,
    pub kind: SKind,
    pub profile: Profile,
    pub reported_only: bool,
    /// large subject: bit flips are not exhaustive in the thorough tier
    pub large: bool,
}

impl SubjectDef {
    fn new(name: &str, kind: SKind) -> Self {
        SubjectDef {
            name: name.into(),
            kind,
            profile: Profile::Full,
            reported_only: false,
            large: false,
        }
    }
    /// the object's name in finding keys
    pub fn object(&self) -> &'static str {
        match self.kind {
            SKind::Proof { .. } | SKind::FamProof { .. } => "proof",
            SKind::Mvk { .. } => "MidnightVK",
            SKind::FamVk { .. } => "VerifyingKey",
            SKind::VParams { .. } => "ParamsVerifierKZG",
            SKind::Arch => "ZkStdLibArch",
            SKind::ZkirBin { .. } => "ZkirRelation(bincode)",
            SKind::ZkirJson { .. } => "ZkirRelation(json)",
            SKind::Mpk { .. } => "MidnightPK",
            SKind::Params { .. } => "ParamsKZG",
        }
    }
    /// the decoding (or, for proofs, verifying) entry point
    pub fn entry(&self) -> &'static str {
        match self.kind {
            SKind::Proof { .. } => "verify",
            SKind::FamProof { .. } => "plonk::prepare",
            SKind::Mvk { .. } => "MidnightVK::read",
            SKind::FamVk { .. } => "VerifyingKey::read",
            SKind::VParams { .. } => "ParamsVerifierKZG::read",
            SKind::Arch => "ZkStdLibArch::read",
            SKind::ZkirBin { .. } => "ZkirRelation::read_relation",
            SKind::ZkirJson { .. } => "ZkirRelation::read",
            SKind::Mpk { .. } => "MidnightPK::read",
            SKind::Params { .. } => "ParamsKZG::read_custom",
        }
    }
    pub fn fmt(&self) -> Option<Fmt> {
        match self.kind {
            SKind::Mvk { fmt, .. }
            | SKind::FamVk { fmt, .. }
            | SKind::VParams { fmt }
            | SKind::Mpk { fmt }
            | SKind::Params { fmt } => Some(fmt),
            _ => None,
        }
    }
}

pub fn subjects(thorough: bool) -> Vec<SubjectDef> {
    let mut v = vec![];
    v.push(SubjectDef::new("proof:A", SKind::Proof { tag: "A" }));
    v.push(SubjectDef::new("mvk:A:raw", SKind::Mvk { tag: "A", fmt: Fmt::R }));
    let mut b = SubjectDef::new("mvk:B:raw", SKind::Mvk { tag: "B", fmt: Fmt::R });
    b.large = true;
    if !thorough {
        b.profile = Profile::HeaderOnly;
    }
    v.push(b);
    v.push(SubjectDef::new("arch", SKind::Arch));
    v.push(SubjectDef::new("zkir:bin:0", SKind::ZkirBin { w: 0 }));
    v.push(SubjectDef::new("zkir:bin:1", SKind::ZkirBin { w: 1 }));
    v.push(SubjectDef::new("zkir:json:0", SKind::ZkirJson { w: 0 }));
    if thorough {
        v.push(SubjectDef::new("zkir:json:1", SKind::ZkirJson { w: 1 }));
        v.push(SubjectDef::new("mvk:A:proc", SKind::Mvk { tag: "A", fmt: Fmt::P }));
        let mut b = SubjectDef::new("mvk:B:proc", SKind::Mvk { tag: "B", fmt: Fmt::P });
        b.large = true;
        v.push(b);
        let mut b = SubjectDef::new("proof:B", SKind::Proof { tag: "B" });
        b.large = true;
        v.push(b);
        for w in 0..2 {
            v.push(SubjectDef::new(&format!("proof:fam{w}"), SKind::FamProof { w }));
            for fmt in [Fmt::P, Fmt::R] {
                v.push(SubjectDef::new(&format!("vk:fam{w}:{}", fmt.tag()), SKind::FamVk { w, fmt }));
            }
        }
        for fmt in [Fmt::P, Fmt::R] {
            v.push(SubjectDef::new(&format!("vparams:A:{}", fmt.tag()), SKind::VParams { fmt }));
        }
        for fmt in [Fmt::P, Fmt::R] {
            let mut s = SubjectDef::new(&format!("mpk:A:{}", fmt.tag()), SKind::Mpk { fmt });
            s.reported_only = true;
            s.large = true;
            v.push(s);
            let mut s = SubjectDef::new(&format!("params:{}", fmt.tag()), SKind::Params { fmt });
            s.reported_only = true;
            v.push(s);
        }
    } else {
        v.push(SubjectDef::new("vparams:A:raw", SKind::VParams { fmt: Fmt::R }));
        // the bare plonk key of the degree-4 family member, in the checked compressed format
        // (G1Projective::from_bytes is a different decoder from G1Affine's) and, for the header
        // sweep, the raw one; and a Blake2b-transcript proof (compressed points again)
        v.push(SubjectDef::new("vk:fam1:proc", SKind::FamVk { w: 1, fmt: Fmt::P }));
        let mut r = SubjectDef::new("vk:fam1:raw", SKind::FamVk { w: 1, fmt: Fmt::R });
        r.profile = Profile::HeaderOnly;
        v.push(r);
        v.push(SubjectDef::new("proof:fam1", SKind::FamProof { w: 1 }));
    }
    v
}

pub fn layout(def: &SubjectDef, valid: &[u8]) -> Result<Vec<Span>, String> {
    Ok(match &def.kind {
        SKind::Proof { .. } | SKind::FamProof { .. } => proof_layout(valid)?,
        SKind::Mvk { fmt, .. } => mvk_layout(valid, *fmt)?,
        SKind::FamVk { fmt, .. } => vk_layout(valid, 0, *fmt)?,
        SKind::VParams { fmt } => vec![Span {
            off: 0,
            len: fmt.g2_len(),
            name: "s_g2".into(),
            kind: if *fmt == Fmt::P { Kind::G2c } else { Kind::G2u },
        }],
        SKind::Arch => arch_layout(""),
        SKind::ZkirBin { w } => {
            let (bytes, lay) = zkir_manual(&zkir_program(*w));
            if bytes != valid {
                return Err("hand-rolled bincode encoding differs from write_relation".into());
            }
            lay
        }
        SKind::ZkirJson { .. } => vec![Span { off: 0, len: valid.len(), name: "json".into(), kind: Kind::Opaque }],
        SKind::Mpk { .. } => mpk_layout(valid),
        SKind::Params { fmt } => params_layout(valid, *fmt),
    })
}

// ---------------------------------------------------------------------------------------------
// Crafted encodings
// ---------------------------------------------------------------------------------------------

fn p_modulus() -> BigUint {
    BigUint::parse_bytes(b"1a0111ea397fe69a4b1ba7b6434bacd764774b84f38512bf6730d2a0f6b0f6241eabfffeb153ffffb9feffffffffaaab", 16).unwrap()
}

fn be48(x: &BigUint, flags: u8) -> [u8; 48] {
    let mut out = [0u8; 48];
    let b = x.to_bytes_be();
    out[48 - b.len()..].copy_from_slice(&b);
    out[0] |= flags;
    out
}

fn repr_of(b: &[u8; 48]) -> <G1Affine as GroupEncoding>::Repr {
    let mut r = <G1Affine as GroupEncoding>::Repr::default();
    r.as_mut().copy_from_slice(b);
    r
}

/// (class, compressed encoding): invalid or suspicious G1 encodings (see C03).
pub fn crafted_g1c() -> Vec<(&'static str, Vec<u8>)> {
    let mut v: Vec<(&'static str, Vec<u8>)> = vec![];
    let mut x = BigUint::from(1u32);
    let off = loop {
        let enc = be48(&x, 0x80);
        if bool::from(G1Affine::from_bytes_unchecked(&repr_of(&enc)).is_none()) {
            break enc;
        }
        x += 1u32;
    };
    v.push(("off-curve", off.to_vec()));
    let (nonsub, small_x) = nonsubgroup_point();
    v.push(("on-curve-not-in-subgroup", be48(&small_x, 0x80).to_vec()));
    let _ = nonsub;
    v.push(("x>=p", be48(&(p_modulus() + small_x), 0x80).to_vec()));
    let mut g = G1Affine::generator().to_bytes().as_ref().to_vec();
    g[0] &= 0x7f;
    v.push(("compression-flag-cleared", g));
    let mut g = G1Affine::generator().to_bytes().as_ref().to_vec();
    g[0] |= 0x40;
    v.push(("infinity-flag-with-body", g));
    v.push(("all-ff", vec![0xff; 48]));
    v.push(("all-00", vec![0x00; 48]));
    v.push(("identity", G1Affine::identity().to_bytes().as_ref().to_vec()));
    v.push(("other-valid-point", G1Affine::generator().to_bytes().as_ref().to_vec()));
    v
}

fn nonsubgroup_point() -> (G1Affine, BigUint) {
    let mut x = BigUint::from(1u32);
    loop {
        let enc = be48(&x, 0x80);
        let p: Option<G1Affine> = G1Affine::from_bytes_unchecked(&repr_of(&enc)).into();
        if let Some(p) = p {
            if !bool::from(p.is_torsion_free()) {
                return (p, x);
            }
        }
        x += 1u32;
    }
}

/// (class, uncompressed 96-byte encoding)
pub fn crafted_g1u() -> Vec<(&'static str, Vec<u8>)> {
    let mut v: Vec<(&'static str, Vec<u8>)> = vec![];
    let g = G1Affine::generator().to_raw_bytes();
    assert_eq!(g.len(), 96);
    let mut off = g.clone();
    off[95] ^= 1;
    v.push(("off-curve", off));
    let (ns, small_x) = nonsubgroup_point();
    // documented as accepted by the RawBytes format (curve check only); must not crash later
    v.push(("on-curve-not-in-subgroup", ns.to_raw_bytes()));
    let mut xp = ns.to_raw_bytes();
    xp[..48].copy_from_slice(&be48(&(p_modulus() + small_x), 0));
    v.push(("x>=p", xp));
    let mut yp = g.clone();
    let y = BigUint::from_bytes_be(&g[48..]);
    yp[48..].copy_from_slice(&be48(&(p_modulus() + y), 0));
    v.push(("y>=p", yp));
    let mut c = g.clone();
    c[0] |= 0x80;
    v.push(("compression-flag-set", c));
    let mut c = g.clone();
    c[0] |= 0x40;
    v.push(("infinity-flag-with-body", c));
    let mut c = g.clone();
    c[0] |= 0x20;
    v.push(("sort-flag-set", c));
    v.push(("all-ff", vec![0xff; 96]));
    v.push(("all-00", vec![0x00; 96]));
    v.push(("identity", G1Affine::identity().to_raw_bytes()));
    v.push(("other-valid-point", g));
    v
}

pub fn crafted_g2(fmt: Fmt) -> Vec<(&'static str, Vec<u8>)> {
    let n = fmt.g2_len();
    let g = g2_generator_bytes(fmt);
    assert_eq!(g.len(), n);
    let mut v: Vec<(&'static str, Vec<u8>)> = vec![];
    let mut c = g.clone();
    c[n - 1] ^= 1;
    v.push(("last-byte-flipped", c));
    let mut c = g.clone();
    c[0] ^= 0x80;
    v.push(("compression-flag-toggled", c));
    let mut c = g.clone();
    c[0] |= 0x40;
    v.push(("infinity-flag-with-body", c));
    let mut c = g.clone();
    c[0] ^= 0x20;
    v.push(("sort-flag-toggled", c));
    // first coordinate component >= p
    let mut c = g.clone();
    let x = BigUint::from_bytes_be(&{
        let mut t = g[..48].to_vec();
        t[0] &= 0x1f;
        t
    });
    c[..48].copy_from_slice(&be48(&(p_modulus() + x), g[0] & 0xe0));
    v.push(("coordinate>=p", c));
    v.push(("all-ff", vec![0xff; n]));
    v.push(("all-00", vec![0x00; n]));
    let mut id = vec![0u8; n];
    id[0] = if fmt == Fmt::P { 0xc0 } else { 0x40 };
    v.push(("identity", id));
    v.push(("other-valid-point", g));
    let _ = G2Affine::generator();
    v
}

fn scalar_modulus() -> BigUint {
    BigUint::parse_bytes(F::MODULUS.trim_start_matches("0x").as_bytes(), 16).unwrap()
}

fn crafted_scalar(cur: &[u8]) -> Vec<(&'static str, Vec<u8>)> {
    let r = scalar_modulus();
    let s = BigUint::from_bytes_le(cur);
    let enc = |x: &BigUint| {
        let mut b = x.to_bytes_le();
        b.resize(32, 0);
        b
    };
    let mut v = vec![];
    let nc = &s + &r;
    if nc.bits() <= 256 {
        v.push(("noncanonical(s+r)", enc(&nc)));
    }
    v.push(("modulus", enc(&r)));
    v.push(("all-ff", vec![0xff; 32]));
    v.push(("other-valid-scalar(s+1)", enc(&((&s + 1u32) % &r))));
    v
}

// ---------------------------------------------------------------------------------------------
// Batches
// ---------------------------------------------------------------------------------------------

const CHUNK: usize = 256;

fn chunked(label: &str, muts: Vec<Mutation>, out: &mut Vec<Batch>) {
    for (i, c) in muts.chunks(CHUNK).enumerate() {
        out.push(Batch {
            label: format!("{label}#{i}"),
            sweep: None,
            muts: c.to_vec(),
        });
    }
}

fn field_name(lay: &[Span], off: usize) -> String {
    field_at(lay, off).map(|f| f.name.clone()).unwrap_or_else(|| "<past-the-end>".into())
}

fn m(mu: Mu, field: impl Into<String>, class: impl Into<String>) -> Mutation {
    Mutation {
        mu,
        field: field.into(),
        class: class.into(),
    }
}

/// Offsets of the header region: the first `head` bytes plus every labelled header / length /
/// tag / parameter byte wherever it is.
pub fn header_positions(lay: &[Span], len: usize, head: usize) -> Vec<usize> {
    let mut v: Vec<usize> = (0..head.min(len)).collect();
    for f in lay {
        if matches!(f.kind, Kind::Header | Kind::Len | Kind::Tag | Kind::Param) {
            v.extend(f.off..f.off + f.len);
        }
    }
    v.sort();
    v.dedup();
    v
}

pub fn batches(def: &SubjectDef, valid: &[u8], lay: &[Span], thorough: bool, seed: u64) -> Vec<Batch> {
    let mut out: Vec<Batch> = vec![];
    let len = valid.len();
    let mut rng = vcore::rng_for(seed, &format!("c16-mut-{}", def.name));
    let is_json = matches!(def.kind, SKind::ZkirJson { .. });

    // --- identity, cross-format, appended bytes
    let mut basic = vec![m(Mu::Identity, "-", "identity")];
    if def.fmt().is_some() {
        basic.push(m(Mu::CrossFmt, "-", "cross-format-read"));
    }
    for (cls, x) in [
        ("append-1x00", vec![0u8; 1]),
        ("append-1xff", vec![0xffu8; 1]),
        ("append-32x00", vec![0u8; 32]),
        ("append-48xff", vec![0xffu8; 48]),
        ("append-4096x00", vec![0u8; 4096]),
        ("append-self", valid.to_vec()),
    ] {
        basic.push(m(Mu::Append(x), "<end>", cls));
    }
    chunked("basic", basic, &mut out);

    // --- header region: every byte position x all 256 values
    let head = match def.profile {
        Profile::HeaderOnly => 0,
        Profile::Full => {
            if thorough && !is_json {
                128
            } else {
                64
            }
        }
    };
    let swept = header_positions(lay, len, head);
    for &off in &swept {
        let name = byte_name(lay, off);
        out.push(Batch {
            label: format!("sweep@{off}:{name}"),
            sweep: Some(off),
            muts: (0..=255u8).map(|val| m(Mu::Byte { off, val }, name.clone(), "byte-substitution")).collect(),
        });
    }
    if def.profile == Profile::HeaderOnly {
        return out;
    }

    // --- truncation at every length (reported-only large objects: head, tail, stride)
    let lens: Vec<usize> = if def.reported_only && def.large {
        (0..len).filter(|l| *l < 160 || *l + 64 >= len || l % 97 == 0).collect()
    } else {
        (0..len).collect()
    };
    let tr: Vec<Mutation> =
        lens.into_iter().map(|l| m(Mu::Trunc(l), field_name(lay, l), "truncate")).collect();
    chunked("truncate", tr, &mut out);

    // --- every element replaced by crafted encodings
    let mut cr = vec![];
    let g1c = crafted_g1c();
    let g1u = crafted_g1u();
    for f in lay {
        let list: Vec<(&'static str, Vec<u8>)> = match f.kind {
            Kind::G1c => g1c.clone(),
            Kind::G1u => g1u.clone(),
            Kind::G2c => crafted_g2(Fmt::P),
            Kind::G2u => crafted_g2(Fmt::R),
            Kind::Scalar => crafted_scalar(&valid[f.off..f.off + f.len]),
            _ => continue,
        };
        let what = if f.kind == Kind::Scalar { "scalar" } else { "point" };
        for (cls, enc) in list {
            if enc[..] == valid[f.off..f.off + f.len] {
                continue;
            }
            cr.push(m(
                Mu::Splice { off: f.off, del: f.len, ins: enc },
                f.name.clone(),
                format!("{what}<-{cls}"),
            ));
        }
    }
    if def.reported_only && cr.len() > 2048 {
        cr.truncate(2048);
    }
    chunked("crafted", cr, &mut out);

    // --- structured edits of a verifying key: commitment count against the commitments present
    let vk_base = match def.kind {
        SKind::Mvk { .. } => Some(21),
        SKind::FamVk { .. } => Some(0),
        _ => None,
    };
    if let (Some(base), Some(fmt)) = (vk_base, def.fmt()) {
        let g = fmt.g1_len();
        let cnt_off = base + 2;
        let count = u32::from_le_bytes(valid[cnt_off..cnt_off + 4].try_into().unwrap());
        let body = base + 6;
        let fixed_end = body + count as usize * g;
        let fname = "vk.fixed_commitments.count";
        let with_count = |c: u32, mut rest: Vec<u8>| {
            let mut v = valid[..cnt_off].to_vec();
            v.extend(c.to_le_bytes());
            v.append(&mut rest);
            Mu::Whole(v)
        };
        let mut st = vec![];
        if count > 0 {
            // one fixed commitment removed, count adjusted
            let mut rest = valid[body..fixed_end - g].to_vec();
            rest.extend_from_slice(&valid[fixed_end..]);
            st.push(m(with_count(count - 1, rest), fname, "count-1,last-fixed-commitment-removed"));
            // all fixed commitments removed
            st.push(m(with_count(0, valid[fixed_end..].to_vec()), fname, "count=0,fixed-commitments-removed"));
            // count lowered without touching the body: covered by the sweep as well
            st.push(m(with_count(count - 1, valid[body..].to_vec()), fname, "count-1"));
            // one more fixed commitment, count adjusted
            let mut rest = valid[body..fixed_end].to_vec();
            rest.extend_from_slice(&valid[body..body + g]);
            rest.extend_from_slice(&valid[fixed_end..]);
            st.push(m(with_count(count + 1, rest), fname, "count+1,fixed-commitment-duplicated"));
        }
        st.push(m(with_count(u32::MAX, valid[body..].to_vec()), fname, "count=2^32-1"));
        // one permutation commitment more / fewer
        if fixed_end + g <= len {
            st.push(m(Mu::Trunc(len - g), "vk.permutation_commitment", "last-permutation-commitment-removed"));
            st.push(m(Mu::Append(valid[len - g..].to_vec()), "vk.permutation_commitment", "permutation-commitment-appended"));
        }
        chunked("structured", st, &mut out);
    }

    // --- bit flips (outside the swept header region, where every value of every byte is tried
    // anyway)
    let mut bits: Vec<usize> = vec![];
    let exhaustive = thorough && !def.large && !def.reported_only;
    if exhaustive {
        bits.extend(0..len * 8);
    } else {
        if thorough {
            // first and last byte of every element, all bits
            for f in lay {
                for b in 0..8 {
                    bits.push(f.off * 8 + b);
                    bits.push((f.off + f.len - 1) * 8 + b);
                }
            }
        }
        let n = if thorough { 8192 } else { 256 };
        for _ in 0..n {
            bits.push((rng.next_u64() % (len as u64 * 8).max(1)) as usize);
        }
        bits.sort();
        bits.dedup();
    }
    let fl: Vec<Mutation> = bits
        .into_iter()
        .filter(|b| b / 8 < len && swept.binary_search(&(b / 8)).is_err())
        .map(|b| {
            let off = b / 8;
            m(Mu::Byte { off, val: valid[off] ^ (1 << (b % 8)) }, field_name(lay, off), "bit-flip")
        })
        .collect();
    chunked("bitflip", fl, &mut out);

    // --- seeded splices: overwrite / insert / delete chunks
    let n = if thorough { 4096 } else { 128 };
    let mut sp = vec![];
    // splices land in the body: behind the fixed-width header fields, which the sweeps cover
    let mut body_start = lay.iter().filter(|f| f.kind == Kind::Header).map(|f| f.off + f.len).max().unwrap_or(0);
    if body_start + 66 > len {
        body_start = 0;
    }
    if len > 2 {
        for i in 0..n {
            let l = 1 + (rng.next_u32() as usize % 64.min(len - 1));
            let src = rng.next_u64() as usize % (len - l + 1);
            let dst = body_start + rng.next_u64() as usize % (len - body_start - l + 1);
            let chunk = valid[src..src + l].to_vec();
            let (mu, cls) = match i % 3 {
                0 => (Mu::Splice { off: dst, del: l, ins: chunk }, "splice-overwrite"),
                1 => (Mu::Splice { off: dst, del: 0, ins: chunk }, "splice-insert"),
                _ => (Mu::Splice { off: dst, del: l, ins: vec![] }, "splice-delete"),
            };
            if apply(valid, &mu) == valid {
                continue;
            }
            sp.push(m(mu, field_name(lay, dst), cls));
        }
    }
    chunked("splice", sp, &mut out);

    // --- IR specific
    match def.kind {
        SKind::ZkirBin { w } => {
            // every length prefix / integer parameter -> {0, 1, 2^16, 2^32, 2^62, 2^64-1, u128}
            let mut lp = vec![];
            for f in lay {
                if !matches!(f.kind, Kind::Len | Kind::Param) {
                    continue;
                }
                for (cls, x) in [
                    ("=0", 0u128),
                    ("=1", 1),
                    ("=250", 250),
                    ("=2^16", 1 << 16),
                    ("=2^31", 1 << 31),
                    ("=2^32", 1 << 32),
                    ("=2^32+5", (1 << 32) + 5),
                    ("=2^62", 1 << 62),
                    ("=2^63", 1 << 63),
                    ("=2^64-1", u64::MAX as u128),
                    ("=2^64(u128)", 1 << 64),
                ] {
                    let kind = if f.kind == Kind::Len { "length-prefix" } else { "parameter" };
                    lp.push(m(
                        Mu::Splice { off: f.off, del: f.len, ins: varint(x) },
                        f.name.clone(),
                        format!("{kind}{cls}"),
                    ));
                }
                // non-minimal varint of the same value
                let cur = valid[f.off] as u128;
                if f.len == 1 && cur < 251 {
                    let mut nm = vec![251u8];
                    nm.extend((cur as u16).to_le_bytes());
                    lp.push(m(Mu::Splice { off: f.off, del: 1, ins: nm }, f.name.clone(), "non-minimal-varint"));
                }
            }
            chunked("length-prefix", lp, &mut out);
            if w == 0 {
                chunked("grammar", crate::ir::grammar_bincode(), &mut out);
                let n = if thorough { 8192 } else { 512 };
                let mut rnd = vec![];
                for _ in 0..n {
                    let l = rng.next_u32() as usize % 48;
                    let mut b = vec![0u8; l];
                    rng.fill_bytes(&mut b);
                    // bias towards small values so that tags and lengths are often plausible
                    if rng.next_u32() % 2 == 0 {
                        for x in b.iter_mut() {
                            *x %= 20;
                        }
                    }
                    rnd.push(m(Mu::Whole(b), "<all>", "random-bytes"));
                }
                chunked("random", rnd, &mut out);
            }
        }
        SKind::ZkirJson { w } => {
            if w == 0 {
                chunked("grammar", crate::ir::grammar_json(), &mut out);
                chunked("json-structure", crate::ir::json_structural(), &mut out);
                let n = if thorough { 8192 } else { 512 };
                let alphabet: &[&str] = &[
                    "{", "}", "[", "]", ":", ",", "\"", "\"op\"", "\"inputs\"", "\"outputs\"",
                    "\"instructions\"", "\"load\"", "\"Bytes\"", "\"add\"", "\"a\"", "1", "0", "-", "e9", "null",
                    "true", " ", "\\", "\\u0000", "\"into_bytes\"", "18446744073709551616", "\"Native\"",
                ];
                let mut rnd = vec![];
                for _ in 0..n {
                    let l = 1 + rng.next_u32() as usize % 24;
                    let mut s = String::new();
                    for _ in 0..l {
                        s.push_str(alphabet[rng.next_u32() as usize % alphabet.len()]);
                    }
                    rnd.push(m(Mu::Whole(s.into_bytes()), "<all>", "random-json-tokens"));
                }
                chunked("random", rnd, &mut out);
            }
        }
        _ => {}
    }
    out
}
