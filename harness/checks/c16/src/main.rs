mod subjects;
use std::time::Instant;
use subjects::*;
use midnight_zk_stdlib::MidnightVK;
fn main() {
    vcore::pin_global_rayon(1);
    let t = Instant::now();
    let b = build_bundle(0, true).unwrap();
    println!("bundle built in {:?}", t.elapsed());
    for (k, v) in &b { println!("{k}: {} bytes", v.len()); }
    for tag in ["A", "B"] {
        for f in [Fmt::P, Fmt::R] {
            let bytes = &b[&format!("mvk:{tag}:{}", f.tag())];
            let t = Instant::now();
            for _ in 0..10 { MidnightVK::read(&mut &bytes[..], f.sf()).unwrap(); }
            println!("read mvk {tag} {}: {:?}/10", f.name(), t.elapsed());
            let l = mvk_layout(bytes, f).unwrap();
            println!("  layout fields {}", l.len());
        }
        let l = proof_layout(&b[&format!("proof:{tag}")]).unwrap();
        println!("proof {tag}: {} elements, {} points", l.len(), l.iter().filter(|f| f.kind == Kind::G1c).count());
    }
    for w in 0..2 {
        let (m, _) = zkir_manual(&zkir_program(w));
        println!("zkir {w}: manual==lib {} len {}", m == b[&format!("zkir:bin:{w}")], m.len());
        let s: &'static str = Box::leak(zkir_json(w).into_boxed_str());
        let r = midnight_zkir::ZkirRelation::read(s).unwrap();
        println!("  json==bin {}", zkir_encode(&r) == b[&format!("zkir:bin:{w}")]);
    }
}
