//! C16 — decoding and verifying untrusted bytes is total: errors, never crashes.
//!
//! Valid encodings of every verifier-facing object are mutated (every truncation length, every
//! header byte x 256 values, crafted invalid points / scalars in every body position, bit flips,
//! splices, appended bytes, cross-format reads, hostile bincode length prefixes, the IR
//! instruction grammar with wrong arities and huge parameters) and decoded — and, when a key
//! decodes, used to verify — inside child processes that run under an address-space limit. A
//! panic, an abort, a signal, an allocation failure or a time-out of the child is a violation
//! for the mutation it was working on; so is an accepted non-canonical encoding.

mod child;
mod ir;
mod mutate;
mod subjects;

use std::{
    collections::{BTreeMap, BTreeSet},
    io::{BufRead, BufReader, Read},
    os::unix::process::ExitStatusExt,
    path::PathBuf,
    process::{Command, Stdio},
    sync::{mpsc, Mutex},
    time::Duration,
};

use mutate::*;
use serde_json::json;
use subjects::*;
use vcore::{CaseOut, Ctx, Level, Viol};

#[derive(Clone, Debug)]
enum MutRes {
    Done { nontrivial: bool, toks: Vec<String> },
    Crash { kind: String, detail: String },
}

struct Sandbox {
    exe: PathBuf,
    bundle: PathBuf,
    seed: u64,
    tier: &'static str,
}

enum Msg {
    Line(String),
    Eof,
}

impl Sandbox {
    /// Runs batch `batch` of `subject` (n mutations) in child processes; a child that dies is
    /// charged to the mutation it had announced and a new child continues after it.
    fn run(&self, subject: &str, batch: usize, n: usize, cap: Duration, parts: usize, confirm: bool) -> Result<(Vec<MutRes>, u64), String> {
        let parts = parts.clamp(1, n.max(1));
        if parts == 1 {
            return self.run_range(subject, batch, 0, n, n, cap, confirm);
        }
        let bounds: Vec<(usize, usize)> = (0..parts).map(|p| (p * n / parts, (p + 1) * n / parts)).collect();
        let rs: Vec<Result<(Vec<MutRes>, u64), String>> = std::thread::scope(|sc| {
            let hs: Vec<_> = bounds
                .iter()
                .map(|&(lo, hi)| sc.spawn(move || self.run_range(subject, batch, lo, hi, n, cap, confirm)))
                .collect();
            hs.into_iter().map(|h| h.join().unwrap_or_else(|_| Err("sandbox thread panicked".into()))).collect()
        });
        let mut all = vec![];
        let mut spawned = 0;
        for r in rs {
            let (v, s) = r?;
            all.extend(v);
            spawned += s;
        }
        Ok((all, spawned))
    }

    /// Mutations lo..hi of a batch of n.
    fn run_range(&self, subject: &str, batch: usize, lo: usize, hi: usize, n: usize, cap: Duration, confirm: bool) -> Result<(Vec<MutRes>, u64), String> {
        let mut results: Vec<Option<MutRes>> = vec![None; n];
        let mut from = lo;
        let mut spawned = 0u64;
        while from < hi {
            spawned += 1;
            let mut ch = Command::new(&self.exe)
                .arg("--child")
                .arg(&self.bundle)
                .arg(self.seed.to_string())
                .arg(self.tier)
                .arg(subject)
                .arg(batch.to_string())
                .arg(from.to_string())
                .arg(hi.to_string())
                .stdin(Stdio::null())
                .stdout(Stdio::piped())
                .stderr(Stdio::piped())
                .spawn()
                .map_err(|e| format!("cannot spawn child: {e}"))?;
            let stdout = ch.stdout.take().unwrap();
            let mut stderr = ch.stderr.take().unwrap();
            let (tx, rx) = mpsc::channel::<Msg>();
            let reader = std::thread::spawn(move || {
                for l in BufReader::new(stdout).lines() {
                    match l {
                        Ok(l) => {
                            if tx.send(Msg::Line(l)).is_err() {
                                return;
                            }
                        }
                        Err(_) => break,
                    }
                }
                let _ = tx.send(Msg::Eof);
            });
            let errt = std::thread::spawn(move || {
                let mut buf = vec![];
                let mut chunk = [0u8; 4096];
                while let Ok(k) = stderr.read(&mut chunk) {
                    if k == 0 {
                        break;
                    }
                    if buf.len() < 16384 {
                        buf.extend_from_slice(&chunk[..k]);
                    }
                }
                String::from_utf8_lossy(&buf).to_string()
            });
            let mut current: Option<usize> = None;
            let mut finished = false;
            let mut timed_out = false;
            let mut ready = false;
            loop {
                match rx.recv_timeout(cap) {
                    Ok(Msg::Line(l)) => {
                        if let Some(r) = l.strip_prefix("start ") {
                            current = r.trim().parse().ok();
                        } else if let Some(r) = l.strip_prefix("r\t") {
                            let mut it = r.split('\t');
                            let i: usize = it.next().and_then(|s| s.parse().ok()).ok_or("bad result line")?;
                            let nontrivial = it.next() == Some("1");
                            let toks: Vec<String> = it.filter(|s| !s.is_empty()).map(|s| s.to_string()).collect();
                            if i >= n {
                                return Err(format!("child reported index {i} of {n}"));
                            }
                            results[i] = Some(MutRes::Done { nontrivial, toks });
                            current = None;
                        } else if let Some(r) = l.strip_prefix("ready ") {
                            ready = true;
                            if r.trim().parse::<usize>().ok() != Some(n) {
                                let _ = ch.kill();
                                let _ = ch.wait();
                                return Err(format!("child disagrees on the batch size: {r} vs {n}"));
                            }
                        } else if l == "done" {
                            finished = true;
                        }
                    }
                    Ok(Msg::Eof) => break,
                    Err(_) => {
                        timed_out = true;
                        let _ = ch.kill();
                        break;
                    }
                }
            }
            let status = ch.wait().map_err(|e| format!("wait: {e}"))?;
            let _ = reader.join();
            let err_text = errt.join().unwrap_or_default();
            if finished && status.success() {
                break;
            }
            let kind = if timed_out {
                format!("timeout(>{}s)", cap.as_secs())
            } else if let Some(s) = status.signal() {
                if err_text.contains("memory allocation of") {
                    "alloc".to_string()
                } else if s == libc::SIGABRT {
                    "abort".to_string()
                } else {
                    format!("signal-{s}")
                }
            } else {
                format!("exit-{}", status.code().unwrap_or(-1))
            };
            // a time-out under a loaded machine is re-examined alone with a five-fold cap
            if timed_out && confirm {
                if let Some(i) = current {
                    if ready {
                        let (one, sp) = self.run_range(subject, batch, i, i + 1, n, cap * 5, false)?;
                        spawned += sp;
                        results[i] = one.into_iter().next();
                        from = i + 1;
                        continue;
                    }
                }
            }
            match current {
                Some(i) if ready => {
                    let detail: String = err_text.lines().filter(|l| !l.starts_with("MACHINERY-ERROR")).take(3).collect::<Vec<_>>().join(" | ");
                    results[i] = Some(MutRes::Crash { kind, detail });
                    from = i + 1;
                }
                _ => {
                    return Err(format!(
                        "child for {subject} batch {batch} died outside a mutation ({kind}): {}",
                        err_text.chars().take(400).collect::<String>()
                    ))
                }
            }
        }
        let mut out = vec![];
        for (i, r) in results.into_iter().enumerate().take(hi).skip(lo) {
            out.push(r.ok_or(format!("no result for mutation {i} of {subject} batch {batch}"))?);
        }
        Ok((out, spawned))
    }
}

struct SubjectRt {
    def: SubjectDef,
    valid: Vec<u8>,
    batches: Vec<Batch>,
}

/// Set of byte values as a key fragment, relative to the original value where that is what
/// characterises the set.
fn set_desc(vals: &BTreeSet<u8>, orig: u8) -> String {
    let all_but: BTreeSet<u8> = (0..=255u8).filter(|v| *v != orig).collect();
    if *vals == all_but {
        return "!=orig".into();
    }
    let below: BTreeSet<u8> = (0..orig).collect();
    let above: BTreeSet<u8> = all_but.iter().copied().filter(|v| *v > orig).collect();
    if !below.is_empty() && *vals == below {
        return "<orig".into();
    }
    if !above.is_empty() && *vals == above {
        return ">orig".into();
    }
    literal_desc(vals)
}

/// `>=a`, `=a`, `=a..b,c..d`
fn literal_desc(vals: &BTreeSet<u8>) -> String {
    let mut ranges: Vec<(u8, u8)> = vec![];
    for v in vals {
        match ranges.last_mut() {
            Some((_, b)) if *b as u16 + 1 == *v as u16 => *b = *v,
            _ => ranges.push((*v, *v)),
        }
    }
    if ranges.len() == 1 && ranges[0].1 == 255 && ranges[0].0 != 255 {
        return format!(">={}", ranges[0].0);
    }
    let parts: Vec<String> =
        ranges.iter().map(|(a, b)| if a == b { format!("{a}") } else { format!("{a}..{b}") }).collect();
    format!("={}", parts.join(","))
}

fn stage_base(stage: &str) -> &str {
    stage.trim_end_matches("-other-proof").trim_end_matches("-under-other-key")
}

fn finding_key(def: &SubjectDef, field: &str, stage: &str, desc: &str, kind: &str) -> String {
    // the plonk key inside a MidnightVK is read and used by the same code as a bare one
    let inner_vk = matches!(def.kind, SKind::Mvk { .. }) && field.starts_with("vk.");
    let (entry, object) = if inner_vk { ("VerifyingKey::read", "VerifyingKey") } else { (def.entry(), def.object()) };
    let k = if stage == "decode" {
        format!("{entry}:{desc}:{kind}")
    } else {
        format!("{}:{object}.{desc}:{kind}", stage_base(stage))
    };
    if def.reported_only {
        format!("reported-only:{k}")
    } else {
        k
    }
}

/// Is the set description of this field relative to the original value (counts and lengths) or
/// absolute (sizes, flags, versions)?
fn relative_field(field: &str) -> bool {
    field.contains("count") || field.ends_with(".len")
}

/// Key fragment describing a non-sweep mutation: one fragment per way of breaking the input,
/// coarse enough that one defect gets one key.
fn mutation_desc(mu: &Mutation, site: &str) -> String {
    let c = mu.class.as_str();
    if let Some(rest) = c.strip_prefix("grammar:") {
        return format!("grammar:{}", rest.split('/').next().unwrap_or(rest));
    }
    if c.starts_with("json:") {
        return c.to_string();
    }
    if c.starts_with("length-prefix") || c == "non-minimal-varint" {
        return "length-prefix".into();
    }
    if c.starts_with("parameter") {
        return format!("{}:{c}", mu.field);
    }
    if c.starts_with("point<-") || c.starts_with("scalar<-") {
        return format!("{}<-{}", mu.field, c.split_once("<-").map(|x| x.1).unwrap_or(c));
    }
    if c.starts_with("count-1") || c.starts_with("count=0") {
        return format!("{}<orig", mu.field);
    }
    if c.starts_with("count+1") || c.starts_with("count=2^32-1") {
        return format!("{}>orig", mu.field);
    }
    let fam = if c.starts_with("splice") {
        "splice"
    } else if c.starts_with("append") {
        "append"
    } else {
        c
    };
    if site.is_empty() {
        fam.to_string()
    } else {
        format!("{fam}@{site}")
    }
}

fn family(class: &str) -> &str {
    class.split(':').next().unwrap_or(class)
}

#[derive(Default)]
struct Shared {
    /// (finding key, case) -> (mutations, example)
    reported_only: BTreeMap<(String, String), (u64, String)>,
    /// informational observations: (what, case) -> count
    info: BTreeMap<(String, String), u64>,
}

fn hex_head(b: &[u8]) -> String {
    let h = vcore::hex(&b[..b.len().min(128)]);
    if b.len() > 128 {
        format!("{h}...({} bytes)", b.len())
    } else {
        h
    }
}

fn main() {
    let args: Vec<String> = std::env::args().collect();
    if args.get(1).map(|s| s.as_str()) == Some("--child") {
        child::child_main(&args[2..]);
    }
    if args.get(1).map(|s| s.as_str()) == Some("--plan") {
        // developer aid: size of the space per subject, no subject code is run on mutated bytes
        let thorough = args.get(2).map(|s| s.as_str()) == Some("thorough");
        let bundle = build_bundle(0, true).expect("bundle");
        let mut total = 0;
        for def in subjects(thorough) {
            let valid = &bundle[&def.name];
            let lay = layout(&def, valid).expect("layout");
            let bs = batches(&def, valid, &lay, thorough, 0);
            let n: usize = bs.iter().map(|b| b.muts.len()).sum();
            total += n;
            println!("{:16} {:6} bytes {:5} batches {:7} mutations", def.name, valid.len(), bs.len(), n);
        }
        println!("total {total}");
        return;
    }
    let mut cx = Ctx::from_args("C16", Level::FaultEnumeration);
    vcore::pin_global_rayon(1);
    let thorough = cx.tier.is_thorough();
    let seed = cx.seed;
    cx.set_rule(
        "valid encodings {proof of 2 std-lib relations (one over an architecture with every chip \
         but base64 enabled) and of 2 Fam circuits; MidnightVK (Processed, RawBytes) of both \
         relations; bare plonk VerifyingKey (both formats, 2 circuits); ParamsVerifierKZG; \
         ZkStdLibArch; ZkirRelation as bincode (2 programs) and as JSON; reported only: MidnightPK, \
         ParamsKZG} x {every truncation length; every byte of the header region (first 64 bytes, \
         128 in the thorough tier, plus every labelled version / flag / size / count / length-prefix / \
         tag / parameter byte) x all 256 values; every G1/G2 element <- off-curve, non-subgroup, \
         coordinate >= p, wrong flags, all-FF, all-00, identity, other valid point; every proof \
         scalar <- s+r, r, all-FF, s+1; commitment count +-1 / 0 / 2^32-1 with and without matching \
         bodies; bit flips outside the swept header bytes (all bits of small objects in the thorough tier, \
         element edges + seeded otherwise); seeded splices (overwrite / insert / delete) in the \
         bodies; appended bytes; read in the other checked format; bincode length \
         prefixes and integer parameters <- {0, 1, 250, 2^16, 2^31, 2^32, 2^32+5, 2^62, 2^63, 2^64-1, \
         u128}; one-instruction IR programs for every operation x type parameter x arities 0..=4 as \
         bincode and JSON; broken JSON documents; seeded random byte / token strings}. Every key \
         that decodes verifies (verify and batch_verify) a valid proof of its own circuit and one of \
         another circuit; every mutated proof is verified under its own key and under the key of \
         another circuit. The quick tier takes the subset named in coverage.subjects (for the key over the wide \
         architecture only the labelled header bytes x 256). Reported-only proving keys are truncated \
         at the first 160 and last 64 lengths and every 97th in between. Per-mutation wall cap 20 s \
         (60 s thorough); a time-out is re-examined alone with five times the cap before it counts. A case is \
         non-trivial when the mutated bytes differ from the valid encoding.",
    );
    cx.assume("a child process under RLIMIT_AS = 4 GiB and a per-mutation wall cap stands for 'terminates without exhausting memory'; an allocation the limit refuses aborts the child and is charged to the mutation");
    cx.assume("RawBytesUnchecked reads of foreign bytes are out of scope (documented as trusted-input only)");
    cx.assume("RawBytes accepts on-curve points outside the prime-order subgroup by documented design (curve check only); they are exercised and must not crash anything downstream");

    // --- subjects
    let bundle = match vcore::catch(|| build_bundle(seed, true)) {
        Ok(Ok(b)) => b,
        Ok(Err(e)) => {
            cx.machinery_error(format!("cannot build the valid objects: {e}"));
            cx.finish()
        }
        Err(p) => {
            cx.machinery_error(format!("panic while building the valid objects: {p}"));
            cx.finish()
        }
    };
    let bundle_path = std::env::temp_dir().join(format!("vc-c16-bundle-{}.bin", std::process::id()));
    if let Err(e) = std::fs::write(&bundle_path, bundle_write(&bundle)) {
        cx.machinery_error(format!("cannot write the bundle: {e}"));
        cx.finish()
    }
    let sb = Sandbox {
        exe: std::env::current_exe().expect("current_exe"),
        bundle: bundle_path.clone(),
        seed,
        tier: cx.tier.name(),
    };
    let cap = Duration::from_secs(if thorough { 60 } else { 20 });

    // --- sandbox self-test: the parent must tell ok / panic / allocation failure / abort / hang apart
    match sb.run("selftest", 0, 6, Duration::from_secs(4), 1, false) {
        Ok((r, spawned)) => {
            let got: Vec<String> = r
                .iter()
                .map(|x| match x {
                    MutRes::Done { toks, .. } => toks.first().map(|t| t.split(':').next().unwrap_or("").to_string()).unwrap_or_default(),
                    MutRes::Crash { kind, .. } => kind.split('(').next().unwrap_or("").to_string(),
                })
                .collect();
            let want = ["decode=ok", "decode=panic", "alloc", "abort", "timeout", "decode=err"];
            cx.require(got == want, &format!("sandbox self-test: expected {want:?}, got {got:?}"));
            cx.require(spawned == 4, "sandbox self-test: three crashes need four children");
            cx.extra("sandbox_selftest", json!({"outcomes": got, "children": spawned}));
        }
        Err(e) => cx.machinery_error(format!("sandbox self-test failed: {e}")),
    }

    let mut rts: Vec<SubjectRt> = vec![];
    for def in subjects(thorough) {
        let Some(valid) = bundle.get(&def.name).cloned() else {
            cx.machinery_error(format!("subject {} missing from the bundle", def.name));
            continue;
        };
        let lay = match layout(&def, &valid) {
            Ok(l) => l,
            Err(e) => {
                cx.machinery_error(format!("layout of {}: {e}", def.name));
                continue;
            }
        };
        let covered: usize = lay.iter().map(|f| f.len).sum();
        cx.require(covered == valid.len(), &format!("layout of {} covers {covered} of {} bytes", def.name, valid.len()));
        let batches = batches(&def, &valid, &lay, thorough, seed);
        rts.push(SubjectRt { def, valid, batches });
    }
    let table: Vec<_> = rts
        .iter()
        .map(|r| {
            json!({
                "subject": r.def.name,
                "object": r.def.object(),
                "entry": r.def.entry(),
                "bytes": r.valid.len(),
                "batches": r.batches.len(),
                "mutations": r.batches.iter().map(|b| b.muts.len()).sum::<usize>(),
                "byte_sweeps": r.batches.iter().filter(|b| b.sweep.is_some()).count(),
                "reported_only": r.def.reported_only,
                "profile": format!("{:?}", r.def.profile),
            })
        })
        .collect();
    cx.extra("subjects", json!(table));

    let shared = Mutex::new(Shared::default());
    // one pool of cases over all subjects (cheap subjects first), so that the long batches of the
    // wide-architecture key overlap with everything else; those are also split over 8 children
    let mut cases: Vec<(String, (usize, usize))> = vec![];
    for (si, rt) in rts.iter().enumerate() {
        for (bi, b) in rt.batches.iter().enumerate() {
            cases.push((format!("{}/{}", rt.def.name, b.label), (si, bi)));
        }
    }
    cx.run_cases("mutations", &cases, |(si, bi)| {
        let rt = &rts[*si];
        let batch = &rt.batches[*bi];
        let case = format!("{}/{}", rt.def.name, batch.label);
        let parts = if rt.def.large { 8 } else { 1 };
        let t0 = std::time::Instant::now();
        let (res, spawned) = match sb.run(&rt.def.name, *bi, batch.muts.len(), cap, parts, true) {
            Ok(x) => x,
            Err(e) => panic!("sandbox: {e}"),
        };
        if std::env::var_os("C16_TIMING").is_some() {
            eprintln!("TIMING {:.2}s {case} ({} mutations, {spawned} children)", t0.elapsed().as_secs_f64(), batch.muts.len());
        }
        classify(rt, batch, &case, &res, spawned, &shared)
    });
    let _ = std::fs::remove_file(&bundle_path);

    // --- anti-vacuity
    if !cx.is_replay() {
        for rt in &rts {
            let n = cx.counter_value(&format!("identity-ok:{}", rt.def.name));
            cx.require(n == 1, &format!("the valid encoding of {} must decode (and verify)", rt.def.name));
        }
        for c in [
            "mut:truncate",
            "mut:byte-substitution",
            "mut:bit-flip",
            "mut:cross-format-read",
            "mut:point<-off-curve",
            "mut:point<-on-curve-not-in-subgroup",
            "mut:point<-x>=p",
            "mut:point<-all-ff",
            "mut:scalar<-noncanonical(s+r)",
            "mut:length-prefix=2^32",
            "mut:length-prefix=2^62",
            "mut:parameter=2^32+5",
            "mut:grammar",
            "mut:json",
            "mut:count-1,last-fixed-commitment-removed",
            "mutated-input-decoded",
            "mutated-input-rejected",
            "children",
        ] {
            cx.require(cx.counter_value(c) > 0, &format!("counter {c} is zero: that part of the space was not exercised"));
        }
    }
    let sh = shared.into_inner().unwrap();
    let mut ro: BTreeMap<String, (u64, String)> = BTreeMap::new();
    for ((k, _), (n, ex)) in sh.reported_only {
        let e = ro.entry(k).or_insert((0, ex));
        e.0 += n;
    }
    for (k, (n, ex)) in &ro {
        cx.note(format!("reported only (local prover artefact, not a violation): {k} [{n} mutation(s)] e.g. {ex}"));
    }
    cx.extra(
        "reported_only_findings",
        json!(ro.iter().map(|(k, (n, ex))| json!({"key": k, "mutations": n, "example": ex})).collect::<Vec<_>>()),
    );
    let mut info: BTreeMap<String, u64> = BTreeMap::new();
    for ((k, _), n) in sh.info {
        *info.entry(k).or_default() += n;
    }
    cx.extra("observations", json!(info));
    cx.finish()
}

/// In the bincode IR decoder every size comes from a length prefix: an allocation failure or a
/// `capacity overflow` panic is the hostile-length defect however the bytes were produced.
fn hostile_length(def: &SubjectDef, p: &Problem) -> bool {
    matches!(def.kind, SKind::ZkirBin { .. })
        && p.stage == "decode"
        && (p.kind == "alloc" || (p.kind == "panic" && p.msg.starts_with("capacity overflow")))
}

#[derive(Clone)]
struct Problem {
    stage: String,
    kind: String,
    msg: String,
    idx: usize,
}

fn classify(rt: &SubjectRt, batch: &Batch, case: &str, res: &[MutRes], spawned: u64, shared: &Mutex<Shared>) -> CaseOut {
    let def = &rt.def;
    let mut out = CaseOut::batch();
    out.counter("children", spawned);
    let is_proof = matches!(def.kind, SKind::Proof { .. } | SKind::FamProof { .. });
    let mut problems: Vec<Problem> = vec![];
    let mut info: Vec<String> = vec![];
    for (i, (mu, r)) in batch.muts.iter().zip(res).enumerate() {
        out.counter(&format!("mut:{}", family(&mu.class)), 1);
        match r {
            MutRes::Crash { kind, detail } => {
                out.eval(&format!("{}:crash:{}", def.object(), kind.split('(').next().unwrap_or(kind)), true);
                problems.push(Problem {
                    stage: "decode".into(),
                    kind: kind.split('(').next().unwrap_or(kind).to_string(),
                    msg: format!("the child process died ({kind}) {detail}"),
                    idx: i,
                });
            }
            MutRes::Done { nontrivial, toks } => {
                let mut class = String::new();
                let mut decode_ok = false;
                for t in toks {
                    let Some((name, val)) = t.split_once('=') else { continue };
                    if name == "harness" {
                        panic!("the child's own code panicked on {case} mutation {i}: {val}");
                    }
                    if name == "decode" || name == "verify" {
                        if !class.is_empty() {
                            class.push('/');
                        }
                        class.push_str(&format!("{name}-{}", val.split(':').next().unwrap_or(val)));
                    }
                    if name == "decode" && val == "ok" {
                        decode_ok = true;
                    }
                    if let Some(msg) = val.strip_prefix("panic:") {
                        if let Some(what) = name.strip_prefix("info:") {
                            info.push(format!("{}: {what} panics on a decoded {} ({})", mu.field, def.object(), vcore::panic_site(msg)));
                        } else {
                            problems.push(Problem { stage: name.into(), kind: "panic".into(), msg: msg.into(), idx: i });
                        }
                        continue;
                    }
                    match (name, val) {
                        ("canon", v) if v.starts_with("mismatch") || v == "write-failed" => {
                            if *nontrivial || matches!(mu.mu, Mu::Identity) {
                                problems.push(Problem { stage: "decode".into(), kind: "accepts-non-canonical".into(), msg: v.into(), idx: i });
                            }
                        }
                        ("accept", "1") => {
                            if is_proof {
                                problems.push(Problem { stage: "decode".into(), kind: "mutated-proof-accepted".into(), msg: "a proof that differs from the honest one was accepted".into(), idx: i });
                            } else {
                                info.push(format!("{}: a {} with this field mutated still accepts the honest proof", mu.field, def.object()));
                            }
                        }
                        ("accept-other", "1") => {
                            problems.push(Problem { stage: "verify-under-other-key".into(), kind: "accepted-under-the-key-of-another-circuit".into(), msg: "accepted".into(), idx: i });
                        }
                        ("noncanon", "1") => info.push(format!("{}: a non-minimal bincode integer encoding is accepted (not a field / point encoding)", def.object())),
                        ("roundtrip", "unstable") => problems.push(Problem { stage: "write_relation".into(), kind: "unstable-roundtrip".into(), msg: "decode(encode(decode(x))) differs".into(), idx: i }),
                        ("utf8", "no") => class = "not-utf8(unreachable-through-&str-API)".into(),
                        _ => {}
                    }
                }
                // the same failure through the second entry point is the same defect: keep
                // `batch_verify` problems only where `verify` has none of that kind
                let mine: Vec<Problem> = problems.iter().filter(|p| p.idx == i).cloned().collect();
                problems.retain(|p| {
                    !(p.idx == i
                        && p.stage.starts_with("batch_verify")
                        && mine.iter().any(|q| q.kind == p.kind && q.stage == p.stage.replacen("batch_verify", "verify", 1)))
                });
                if toks.iter().any(|t| t == "exact-reread=err") {
                    info.push("ZkirRelation::read_relation cannot read back exactly what write_relation wrote (it decodes `(Program, usize)` and so needs one more varint after the program)".into());
                }
                if class.is_empty() {
                    class = "no-stage".into();
                }
                // a checked format must not accept an invalid point encoding at all
                if decode_ok && !is_proof && *nontrivial {
                    if let Some(c) = mu.class.strip_prefix("point<-") {
                        let compressed = def.fmt() == Some(Fmt::P);
                        let invalid = matches!(
                            c,
                            "off-curve" | "x>=p" | "y>=p" | "coordinate>=p" | "compression-flag-cleared" | "compression-flag-set"
                                | "compression-flag-toggled" | "infinity-flag-with-body" | "all-ff" | "all-00"
                        ) || (compressed && c == "on-curve-not-in-subgroup");
                        if invalid {
                            problems.push(Problem { stage: "decode".into(), kind: "accepts-invalid-point".into(), msg: format!("the {} format accepted the crafted encoding `{c}`", def.fmt().map(|f| f.name()).unwrap_or("")), idx: i });
                        } else if c == "on-curve-not-in-subgroup" {
                            info.push(format!("{}: RawBytes accepts an on-curve point outside the prime-order subgroup (documented: curve check only)", def.object()));
                        }
                    }
                }
                let class = format!("{}:{class}", def.object());
                out.eval(&class, *nontrivial);
                if *nontrivial {
                    out.counter(if decode_ok { "mutated-input-decoded" } else { "mutated-input-rejected" }, 1);
                }
                if matches!(mu.mu, Mu::Identity) {
                    let good = toks.iter().all(|t| {
                        let (n, v) = t.split_once('=').unwrap_or((t, ""));
                        match n {
                            "decode" | "verify" | "batch_verify" | "used_chips" | "write_relation" | "reread" | "info:nb_points" => v == "ok",
                            "canon" => v == "ok",
                            _ => true,
                        }
                    }) && decode_ok;
                    if good {
                        out.counter(&format!("identity-ok:{}", def.name), 1);
                    }
                    out.sample = Some(json!({"mutation": "identity", "outcome": toks}));
                }
            }
        }
    }

    // --- problems -> finding keys
    let describe = |i: usize| -> serde_json::Value {
        let mu = &batch.muts[i];
        let bytes = apply(&rt.valid, &mu.mu);
        json!({
            "subject": def.name,
            "batch": batch.label,
            "mutation_index": i,
            "mutation": format!("{:?}", mu.mu).chars().take(200).collect::<String>(),
            "field": mu.field,
            "class": mu.class,
            "format": def.fmt().map(|f| f.name()),
            "mutated_bytes": hex_head(&bytes),
            "valid_length": rt.valid.len(),
        })
    };
    // (stage, kind, desc) -> (count, first problem)
    let mut keyed: BTreeMap<(String, String, String), (u64, Problem)> = BTreeMap::new();
    if let Some(off) = batch.sweep {
        let orig = rt.valid[off];
        let mut sets: BTreeMap<(String, String), (BTreeSet<u8>, Problem)> = BTreeMap::new();
        for p in &problems {
            let Mu::Byte { val, .. } = batch.muts[p.idx].mu else { continue };
            sets.entry((p.stage.clone(), p.kind.clone())).or_insert_with(|| (BTreeSet::new(), p.clone())).0.insert(val);
        }
        for ((stage, kind), (vals, first)) in sets {
            let field = &batch.muts[first.idx].field;
            let desc = if hostile_length(def, &first) {
                "length-prefix".to_string()
            } else if relative_field(field) {
                // counts: relative to the valid value, and without the byte index
                let base = field.split("[byte").next().unwrap_or(field);
                let sd = set_desc(&vals, orig);
                if sd.ends_with("orig") {
                    format!("{base}{sd}")
                } else {
                    format!("{field}{sd}")
                }
            } else {
                format!("{field}{}", literal_desc(&vals))
            };
            let e = keyed.entry((stage, kind, desc)).or_insert_with(|| (0, first.clone()));
            e.0 += vals.len() as u64;
        }
    } else {
        for p in &problems {
            let mu = &batch.muts[p.idx];
            let site = if p.kind == "panic" { vcore::panic_site(&p.msg) } else { String::new() };
            let desc = if hostile_length(def, p) { "length-prefix".to_string() } else { mutation_desc(mu, &site) };
            keyed.entry((p.stage.clone(), p.kind.clone(), desc)).or_insert_with(|| (0, p.clone())).0 += 1;
        }
    }
    for ((stage, kind, desc), (n, first)) in keyed {
        let key = finding_key(def, &batch.muts[first.idx].field, &stage, &desc, &kind);
        let site = if kind == "panic" { format!(" [{}]", vcore::panic_site(&first.msg)) } else { String::new() };
        let what = format!(
            "{} of a mutated {} ({}; {} mutation(s) in this batch, first: #{} {}): {}{}",
            if stage == "decode" { def.entry().to_string() } else { format!("{stage} with a decoded {}", def.object()) },
            def.object(),
            desc,
            n,
            first.idx,
            batch.muts[first.idx].class,
            first.msg,
            site
        );
        if def.reported_only {
            out.count(&format!("reported-only:{kind}"), n);
            shared.lock().unwrap().reported_only.insert((key, case.to_string()), (n, what.chars().take(300).collect()));
        } else {
            let mut d = describe(first.idx);
            d["mutations_in_batch"] = json!(n);
            out.viol(Viol::new(key, what, d));
        }
    }
    if !info.is_empty() {
        let mut g = shared.lock().unwrap();
        let mut per: BTreeMap<String, u64> = BTreeMap::new();
        for i in info {
            *per.entry(i).or_default() += 1;
        }
        for (k, n) in per {
            g.info.insert((k, case.to_string()), n);
        }
    }
    out
}
