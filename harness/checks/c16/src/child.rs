//! The sandboxed side: one process runs one batch of mutations of one subject under an address
//! space limit and reports one line per mutation on stdout.
//!
//!   start <i>                       (flushed before mutation i is touched)
//!   r <i> <stage>=<ok|err|panic:msg> ... [canon=ok|mismatch] [accept=1] ...   (tab separated)

use std::{
    io::Write,
    sync::Mutex,
};

use blake2b_simd::State as Blake2b;
use midnight_curves::Bls12;
use midnight_proofs::{
    circuit::SimpleFloorPlanner,
    poly::kzg::params::{ParamsKZG, ParamsVerifierKZG},
    utils::SerdeFormat,
};
use midnight_zk_stdlib::{MidnightPK, MidnightVK, Relation, ZkStdLibArch};
use midnight_zkir::ZkirRelation;
use vfam::{
    api::{self, BlakeT, Vk},
    fam::{Fam, F},
};

use crate::{mutate::*, subjects::*};

pub const RLIMIT_AS_BYTES: u64 = 4 << 30;

static LAST_ANY_THREAD: Mutex<Option<String>> = Mutex::new(None);

fn install_hooks() {
    vcore::install_panic_hook();
    let prev = std::panic::take_hook();
    std::panic::set_hook(Box::new(move |info| {
        let msg = if let Some(s) = info.payload().downcast_ref::<&str>() {
            s.to_string()
        } else if let Some(s) = info.payload().downcast_ref::<String>() {
            s.clone()
        } else {
            "<non-string panic payload>".to_string()
        };
        let loc = info.location().map(|l| format!("{}:{}", l.file(), l.line())).unwrap_or_default();
        if let Ok(mut g) = LAST_ANY_THREAD.lock() {
            if g.is_none() {
                *g = Some(format!("{msg} @ {loc}"));
            }
        }
        prev(info);
    }));
}

/// Runs one stage; a panic (on this or a pool thread) becomes `panic:<message @ file:line>`.
fn stage<T>(name: &str, toks: &mut Vec<String>, f: impl FnOnce() -> Result<T, String>) -> Option<T> {
    if let Ok(mut g) = LAST_ANY_THREAD.lock() {
        *g = None;
    }
    match vcore::catch(f) {
        Ok(Ok(v)) => {
            toks.push(format!("{name}=ok"));
            Some(v)
        }
        Ok(Err(_)) => {
            toks.push(format!("{name}=err"));
            None
        }
        Err(mut p) => {
            if p.starts_with("<panic on another thread>") {
                if let Some(m) = LAST_ANY_THREAD.lock().ok().and_then(|mut g| g.take()) {
                    p = m;
                }
            }
            let mut p: String = p.chars().map(|c| if c == '\t' || c == '\n' || c == '\r' { ' ' } else { c }).collect();
            if p.len() > 300 {
                let mut cut = 300;
                while !p.is_char_boundary(cut) {
                    cut -= 1;
                }
                p.truncate(cut);
            }
            toks.push(format!("{name}=panic:{p}"));
            None
        }
    }
}

fn es<T, E: std::fmt::Debug>(r: Result<T, E>) -> Result<T, String> {
    r.map_err(|e| format!("{e:?}"))
}

fn canon(toks: &mut Vec<String>, input: &[u8], remaining: usize, reencoded: Result<Vec<u8>, String>) {
    let consumed = input.len() - remaining;
    match reencoded {
        Ok(b) if b[..] == input[..consumed] => toks.push("canon=ok".into()),
        Ok(b) => {
            let at = b.iter().zip(input.iter()).position(|(x, y)| x != y).unwrap_or(b.len().min(consumed));
            toks.push(format!("canon=mismatch:first-difference-at-byte-{at},consumed-{consumed},reencoded-{}", b.len()));
        }
        Err(_) => toks.push("canon=write-failed".into()),
    }
}

struct Std {
    vparams: ParamsVerifierKZG<Bls12>,
    proof_a: Vec<u8>,
    proof_b: Vec<u8>,
    inst_a: F,
    inst_b: (F, F),
    pi_a: Vec<F>,
    pi_b: Vec<F>,
}

impl Std {
    fn new(b: &Bundle, seed: u64) -> Self {
        let vp = &b["vparams:A:raw"];
        let vparams = ParamsVerifierKZG::<Bls12>::read(&mut &vp[..], SerdeFormat::RawBytes).expect("valid verifier params");
        let (inst_a, _) = REL_A.honest(seed);
        let (inst_b, _) = rel_b().honest(seed);
        Std {
            vparams,
            proof_a: b["proof:A"].clone(),
            proof_b: b["proof:B"].clone(),
            inst_a,
            inst_b,
            pi_a: RelA::format_instance(&inst_a).unwrap(),
            pi_b: RelB::format_instance(&inst_b).unwrap(),
        }
    }
    fn verify_as(&self, tag: &str, vparams: &ParamsVerifierKZG<Bls12>, vk: &MidnightVK, proof: &[u8]) -> Result<(), String> {
        if tag == "A" {
            es(midnight_zk_stdlib::verify::<RelA, Blake2b>(vparams, vk, &self.inst_a, None, proof))
        } else {
            es(midnight_zk_stdlib::verify::<RelB, Blake2b>(vparams, vk, &self.inst_b, None, proof))
        }
    }
    fn batch_as(&self, tag: &str, vk: &MidnightVK, proof: &[u8]) -> Result<(), String> {
        let pi = if tag == "A" { self.pi_a.clone() } else { self.pi_b.clone() };
        es(midnight_zk_stdlib::batch_verify::<Blake2b>(&self.vparams, &[vk.clone()], &[pi], &[proof.to_vec()]))
    }
    fn proof(&self, tag: &str) -> &[u8] {
        if tag == "A" {
            &self.proof_a
        } else {
            &self.proof_b
        }
    }
}

fn other_tag(tag: &str) -> &'static str {
    if tag == "A" {
        "B"
    } else {
        "A"
    }
}

struct FamCtx {
    vparams: ParamsVerifierKZG<Bls12>,
    cfg: [vfam::lattice::Config; 2],
    inst: [Vec<Vec<F>>; 2],
    proof: [Vec<u8>; 2],
}

impl FamCtx {
    fn new(b: &Bundle, seed: u64) -> Self {
        let vp = &b["vparams:fam0:raw"];
        let vparams = ParamsVerifierKZG::<Bls12>::read(&mut &vp[..], SerdeFormat::RawBytes).expect("valid verifier params");
        let cfg = [fam_cfg(0, seed).expect("fam cfg"), fam_cfg(1, seed).expect("fam cfg")];
        let inst = [fam_instances(&cfg[0], seed), fam_instances(&cfg[1], seed)];
        FamCtx {
            vparams,
            cfg,
            inst,
            proof: [b["proof:fam0"].clone(), b["proof:fam1"].clone()],
        }
    }
    fn read_vk(&self, w: usize, bytes: &mut &[u8], fmt: SerdeFormat) -> Result<Vk, String> {
        es(Vk::read::<_, Fam<SimpleFloorPlanner>>(bytes, fmt, self.cfg[w].p.clone()))
    }
    /// Ok(accepted)
    fn verify(&self, vk: &Vk, w_inst: usize, proof: &[u8]) -> Result<bool, String> {
        let v = api::verify::<BlakeT>(&self.vparams, vk, &[vec![]], &[self.inst[w_inst].clone()], proof);
        if v.accepted() {
            Ok(true)
        } else {
            Err(format!("{v:?}"))
        }
    }
}

type Exec = Box<dyn Fn(&Mutation, &[u8], bool) -> Vec<String>>;

fn executor(def: &SubjectDef, b: &Bundle, seed: u64) -> Exec {
    match def.kind.clone() {
        SKind::Mvk { tag, fmt } => {
            let cx = Std::new(b, seed);
            Box::new(move |mu, bytes, nontrivial| {
                let mut t = vec![];
                let f = if matches!(mu.mu, Mu::CrossFmt) { fmt.other() } else { fmt };
                let mut rest: &[u8] = bytes;
                let Some(vk) = stage("decode", &mut t, || es(MidnightVK::read(&mut rest, f.sf()))) else { return t };
                let mut re = vec![];
                let w = es(vk.write(&mut re, f.sf())).map(|_| re);
                canon(&mut t, bytes, rest.len(), w);
                let own = stage("verify", &mut t, || cx.verify_as(tag, &cx.vparams, &vk, cx.proof(tag)));
                if own.is_some() && nontrivial {
                    t.push("accept=1".into());
                }
                let o = other_tag(tag);
                stage("verify-other-proof", &mut t, || cx.verify_as(o, &cx.vparams, &vk, cx.proof(o)));
                stage("batch_verify", &mut t, || cx.batch_as(tag, &vk, cx.proof(tag)));
                stage("batch_verify-other-proof", &mut t, || cx.batch_as(o, &vk, cx.proof(o)));
                t
            })
        }
        SKind::Proof { tag } => {
            let cx = Std::new(b, seed);
            let rd = |tg: &str| {
                let v = &b[&format!("mvk:{tg}:raw")];
                MidnightVK::read(&mut &v[..], SerdeFormat::RawBytes).expect("valid key")
            };
            let vk_own = rd(tag);
            let vk_other = rd(other_tag(tag));
            Box::new(move |_mu, bytes, nontrivial| {
                let mut t = vec![];
                let own = stage("decode", &mut t, || cx.verify_as(tag, &cx.vparams, &vk_own, bytes));
                if own.is_some() && nontrivial {
                    t.push("accept=1".into());
                }
                let o = other_tag(tag);
                let r = stage("verify-under-other-key", &mut t, || cx.verify_as(o, &cx.vparams, &vk_other, bytes));
                if r.is_some() {
                    t.push("accept-other=1".into());
                }
                let r = stage("batch_verify", &mut t, || cx.batch_as(tag, &vk_own, bytes));
                if r.is_some() && nontrivial {
                    t.push("accept=1".into());
                }
                t
            })
        }
        SKind::FamVk { w, fmt } => {
            let cx = FamCtx::new(b, seed);
            Box::new(move |mu, bytes, nontrivial| {
                let mut t = vec![];
                let f = if matches!(mu.mu, Mu::CrossFmt) { fmt.other() } else { fmt };
                let mut rest: &[u8] = bytes;
                let Some(vk) = stage("decode", &mut t, || cx.read_vk(w, &mut rest, f.sf())) else { return t };
                let mut re = vec![];
                let wr = es(vk.write(&mut re, f.sf())).map(|_| re);
                canon(&mut t, bytes, rest.len(), wr);
                let own = stage("verify", &mut t, || cx.verify(&vk, w, &cx.proof[w]));
                if own.is_some() && nontrivial {
                    t.push("accept=1".into());
                }
                stage("verify-other-proof", &mut t, || cx.verify(&vk, 1 - w, &cx.proof[1 - w]));
                t
            })
        }
        SKind::FamProof { w } => {
            let cx = FamCtx::new(b, seed);
            let rd = |i: usize| {
                let v = &b[&format!("vk:fam{i}:raw")];
                cx.read_vk(i, &mut &v[..], SerdeFormat::RawBytes).expect("valid key")
            };
            let vk_own = rd(w);
            let vk_other = rd(1 - w);
            Box::new(move |_mu, bytes, nontrivial| {
                let mut t = vec![];
                let own = stage("decode", &mut t, || cx.verify(&vk_own, w, bytes));
                if own.is_some() && nontrivial {
                    t.push("accept=1".into());
                }
                let r = stage("verify-under-other-key", &mut t, || cx.verify(&vk_other, 1 - w, bytes));
                if r.is_some() {
                    t.push("accept-other=1".into());
                }
                t
            })
        }
        SKind::VParams { fmt } => {
            let cx = Std::new(b, seed);
            let v = &b["mvk:A:raw"];
            let vk = MidnightVK::read(&mut &v[..], SerdeFormat::RawBytes).expect("valid key");
            Box::new(move |mu, bytes, nontrivial| {
                let mut t = vec![];
                let f = if matches!(mu.mu, Mu::CrossFmt) { fmt.other() } else { fmt };
                let mut rest: &[u8] = bytes;
                let Some(vp) = stage("decode", &mut t, || es(ParamsVerifierKZG::<Bls12>::read(&mut rest, f.sf()))) else { return t };
                let mut re = vec![];
                let wr = es(vp.write(&mut re, f.sf())).map(|_| re);
                canon(&mut t, bytes, rest.len(), wr);
                let own = stage("verify", &mut t, || cx.verify_as("A", &vp, &vk, cx.proof("A")));
                if own.is_some() && nontrivial {
                    t.push("accept=1".into());
                }
                t
            })
        }
        SKind::Arch => Box::new(move |_mu, bytes, _| {
            let mut t = vec![];
            let mut rest: &[u8] = bytes;
            let Some(a) = stage("decode", &mut t, || es(ZkStdLibArch::read(&mut rest))) else { return t };
            let mut re = vec![];
            let wr = es(a.write(&mut re)).map(|_| re);
            canon(&mut t, bytes, rest.len(), wr);
            // informational: the decoded descriptor fed to the library's own consumer
            stage("info:nb_points", &mut t, || Ok::<_, String>(a.nb_points()));
            t
        }),
        SKind::ZkirBin { .. } => Box::new(move |_mu, bytes, _| {
            let mut t = vec![];
            let mut rest: &[u8] = bytes;
            let Some(r) = stage("decode", &mut t, || es(<ZkirRelation as Relation>::read_relation(&mut rest))) else { return t };
            let consumed = bytes.len() - rest.len();
            stage("used_chips", &mut t, || Ok::<_, String>(r.used_chips()));
            let re = stage("write_relation", &mut t, || {
                let mut v = vec![];
                es(r.write_relation(&mut v)).map(|_| v)
            });
            if let Some(re) = re {
                if consumed == 0 || re[..] != bytes[..consumed - 1] {
                    t.push("noncanon=1".into());
                }
                // `read_relation` decodes `(Program, usize)`: it needs one more varint after the
                // program (inside a MidnightPK that is the first byte of the plonk key)
                if <ZkirRelation as Relation>::read_relation(&mut &re[..]).is_err() {
                    t.push("exact-reread=err".into());
                }
                let mut re1 = re.clone();
                re1.push(ZKIR_TRAILER);
                let again = stage("reread", &mut t, || es(<ZkirRelation as Relation>::read_relation(&mut &re1[..])));
                if let Some(a) = again {
                    let mut v = vec![];
                    if a.write_relation(&mut v).is_err() || v != re {
                        t.push("roundtrip=unstable".into());
                    }
                }
            }
            t
        }),
        SKind::ZkirJson { .. } => Box::new(move |_mu, bytes, _| {
            let mut t = vec![];
            let Ok(s) = std::str::from_utf8(bytes) else {
                t.push("utf8=no".into());
                return t;
            };
            // the API wants a &'static str
            let s: &'static str = Box::leak(s.to_string().into_boxed_str());
            let Some(r) = stage("decode", &mut t, || es(ZkirRelation::read(s))) else { return t };
            stage("used_chips", &mut t, || Ok::<_, String>(r.used_chips()));
            stage("write_relation", &mut t, || {
                let mut v = vec![];
                es(r.write_relation(&mut v)).map(|_| v)
            });
            t
        }),
        SKind::Mpk { fmt } => Box::new(move |mu, bytes, _| {
            let mut t = vec![];
            let f = if matches!(mu.mu, Mu::CrossFmt) { fmt.other() } else { fmt };
            let mut rest: &[u8] = bytes;
            let Some(pk) = stage("decode", &mut t, || es(MidnightPK::<RelA>::read(&mut rest, f.sf()))) else { return t };
            let mut re = vec![];
            let wr = es(pk.write(&mut re, f.sf())).map(|_| re);
            canon(&mut t, bytes, rest.len(), wr);
            t
        }),
        SKind::Params { fmt } => Box::new(move |mu, bytes, _| {
            let mut t = vec![];
            let f = if matches!(mu.mu, Mu::CrossFmt) { fmt.other() } else { fmt };
            let mut rest: &[u8] = bytes;
            let Some(p) = stage("decode", &mut t, || es(ParamsKZG::<Bls12>::read_custom(&mut rest, f.sf()))) else { return t };
            let mut re = vec![];
            let wr = es(p.write_custom(&mut re, f.sf())).map(|_| re);
            canon(&mut t, bytes, rest.len(), wr);
            t
        }),
    }
}

pub fn child_main(args: &[String]) -> ! {
    // args: <bundle> <seed> <tier> <subject> <batch> <from> <to>
    if args.len() != 7 {
        eprintln!("child: bad arguments");
        std::process::exit(3);
    }
    unsafe {
        let lim = libc::rlimit {
            rlim_cur: RLIMIT_AS_BYTES,
            rlim_max: RLIMIT_AS_BYTES,
        };
        if libc::setrlimit(libc::RLIMIT_AS, &lim) != 0 {
            eprintln!("child: setrlimit failed");
            std::process::exit(3);
        }
    }
    install_hooks();
    vcore::pin_global_rayon(1);
    let seed: u64 = args[1].parse().unwrap_or(0);
    let thorough = args[2] == "thorough";
    let batch_idx: usize = args[4].parse().unwrap_or(usize::MAX);
    let from: usize = args[5].parse().unwrap_or(0);
    let to: usize = args[6].parse().unwrap_or(usize::MAX);
    if args[3] == "selftest" {
        selftest(from);
    }
    let setup = vcore::catch(|| {
        let raw = std::fs::read(&args[0]).map_err(|e| format!("bundle: {e}"))?;
        let bundle = bundle_read(&raw).ok_or("bundle: malformed")?;
        let def = subjects(thorough).into_iter().find(|s| s.name == args[3]).ok_or("unknown subject")?;
        let valid = bundle.get(&def.name).ok_or("subject not in bundle")?.clone();
        let lay = layout(&def, &valid)?;
        let bs = batches(&def, &valid, &lay, thorough, seed);
        let batch = bs.into_iter().nth(batch_idx).ok_or("unknown batch")?;
        let exec = executor(&def, &bundle, seed);
        Ok::<_, String>((valid, batch, exec))
    });
    let (valid, batch, exec) = match setup {
        Ok(Ok(x)) => x,
        Ok(Err(e)) => {
            eprintln!("child: setup failed: {e}");
            std::process::exit(3);
        }
        Err(p) => {
            eprintln!("child: setup panicked: {p}");
            std::process::exit(3);
        }
    };
    let out = std::io::stdout();
    println!("ready {}", batch.muts.len());
    for (i, mu) in batch.muts.iter().enumerate().take(to).skip(from) {
        {
            let mut o = out.lock();
            let _ = writeln!(o, "start {i}");
            let _ = o.flush();
        }
        let bytes = apply(&valid, &mu.mu);
        let nontrivial = bytes != valid || matches!(mu.mu, Mu::CrossFmt);
        let toks = match vcore::catch(|| exec(mu, &bytes, nontrivial)) {
            Ok(t) => t,
            Err(p) => vec![format!("harness=panic:{}", p.replace(['\t', '\n', '\r'], " "))],
        };
        let mut o = out.lock();
        let _ = writeln!(o, "r\t{i}\t{}\t{}", nontrivial as u8, toks.join("\t"));
        let _ = o.flush();
    }
    println!("done");
    std::process::exit(0)
}

/// Six pseudo-mutations with known fates, so that the parent can check that it classifies a
/// normal return, a panic, a refused allocation, an abort and a hang correctly.
fn selftest(from: usize) -> ! {
    let out = std::io::stdout();
    println!("ready 6");
    for i in from..6 {
        {
            let mut o = out.lock();
            let _ = writeln!(o, "start {i}");
            let _ = o.flush();
        }
        let mut t = vec![];
        match i {
            0 => {
                stage("decode", &mut t, || Ok::<_, String>(()));
            }
            1 => {
                stage("decode", &mut t, || -> Result<(), String> { panic!("self-test panic") });
            }
            2 => {
                stage("decode", &mut t, || {
                    let mut v: Vec<u8> = Vec::with_capacity(std::hint::black_box(1usize << 40));
                    v.push(std::hint::black_box(1));
                    Ok::<_, String>(std::hint::black_box(&v).len())
                });
            }
            3 => std::process::abort(),
            4 => loop {
                std::thread::sleep(std::time::Duration::from_secs(3600));
            },
            _ => {
                stage("decode", &mut t, || Err::<(), _>("self-test error".to_string()));
            }
        }
        let mut o = out.lock();
        let _ = writeln!(o, "r\t{i}\t1\t{}", t.join("\t"));
        let _ = o.flush();
    }
    println!("done");
    std::process::exit(0)
}
