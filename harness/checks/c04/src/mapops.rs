//! Set / map (non-)membership through the Merkle-tree map gadget of the standard library.

use ff::Field;
use midnight_circuits::{
    hash::poseidon::PoseidonChip,
    instructions::{map::{MapCPU, MapInstructions}, AssignmentInstructions},
    map::cpu::MapMt,
    types::AssignedNative,
};
use midnight_proofs::{circuit::{Layouter, Value}, plonk::Error};
use midnight_zk_stdlib::{ZkStdLib, ZkStdLibArch};
use vgad::{val::hex, Exposer, Judgement, OpCase, F};

#[derive(Clone, Debug, PartialEq)]
pub enum MOp {
    Get(F),
    Insert(F, F),
}

#[derive(Clone, Debug)]
pub struct MapCase {
    /// entries of the initial map (default value 0)
    pub pre: Vec<(F, F)>,
    pub ops: Vec<MOp>,
}

type Cpu = MapMt<F, PoseidonChip<F>>;

fn initial(pre: &[(F, F)]) -> Cpu {
    let mut m = Cpu::new(&F::ZERO);
    for (k, v) in pre {
        m.insert(k, v);
    }
    m
}

impl OpCase for MapCase {
    fn key(&self) -> String {
        let show = |x: &F| hex(x).chars().take(12).collect::<String>();
        format!(
            "Map[pre={}]{}",
            self.pre.iter().map(|(k, v)| format!("{}:{}", show(k), show(v))).collect::<Vec<_>>().join(","),
            self.ops
                .iter()
                .map(|o| match o {
                    MOp::Get(k) => format!(".get({})", show(k)),
                    MOp::Insert(k, v) => format!(".insert({},{})", show(k), show(v)),
                })
                .collect::<String>()
        )
    }
    fn op(&self) -> String {
        "Map".into()
    }
    fn arch(&self) -> ZkStdLibArch {
        ZkStdLibArch {
            poseidon: true,
            nr_pow2range_cols: 4,
            ..ZkStdLibArch::default()
        }
    }
    fn expect_sat(&self) -> bool {
        true
    }
    fn judge(&self, ins: &[Vec<F>], outs: &[Vec<F>]) -> Judgement {
        if ins.iter().chain(outs.iter()).any(|v| v.len() != 1) {
            return Judgement::Wrong("unexpected exposure shape".into());
        }
        let mut cpu = initial(&self.pre);
        let mut model: std::collections::HashMap<[u8; 32], F> = Default::default();
        use ff::PrimeField;
        for (k, v) in &self.pre {
            model.insert(k.to_repr().as_ref().try_into().unwrap(), *v);
        }
        let mut i = 0;
        let mut o = 0;
        if ins.is_empty() || ins[0][0] != cpu.succinct_repr() {
            return Judgement::Wrong("the exposed initial root is not the root of the map the case was built from (no map is known for it)".into());
        }
        i += 1;
        for op in &self.ops {
            match op {
                MOp::Get(_) => {
                    let (Some(k), Some(v)) = (ins.get(i), outs.get(o)) else { return Judgement::Wrong("missing exposure".into()) };
                    i += 1;
                    o += 1;
                    let key: [u8; 32] = k[0].to_repr().as_ref().try_into().unwrap();
                    let expect = model.get(&key).copied().unwrap_or(F::ZERO);
                    if v[0] != expect {
                        return Judgement::Wrong(format!("get({}) exposed {} but the map holds {}", hex(&k[0]), hex(&v[0]), hex(&expect)));
                    }
                }
                MOp::Insert(..) => {
                    let (Some(k), Some(v), Some(r)) = (ins.get(i), ins.get(i + 1), outs.get(o)) else { return Judgement::Wrong("missing exposure".into()) };
                    i += 2;
                    o += 1;
                    model.insert(k[0].to_repr().as_ref().try_into().unwrap(), v[0]);
                    cpu.insert(&k[0], &v[0]);
                    if r[0] != cpu.succinct_repr() {
                        return Judgement::Wrong(format!("root after insert({}, {}) is {} but the reference tree has {}", hex(&k[0]), hex(&v[0]), hex(&r[0]), hex(&cpu.succinct_repr())));
                    }
                }
            }
        }
        if i != ins.len() || o != outs.len() {
            return Judgement::Wrong("extra exposures".into());
        }
        Judgement::Holds
    }
    fn synth<L: Layouter<F>>(&self, std: &ZkStdLib, l: &mut L, ex: &Exposer) -> Result<(), Error> {
        let mut mg = std.map_gadget().clone();
        mg.init(l, Value::known(initial(&self.pre)))?;
        let root0 = mg.succinct_repr();
        ex.input(std, l, &root0)?;
        for op in &self.ops {
            match op {
                MOp::Get(k) => {
                    let ak: AssignedNative<F> = std.assign(l, Value::known(*k))?;
                    ex.input(std, l, &ak)?;
                    let v = mg.get(l, &ak)?;
                    ex.output(std, l, &v)?;
                }
                MOp::Insert(k, v) => {
                    let ak: AssignedNative<F> = std.assign(l, Value::known(*k))?;
                    let av: AssignedNative<F> = std.assign(l, Value::known(*v))?;
                    ex.input(std, l, &ak)?;
                    ex.input(std, l, &av)?;
                    mg.insert(l, &ak, &av)?;
                    let r = mg.succinct_repr();
                    ex.output(std, l, &r)?;
                }
            }
        }
        Ok(())
    }
}

/// Operation sequences up to length 2 over a small key/value alphabet, on maps with 0..2 entries.
pub fn cases(seed: u64, thorough: bool) -> Vec<MapCase> {
    let mut rng = vcore::rng_for(seed, "c04-map");
    let k0 = F::ZERO;
    let k1 = F::ONE;
    let k2 = F::random(&mut rng);
    let v1 = F::from(7);
    let v2 = -F::ONE;
    let pres: Vec<Vec<(F, F)>> = vec![vec![], vec![(k1, v1)], vec![(k1, v1), (k2, v2)]];
    let singles = vec![MOp::Get(k0), MOp::Get(k1), MOp::Get(k2), MOp::Insert(k1, v2), MOp::Insert(k0, v1), MOp::Insert(k1, F::ZERO)];
    let mut out = vec![];
    for pre in &pres {
        for a in &singles {
            out.push(MapCase { pre: pre.clone(), ops: vec![a.clone()] });
            if thorough {
                for b in &singles {
                    out.push(MapCase { pre: pre.clone(), ops: vec![a.clone(), b.clone()] });
                }
            }
        }
    }
    if !thorough {
        // quick: membership, non-membership, insert-then-get of the same key, overwrite
        out = vec![
            MapCase { pre: vec![(k1, v1)], ops: vec![MOp::Get(k1)] },
            MapCase { pre: vec![(k1, v1)], ops: vec![MOp::Get(k2)] },
            MapCase { pre: vec![], ops: vec![MOp::Insert(k1, v2), MOp::Get(k1)] },
        ];
    }
    out
}
