//! C04 — native-field gadgets are complete and sound w.r.t. their mathematical meaning.

mod mapops;
mod ops;
mod scratch;

use std::{collections::HashMap, sync::Mutex};

use ff::Field;
use midnight_zk_stdlib::ZkStdLibArch;
use num_bigint::BigUint;
use num_traits::One;
use ops::{Case, Op, Ty, V};
use serde_json::json;
use vcore::{CaseOut, Ctx, Level, Tier};
use vgad::{val::*, OpCase, Outcome, F};

fn arch(cols: u8) -> ZkStdLibArch {
    ZkStdLibArch {
        nr_pow2range_cols: cols,
        ..ZkStdLibArch::default()
    }
}

/// The operations with their static parameters.
fn op_list(tier: Tier, seed: u64) -> Vec<Op> {
    use Op::*;
    let mut rng = vcore::rng_for(seed, "c04-consts");
    let c1 = F::random(&mut rng);
    let c2 = F::random(&mut rng);
    let p = modulus();
    let mut v = vec![
        Add, Sub, Mul(None), Mul(Some(c1)), Mul(Some(F::ZERO)), Neg, Square, Pow(0), Pow(1), Pow(2), Pow(5), Pow(64),
        AddConst(c1), AddConst(F::ZERO), AddConst(-F::ONE), MulConst(c2), MulConst(F::ZERO), MulConst(F::ONE), MulConst(-F::ONE),
        AddAndMul(c1, c2, F::ONE, c1, c2), AddAndMul(F::ZERO, F::ZERO, F::ZERO, F::ZERO, F::ONE),
        Inv, Inv0, Div, IsZero, AssertZero, AssertNonZero, IsEqual, IsNotEqual,
        IsEqualToFixed(c1), IsEqualToFixed(F::ZERO), IsNotEqualToFixed(c1), IsNotEqualToFixed(F::ZERO),
        AssertEqual, AssertNotEqual, AssertEqualToFixed(c1), AssertNotEqualToFixed(c1),
        BitIsEqual, BitAssertEqual, BitAssertNotEqual, Not,
        Sgn0, Select, SelectBit, CondSwap, CondAssertEqual, BitToNative, ByteToNative, NativeToBit, NativeToByte,
    ];
    for n in 1..=7usize {
        let cs: Vec<F> = (0..n).map(|i| if i == 0 { c1 } else if i % 3 == 0 { F::ZERO } else { F::from(i as u64 + 1) }).collect();
        v.push(LinComb(cs, if n % 2 == 0 { F::ZERO } else { c2 }));
    }
    for n in 1..=5usize {
        v.push(And(n));
        v.push(Or(n));
        v.push(Xor(n));
    }
    for k in [1usize, 8, 9, 64] {
        v.push(Band(k));
        v.push(Bor(k));
        v.push(Bxor(k));
        v.push(Bnot(k));
    }
    for n in [1usize, 8, 254, 255] {
        v.push(IsCanonical(n));
    }
    for (n, bound) in [
        (8usize, BigUint::from(0u32)),
        (8, BigUint::from(1u32)),
        (8, BigUint::from(200u32)),
        (8, BigUint::from(255u32)),
        (8, BigUint::from(256u32)),
        (255, &p - 1u32),
        (255, p.clone()),
        (64, BigUint::one() << 63),
    ] {
        v.push(LeBitsLowerThan(n, bound.clone()));
        v.push(LeBitsGeqThan(n, bound));
    }
    for nb in [None, Some(1usize), Some(8), Some(64), Some(254), Some(255)] {
        for canon in [false, true] {
            v.push(ToLeBits(nb, canon));
        }
    }
    v.push(ToBeBits(Some(8), true));
    v.push(ToBeBits(None, true));
    for nb in [None, Some(1usize), Some(2), Some(8), Some(31), Some(32)] {
        v.push(ToLeBytes(nb));
    }
    v.push(ToBeBytes(Some(4)));
    v.push(ToBeBytes(None));
    for (bits, nc) in [(1usize, Some(8usize)), (4, Some(2)), (8, Some(4)), (8, None), (16, Some(3)), (7, Some(5)), (64, Some(2)), (100, None)] {
        v.push(ToLeChunks(bits, nc));
    }
    for n in [1usize, 8, 64, 254, 255] {
        v.push(FromLeBits(n));
    }
    v.push(FromBeBits(9));
    for n in [1usize, 4, 31, 32] {
        v.push(FromLeBytes(n));
    }
    v.push(FromBeBytes(5));
    for bound in [BigUint::from(1u32), BigUint::from(2u32), BigUint::from(255u32), BigUint::from(256u32), BigUint::from(1000u32), BigUint::one() << 64, (BigUint::one() << 64) + 1u32, &p - 1u32, p.clone()] {
        v.push(AssertLowerThanFixed(bound.clone()));
        v.push(AssignLowerThanFixed(bound));
    }
    for k in [1u32, 8, 64, 126] {
        v.push(LowerThan(k));
    }
    for (d, bound) in [
        (BigUint::from(1u32), None),
        (BigUint::from(2u32), None),
        (BigUint::from(5u32), None),
        (BigUint::from(256u32), Some(BigUint::from(65535u32))),
        (BigUint::one() << 64, None),
        (BigUint::from(7u32), Some(BigUint::from(100u32))),
        (&p - 1u32, None),
    ] {
        v.push(DivRem(d.clone(), bound.clone()));
        v.push(Rem(d, bound));
    }
    // sequences on one cell: looser-then-tighter, tighter-then-looser, equal bounds
    for (b1, b2) in [(1000u32, 10u32), (10, 1000), (256, 16), (16, 256), (100, 100), (255, 256), (257, 256), (65536, 255)] {
        v.push(RangeSeq(BigUint::from(b1), BigUint::from(b2)));
    }
    for (nb, b) in [(2usize, 10u32), (1, 1000), (2, 65536), (2, 300), (1, 256), (1, 255)] {
        v.push(BytesThenRange(nb, BigUint::from(b)));
    }
    for (b, k) in [(1000u32, 8u32), (300, 8), (256, 8), (100, 8), (70000, 16)] {
        v.push(RangeThenLowerThan(BigUint::from(b), k));
    }
    if tier.is_thorough() {
        v.push(Pow(255));
        v.push(Pow(u64::MAX));
    }
    v
}

fn op_ks(op: &Op) -> Vec<u32> {
    use Op::*;
    match op {
        Band(k) | Bor(k) | Bxor(k) | Bnot(k) => vec![*k as u32],
        ToLeBits(Some(k), _) | ToBeBits(Some(k), _) => vec![*k as u32],
        ToLeBytes(Some(k)) | ToBeBytes(Some(k)) => vec![8 * *k as u32],
        ToLeChunks(b, Some(n)) => vec![(*b * *n) as u32],
        AssertLowerThanFixed(b) | AssignLowerThanFixed(b) => vec![b.bits() as u32, (b.bits() as u32).saturating_sub(1)],
        RangeSeq(a, b) => vec![a.bits() as u32, (a.bits() as u32).saturating_sub(1), b.bits() as u32, (b.bits() as u32).saturating_sub(1)],
        BytesThenRange(nb, b) => vec![8 * *nb as u32, b.bits() as u32, (b.bits() as u32).saturating_sub(1)],
        RangeThenLowerThan(b, k) => vec![*k, b.bits() as u32, (b.bits() as u32).saturating_sub(1)],
        LowerThan(k) => vec![*k],
        NativeToBit => vec![1],
        NativeToByte => vec![8],
        DivRem(d, b) | Rem(d, b) => {
            let mut v = vec![d.bits() as u32];
            if let Some(b) = b {
                v.push(b.bits() as u32)
            }
            v
        }
        _ => vec![64],
    }
}

/// Input tuples for an operation: the cartesian product of per-position alphabets (thorough) or a
/// diagonal through them that uses every class at least once per position (quick).
fn inputs_for(op: &Op, tier: Tier, seed: u64) -> Vec<Vec<V>> {
    use Op::*;
    let tys = op.in_types();
    let p = modulus();
    // bit-vector operations on long vectors: bit patterns of boundary values
    let long_bits = |n: usize| -> Vec<Vec<V>> {
        let mut vals: Vec<BigUint> = vec![BigUint::from(0u32), BigUint::from(1u32), (BigUint::one() << n) - 1u32];
        if n >= 254 {
            vals.extend([&p - 1u32, p.clone(), &p + 1u32, &p - 2u32]);
        }
        if let LeBitsLowerThan(_, b) | LeBitsGeqThan(_, b) = op {
            vals.extend([b.clone(), b + 1u32, if b > &BigUint::from(0u32) { b - 1u32 } else { BigUint::from(0u32) }]);
        }
        let mut rng = vcore::rng_for(seed, &format!("c04-bits-{n}"));
        vals.push(vcore::big::random_below(&mut rng, &(BigUint::one() << n)));
        vals.sort();
        vals.dedup();
        vals.into_iter()
            .filter(|v| v.bits() as usize <= n)
            .map(|v| (0..n).map(|i| V::B(v.bit(i as u64))).collect())
            .collect()
    };
    match op {
        IsCanonical(n) | LeBitsLowerThan(n, _) | LeBitsGeqThan(n, _) | FromLeBits(n) | FromBeBits(n) if *n > 5 => return long_bits(*n),
        FromLeBytes(n) | FromBeBytes(n) => {
            let mut out = vec![vec![V::Y(0); *n], vec![V::Y(255); *n]];
            out.push((0..*n).map(|i| V::Y((i * 37 + 1) as u8)).collect());
            if *n == 32 {
                // p-1, p, and 2^256-1 style patterns
                for v in [&p - 1u32, p.clone()] {
                    let mut b = v.to_bytes_le();
                    b.resize(32, 0);
                    out.push(b.into_iter().map(V::Y).collect());
                }
            }
            return out;
        }
        _ => {}
    }
    let mut alph_n: Vec<V> = native_alphabet(&op_ks(op), tier.pick(1, 2), seed, "c04-native").into_iter().map(|(_, v)| V::N(v)).collect();
    {
        // values at, just below and between the fixed bounds of the operation
        let mut extra: Vec<BigUint> = vec![];
        match op {
            RangeSeq(a, b) => {
                for t in [a.clone(), b.clone()] {
                    extra.extend([&t - 1u32, t.clone(), &t + 1u32, &t / 2u32]);
                }
                extra.push((a + b) / 2u32);
            }
            BytesThenRange(nb, b) => {
                let p2 = BigUint::one() << (8 * *nb);
                extra.extend([b - 1u32, b.clone(), b + 1u32, &p2 - 1u32, p2.clone(), (b + &p2) / 2u32]);
            }
            RangeThenLowerThan(b, k) => {
                let p2 = BigUint::one() << *k;
                extra.extend([b - 1u32, b.clone(), &p2 - 1u32, p2.clone(), &p2 + 20u32, (b + &p2) / 2u32]);
            }
            AssertLowerThanFixed(b) | AssignLowerThanFixed(b) => extra.extend([b - 1u32, b.clone()]),
            _ => {}
        }
        for e in extra {
            let v = V::N(from_big(&e));
            if !alph_n.contains(&v) {
                alph_n.push(v);
            }
        }
    }
    let alph_b = vec![V::B(false), V::B(true)];
    let alph_y: Vec<V> = [0u8, 1, 127, 128, 255, 0x5a].into_iter().map(V::Y).collect();
    let alph = |t: &Ty| match t {
        Ty::N => alph_n.clone(),
        Ty::B => alph_b.clone(),
        Ty::Y => alph_y.clone(),
    };
    let per_pos: Vec<Vec<V>> = tys.iter().map(alph).collect();
    let n_native = tys.iter().filter(|t| **t == Ty::N).count();
    let full = tier.is_thorough() && n_native <= 2 || tys.iter().all(|t| *t == Ty::B);
    let mut out: Vec<Vec<V>> = vec![];
    if full {
        let mut idx = vec![0usize; per_pos.len()];
        loop {
            out.push(idx.iter().enumerate().map(|(i, j)| per_pos[i][*j].clone()).collect());
            let mut i = 0;
            loop {
                if i == idx.len() {
                    return out;
                }
                idx[i] += 1;
                if idx[i] < per_pos[i].len() {
                    break;
                }
                idx[i] = 0;
                i += 1;
            }
        }
    }
    // diagonals with offsets 0, 1, 3: every class in every position, equal and unequal operands
    let m = per_pos.iter().map(|a| a.len()).max().unwrap_or(1);
    for shift in [0usize, 1] {
        for d in 0..m {
            let t: Vec<V> = per_pos.iter().enumerate().map(|(i, a)| a[(d + i * shift) % a.len()].clone()).collect();
            if !out.contains(&t) {
                out.push(t);
            }
        }
    }
    out
}

fn main() {
    let mut cx = Ctx::from_args("C04", Level::FaultEnumeration);
    // thorough: the pair sweep, the map gadget and the registry sweep need about 50 minutes
    cx.thorough_budget(3300);
    cx.worker_rayon_threads = Some(1);
    cx.set_rule(
        "operation registry (arithmetic, linear combinations 1..7 terms, inversion/division, zero/equality \
         tests and assertions, boolean logic 1..5 bits, bitwise ops, canonicity, bit/byte/chunk (de)composition, \
         sign, range checks, comparison, select/swap, conversions, div_rem/rem) x boundary alphabets per operand \
         (diagonals in quick, full product for arity<=2 in thorough) x pow2range configuration; per case: honest run \
         (must be satisfiable with the reference result, or unsatisfiable if out of domain), every single-position \
         edit of the exposed vector, every exposed value changed together with its copy cycle, and every advice \
         assignment index x fault set in propagate mode (the library's witness code continues from the lie). \
         A case is one (operation, parameters, inputs, configuration); evaluations count MockProver verdicts.",
    );
    cx.assume("MockProver (with the trash-argument evaluation added by the C02 fix) is the satisfiability oracle; its agreement with the real verifier is C02's subject");
    cx.assume("prover freedom is bounded to <= 1 deviation from the honest witness generator (propagate mode) plus consistent lies about exposed values");
    let seed = cx.seed;
    let tier = cx.tier;
    let ops = op_list(tier, seed);
    // configurations: quick (4 cols, 8 bits); thorough adds (1,8), (2,11), (3,16) on a rotation
    let configs: Vec<(u8, u8)> = if tier.is_thorough() { vec![(4, 8), (1, 8), (2, 11), (3, 16)] } else { vec![(4, 8)] };
    let mut cases: Vec<(String, Case)> = vec![];
    for (oi, op) in ops.iter().enumerate() {
        for (ii, ins) in inputs_for(op, tier, seed).into_iter().enumerate() {
            let (cols, mbl) = configs[(oi + ii) % configs.len()];
            let c = Case {
                op: op.clone(),
                ins,
                arch: arch(cols),
                max_bit_len: mbl,
            };
            let k = c.key();
            if !cases.iter().any(|(kk, _)| *kk == k) {
                cases.push((k, c));
            }
        }
    }
    // ---- k per (operation, configuration)
    let mut kreq: Vec<(String, Case)> = vec![];
    for (_, c) in &cases {
        let kk = format!("{:?}/{}/{}", c.op, c.arch.nr_pow2range_cols, c.max_bit_len);
        if !kreq.iter().any(|(k, _)| *k == kk) {
            kreq.push((kk, c.clone()));
        }
    }
    let ks: Mutex<HashMap<String, u32>> = Mutex::new(HashMap::new());
    cx.run_cases("min-k", &kreq, |c| {
        let mut o = CaseOut::batch();
        match vgad::min_k(c) {
            Ok(k) => {
                ks.lock().unwrap().insert(format!("{:?}/{}/{}", c.op, c.arch.nr_pow2range_cols, c.max_bit_len), k);
                o.count("k-found", 1);
            }
            Err(p) => {
                // a panic while sizing the circuit for an operation with these static parameters
                o.count("k-panic", 1);
                o.viol(vcore::Viol::new(format!("{}:sizing-panic", c.op()), format!("cost model / min_k panicked: {p}"), json!({"op": format!("{:?}", c.op)})));
            }
        }
        o
    });
    let ks = ks.into_inner().unwrap();
    let kof = |c: &Case| ks.get(&format!("{:?}/{}/{}", c.op, c.arch.nr_pow2range_cols, c.max_bit_len)).copied();
    let cases: Vec<(String, Case)> = cases.into_iter().filter(|(_, c)| kof(c).is_some()).collect();

    // ---- phase 1: honest runs, instance binding, exposed-value lies
    let nassign: Mutex<HashMap<String, u64>> = Mutex::new(HashMap::new());
    cx.run_cases("honest", &cases, |c| {
        let mut out = CaseOut::batch();
        let k = kof(c).unwrap();
        let rep = vgad::explore_honest(c, k, &mut out);
        if rep.outcome == Outcome::Sat && c.expect_sat() {
            nassign.lock().unwrap().insert(c.key(), rep.n_assign);
        }
        out.counter("advice_assignments", rep.n_assign);
        out.counter("untamperable_assignments", rep.untamperable);
        out.sample = Some(json!({"case": c.key(), "k": k, "honest": rep.outcome.name(), "assignments": rep.n_assign, "exposed": rep.exposed}));
        out
    });
    let nassign = nassign.into_inner().unwrap();

    // ---- phase 2: 1-deviation faults in propagate mode
    let faults = vgad::default_faults(seed);
    let faults: Vec<_> = if tier.is_thorough() { faults } else { faults.into_iter().filter(|(n, _)| ["+1", "zero", "1-v", "random"].contains(n)).collect() };
    let mut fcases: Vec<(String, (Case, Vec<u64>, bool))> = vec![];
    let is_distinct = |c: &Case| {
        let vals: Vec<String> = c.ins.iter().map(|v| v.show()).collect();
        let mut d = vals.clone();
        d.sort();
        d.dedup();
        d.len() == vals.len() && !vals.iter().any(|v| v == "0x0" || v == "0")
    };
    let distinct_ops: std::collections::HashSet<String> =
        cases.iter().filter(|(k, c)| nassign.contains_key(k) && is_distinct(c)).map(|(_, c)| format!("{:?}", c.op)).collect();
    // quick: one input tuple per operation (the first satisfiable one) gets the full index sweep
    let mut seen_ops: std::collections::HashSet<String> = Default::default();
    for (key, c) in &cases {
        let Some(n) = nassign.get(key) else { continue };
        // quick: per operation the first satisfiable tuple and the first one with pairwise
        // distinct non-zero operands get the full index sweep
        let distinct = {
            let vals: Vec<String> = c.ins.iter().map(|v| v.show()).collect();
            let mut d = vals.clone();
            d.sort();
            d.dedup();
            d.len() == vals.len() && !vals.iter().any(|v| v == "0x0" || v == "0")
        };
        if !tier.is_thorough() {
            // one tuple per operation: the distinct-operand one if the operation has any
            let has_distinct = distinct_ops.contains(&format!("{:?}", c.op));
            if distinct != has_distinct || !seen_ops.insert(format!("{:?}", c.op)) {
                continue;
            }
        }
        let idxs: Vec<u64> = (0..*n).collect();
        for (ci, chunk) in idxs.chunks(24).enumerate() {
            fcases.push((format!("{key}#{ci}"), (c.clone(), chunk.to_vec(), distinct)));
        }
    }
    // quick: fault values {+1, zero}; thorough: every tuple gets the full fault set
    let faults_a: Vec<_> = faults.iter().filter(|(n, _)| tier.is_thorough() || ["+1", "zero"].contains(n)).cloned().collect();
    let faults_b = faults_a.clone();
    // ---- phase 3: 2 deviations for small operations (N <= 40): all pairs x {+1, zero, 1-v}^2
    let f2: Vec<_> = vgad::default_faults(seed).into_iter().filter(|(n, _)| ["+1", "zero", "1-v"].contains(n)).collect();
    let mut pcases: Vec<(String, (Case, Vec<(u64, u64)>))> = vec![];
    let mut seen_ops: std::collections::HashSet<String> = Default::default();
    let max_n = tier.pick(11u64, 40u64);
    for (key, c) in &cases {
        let Some(n) = nassign.get(key) else { continue };
        if *n > max_n || *n < 2 {
            continue;
        }
        // per operation: the first satisfiable input tuple AND the first one whose operands are
        // pairwise distinct and non-zero (a forged "equal"/"zero" verdict needs unequal operands);
        // thorough: one more of each kind
        let distinct = {
            let vals: Vec<String> = c.ins.iter().map(|v| v.show()).collect();
            let mut d = vals.clone();
            d.sort();
            d.dedup();
            d.len() == vals.len() && !vals.iter().any(|v| v == "0x0" || v == "0")
        };
        let kind = if distinct { "distinct" } else { "any" };
        let cnt = seen_ops.iter().filter(|s| s.starts_with(&format!("{:?}|{kind}|", c.op))).count();
        if cnt >= tier.pick(1, 2) {
            continue;
        }
        seen_ops.insert(format!("{:?}|{kind}|{key}", c.op));
        let mut pairs = vec![];
        for i in 0..*n {
            for j in i + 1..*n {
                pairs.push((i, j));
            }
        }
        for (ci, chunk) in pairs.chunks(12).enumerate() {
            pcases.push((format!("{key}#{ci}"), (c.clone(), chunk.to_vec())));
        }
    }
    if tier.is_thorough() {
        cx.next_group_share(900.0);
    }
    cx.run_cases("pairs", &pcases, |(c, pairs)| {
        let mut out = CaseOut::batch();
        vgad::explore_pairs(c, kof(c).unwrap(), pairs, &f2, &mut out);
        out
    });
    // ---- set / map (non-)membership: the Merkle-map gadget (128 Poseidon hashes per access)
    {
        let mcases: Vec<(String, mapops::MapCase)> = mapops::cases(seed, tier.is_thorough()).into_iter().map(|c| (c.key(), c)).collect();
        let mk = mcases.first().map(|(_, c)| vgad::min_k(c));
        match mk {
            Some(Ok(_)) => {
                let info: Mutex<Vec<(String, u32, u64)>> = Mutex::new(vec![]);
                cx.run_cases("map-honest", &mcases, |c| {
                    let mut out = CaseOut::batch();
                    let k = vgad::min_k(c).unwrap_or(15);
                    let rep = vgad::explore_honest(c, k, &mut out);
                    if rep.outcome == Outcome::Sat {
                        info.lock().unwrap().push((c.key(), k, rep.n_assign));
                    }
                    out.sample = Some(json!({"case": c.key(), "k": k, "honest": rep.outcome.name(), "assignments": rep.n_assign}));
                    out
                });
                // 1-deviation faults on a deterministic stride (the circuit has ~10^5 assignments)
                let info = info.into_inner().unwrap();
                let stride = tier.pick(997u64, 61u64);
                cx.note(format!("map gadget: 1-deviation faults on every {stride}-th assignment index (offset 3), faults {{+1, zero, random}}"));
                cx.cap(format!("map gadget fault sweep uses a stride of {stride} over the assignment indices"));
                let mut mf: Vec<(String, (mapops::MapCase, u32, Vec<u64>))> = vec![];
                let mut mkf: Vec<(String, (mapops::MapCase, u32, Vec<u64>))> = vec![];
                for (key, c) in &mcases {
                    let Some((_, k, n)) = info.iter().find(|(kk, _, _)| kk == key) else { continue };
                    let idxs: Vec<u64> = (3..*n).step_by(stride as usize).collect();
                    // plus the first assignment of every cell kind (region name, column, offset):
                    // the circuit is ~10^4..10^5 assignments of a few hundred kinds
                    // (thorough tier only: the quick tier has no room for it)
                    let is_last = mcases.last().map(|(kk, _)| kk == key).unwrap_or(false);
                    let _ = is_last;
                    if tier.is_thorough() {
                        if let Some(kinds) = vcore::in_pool(1, || vgad::trace_kinds(c, *k)) {
                            // (quick: every other kind)
                            let reps: Vec<u64> = vgad::kind_representatives(&kinds, 1)
                                .into_iter()
                                .filter(|i| !idxs.contains(i))
                                .enumerate()
                                .filter(|(j, _)| tier.is_thorough() || j % 2 == 0)
                                .map(|(_, i)| i)
                                .collect();
                            cx.note(format!("map gadget {key}: {} cell kinds, {} indices beyond the stride", kinds.len(), reps.len()));
                            for (ci, chunk) in reps.chunks(8).enumerate() {
                                mkf.push((format!("{key}#k{ci}"), (c.clone(), *k, chunk.to_vec())));
                            }
                        }
                    }
                    for (ci, chunk) in idxs.chunks(4).enumerate() {
                        mf.push((format!("{key}#{ci}"), (c.clone(), *k, chunk.to_vec())));
                    }
                }
                let f3: Vec<_> = vgad::default_faults(seed).into_iter().filter(|(n, _)| ["+1", "zero", "random"].contains(n)).collect();
                // wall shares (thorough): the map sweeps must not starve the registry sweep
                if tier.is_thorough() {
                    cx.next_group_share(240.0);
                }
                cx.run_cases("map-faults", &mf, |(c, k, idxs)| {
                    let mut out = CaseOut::batch();
                    vgad::explore_faults(c, *k, idxs, &f3, &mut out);
                    out
                });
                let f1: Vec<_> = f3.iter().filter(|(n, _)| tier.is_thorough() || *n == "+1").cloned().collect();
                if tier.is_thorough() {
                    cx.next_group_share(180.0);
                }
                cx.run_cases("map-kind-faults", &mkf, |(c, k, idxs)| {
                    let mut out = CaseOut::batch();
                    vgad::explore_faults(c, *k, idxs, &f1, &mut out);
                    out
                });
            }
            Some(Err(p)) => cx.machinery_error(format!("cannot size the map circuit: {p}")),
            None => {}
        }
    }

    // ---- operations that ZkStdLib does not re-export, through the FromScratch circuit, in three
    // families: bounded comparisons of NativeGadget ("scratch"), decompose_fixed_limb_size of the
    // core decomposition chip on both sides of the table width ("dec"), and the vector gadget
    // with alignments 1..7 ("vec")
    let faults_all = vgad::default_faults(seed);
    for fam in ["scratch", "dec", "vec"] {
        use scratch::{SCase, SOp, VKind};
        use vgad::{Scratch, ScratchCase};
        let in_fam = |op: &SOp| match op {
            SOp::DecFixed(..) => fam == "dec",
            SOp::Vec(..) => fam == "vec",
            _ => fam == "scratch",
        };
        let mut scases: Vec<(String, Scratch<SCase>)> = vec![];
        // quick: five of the eight vector shapes (alignments 3, 3, 5, 4, 1)
        let quick_shapes = [(6usize, 3usize), (9, 3), (10, 5), (8, 4), (3, 1)];
        let in_tier = |op: &SOp| match op {
            SOp::Vec(m, a, _) => tier.is_thorough() || quick_shapes.contains(&(*m, *a)),
            _ => true,
        };
        for op in scratch::sop_list().into_iter().filter(|o| in_fam(o) && in_tier(o)) {
            for ins in scratch::inputs_for(&op, seed, tier.is_thorough()) {
                let c = SCase { op: op.clone(), ins };
                let k = c.key();
                if !scases.iter().any(|(kk, _)| *kk == k) {
                    scases.push((k, Scratch(c)));
                }
            }
        }
        // k per operation: the smallest k at which an in-domain case of that operation synthesises,
        // then the maximum over all operations (one fixed configuration, so one k fits all).
        // Vector operations: the layout depends on the shape and the operation, not on the payload;
        // one search per (shape, kind) on the case with the largest parameter, plus one row of slack.
        let kkey = |op: &SOp| match op {
            SOp::Vec(m, a, kind) => format!("{m}/{a}/{}", format!("{kind:?}").split('(').next().unwrap()),
            o => format!("{o:?}"),
        };
        let mut sk = 0u32;
        let mut seen_k_ops: std::collections::HashSet<String> = Default::default();
        for (_, c) in scases.iter().rev() {
            if c.0.expect_sat() && seen_k_ops.insert(kkey(&c.0.op)) {
                match vgad::scratch_min_k(&c.0, 9, 13) {
                    Some(k) => sk = sk.max(k),
                    None => {
                        // no k at which the honest circuit synthesises: a machinery problem only if
                        // the reason is the number of rows; any other failure of an in-domain case
                        // is the honest group's to report (completeness)
                        let run = vgad::run_once(c, 13, vec![], false);
                        let why = format!("{:?}", run.outcome);
                        if why.contains("NotEnoughRows") || why.contains("not enough rows") || run.outcome == Outcome::Sat {
                            cx.machinery_error(format!("from-scratch circuit of {:?} does not fit k <= 13 ({why})", c.0.op));
                        } else {
                            sk = sk.max(10);
                            cx.note(format!("sizing: {:?} does not synthesise at any k <= 13 for a reason other than its size; left to the honest run", c.0.op));
                        }
                    }
                }
            }
        }
        if fam == "vec" {
            sk += 1;
        }
        cx.extra(&format!("{fam}_k"), json!(sk));
        // (assignments, honest run satisfiable) of every case whose honest run is Sat or Unsat
        let snassign: Mutex<HashMap<String, (u64, bool)>> = Mutex::new(HashMap::new());
        cx.run_cases(&format!("{fam}-honest"), &scases, |c| {
            let mut out = CaseOut::batch();
            let rep = vgad::explore_honest(c, sk, &mut out);
            if rep.outcome == Outcome::Sat && c.0.expect_sat() {
                snassign.lock().unwrap().insert(c.0.key(), (rep.n_assign, true));
            } else if matches!(rep.outcome, Outcome::Unsat(_)) && !c.0.expect_sat() && fam != "scratch" {
                // out-of-domain case, rejected as it must be: its 1-deviation neighbourhood is
                // explored as well (a prover who departs from the honest witness must not get an
                // out-of-domain input accepted)
                snassign.lock().unwrap().insert(c.0.key(), (rep.n_assign, false));
            }
            out.sample = Some(json!({"case": c.0.key(), "honest": rep.outcome.name(), "assignments": rep.n_assign}));
            out
        });
        let snassign = snassign.into_inner().unwrap();
        let mut sf: Vec<(String, (Scratch<SCase>, Vec<u64>))> = vec![];
        let mut sp: Vec<(String, (Scratch<SCase>, Vec<(u64, u64)>))> = vec![];
        let mut per_op: HashMap<String, usize> = HashMap::new();
        let mut swept_ops: std::collections::BTreeSet<String> = Default::default();
        for (key, c) in &scases {
            let Some((n, honest_sat)) = snassign.get(key) else { continue };
            // the quick tier sweeps a fixed sub-family of the vector operations (two shapes, one
            // with a non-power-of-two alignment; trims below, at and above the alignment)
            if fam == "vec" && !tier.is_thorough() {
                let SOp::Vec(m, a, kind) = &c.0.op else { unreachable!() };
                let shape_ok = (*m, *a) == (6, 3) || (*m, *a) == (8, 4);
                let kind_ok = match kind {
                    VKind::Limits | VKind::Pad | VKind::Resize => true,
                    VKind::Trim(t) => [1, *a - 1, *a + 1].contains(t),
                    VKind::Trim2(t1, t2) => (*t1, *t2) == (1, *a),
                    VKind::Eq(sp) | VKind::EqFixed(sp) => *sp == 2 || *sp == *a + 1,
                    VKind::AssertEq(sp) | VKind::AssertNeqFixed(sp) => *sp == 2,
                };
                if !shape_ok || !kind_ok {
                    continue;
                }
            }
            let cnt = per_op.entry(format!("{:?}/{}", c.0.op, honest_sat)).or_default();
            // quick: two input tuples per operation (and per domain side); thorough: all
            // (vector family, thorough: four per operation and side)
            let lim = match (fam, tier.is_thorough()) {
                ("vec", false) => 1,
                ("vec", true) => 4,
                (_, false) => 2,
                (_, true) => usize::MAX,
            };
            if *cnt >= lim {
                continue;
            }
            *cnt += 1;
            swept_ops.insert(c.0.op());
            let idxs: Vec<u64> = (0..*n).collect();
            for (ci, chunk) in idxs.chunks(24).enumerate() {
                sf.push((format!("{key}#{ci}"), (c.clone(), chunk.to_vec())));
            }
            if *n <= tier.pick(14u64, 48u64) && *cnt == 1 {
                let mut pairs = vec![];
                for i in 0..*n {
                    for j in i + 1..*n {
                        pairs.push((i, j));
                    }
                }
                for (ci, chunk) in pairs.chunks(12).enumerate() {
                    sp.push((format!("{key}#{ci}"), (c.clone(), chunk.to_vec())));
                }
            }
        }
        cx.note(format!("{fam}: {} cases; 1-deviation sweep over {} (case, chunk) units of operations {:?}", scases.len(), sf.len(), swept_ops));
        if fam != "scratch" {
            cx.next_group_share(tier.pick(3.0, 600.0));
        }
        cx.run_cases(&format!("{fam}-faults"), &sf, |(c, idxs)| {
            let mut out = CaseOut::batch();
            // the decomposition family always uses the whole fault alphabet (its circuits are a few
            // dozen cells; +2 and +2^8 are the overflow units of its one-bit and eight-bit top limbs)
            vgad::explore_faults(c, sk, idxs, if tier.is_thorough() { &faults[..] } else if fam == "dec" { &faults_all[..] } else { &faults_a[..] }, &mut out);
            out
        });
        if fam == "dec" && !tier.is_thorough() {
            // (2-deviation pairs of the decomposition family: thorough tier)
            sp.clear();
        }
        cx.run_cases(&format!("{fam}-pairs"), &sp, |(c, pairs)| {
            let mut out = CaseOut::batch();
            vgad::explore_pairs(c, sk, pairs, &f2, &mut out);
            out
        });
    }
    // ---- region-local alternative-witness search (vgad::laws) on one input tuple per operation:
    // every set of <= 3 lookup rows of a region (range checks, byte tables) answered with a
    // neighbouring row of the actual table, gates repaired through free affine cells, copy
    // constraints pinning, survivors replayed on the real circuit and judged by the reference
    {
        let mut lcases: Vec<(String, Case)> = vec![];
        let mut seen_ops: std::collections::HashSet<String> = Default::default();
        for (key, c) in &cases {
            if !nassign.contains_key(key) {
                continue;
            }
            let has_distinct = distinct_ops.contains(&format!("{:?}", c.op));
            if is_distinct(c) != has_distinct || !seen_ops.insert(format!("{:?}", c.op)) {
                continue;
            }
            lcases.push((format!("{key}#laws"), c.clone()));
        }
        if !tier.is_thorough() {
            // the quick tier has no room for it (see the group timings in the evidence)
            cx.note(format!("laws: {} operations would be explored; thorough tier only", lcases.len()));
            lcases.clear();
        }
        let cfg = vgad::laws::Cfg { max_combinations: 200_000, max_real_runs: 4, ..Default::default() };
        let max_regions = 48usize;
        cx.next_group_share(360.0);
        cx.run_cases("laws", &lcases, |c| {
            let mut out = CaseOut::batch();
            vgad::laws::explore_all(c, kof(c).unwrap(), &cfg, max_regions, &mut out);
            out
        });
    }

    // ---- the 1-deviation sweep over the registry is the longest group and runs last; its cases
    // are ordered chunk-major (chunk 0 of every operation, then chunk 1, ...), so that a wall cap
    // cuts every operation at the same depth instead of dropping whole operations
    fcases.sort_by_key(|(k, _)| k.rsplit('#').next().and_then(|c| c.parse::<u64>().ok()).unwrap_or(0));
    cx.run_cases("faults", &fcases, |(c, idxs, distinct)| {
        let mut out = CaseOut::batch();
        vgad::explore_faults(c, kof(c).unwrap(), idxs, if *distinct { &faults_b } else { &faults_a }, &mut out);
        out
    });
    let sat = cx.class_count("honest:honest:sat");
    let unsat = cx.class_count("honest:honest:unsat") + cx.class_count("honest:honest:synth-err") + cx.class_count("honest:honest:crash-unsat");
    cx.require(sat > 100 && unsat > 10, "need both satisfiable and out-of-domain cases");
    cx.require(cx.class_count("faults:fault:unsat") > 100, "faults must be rejected somewhere");
    cx.finish()
}
