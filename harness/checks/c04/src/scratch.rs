//! Operations of `NativeGadget` that `ZkStdLib` does not re-export (bounded comparisons),
//! reached through the `FromScratch` construction (feature `testing` of midnight-circuits).

use midnight_circuits::{
    field::{decomposition::chip::P2RDecompositionChip, AssignedBounded, NativeChip, NativeGadget},
    instructions::*,
    types::{AssignedBit, AssignedNative},
};
use midnight_proofs::{circuit::{Layouter, Value}, plonk::Error};
use num_bigint::BigUint;
use num_traits::One;
use vgad::{val::*, Exposer, Judgement, ScratchCase, F};

pub type NG = NativeGadget<F, P2RDecompositionChip<F>, NativeChip<F>>;

#[derive(Clone, Debug, PartialEq)]
pub enum SOp {
    /// bounded_of_element(n) then element_of_bounded
    Bounded(usize),
    LtFixed(usize, F),
    GtFixed(usize, F),
    LeqFixed(usize, F),
    GeqFixed(usize, F),
    /// (n_x, n_y)
    Lt(usize, usize),
    Gt(usize, usize),
    Leq(usize, usize),
    Geq(usize, usize),
    /// assert_lower_than_fixed(x, B) first (records a bound for the cell), then
    /// bounded_of_element(n) and lower_than_fixed(y): exercises the bound cache
    CachedLtFixed(BigUint, usize, F),
}

impl SOp {
    pub fn name(&self) -> String {
        format!("NG::{}", format!("{self:?}").split('(').next().unwrap())
    }
    pub fn arity(&self) -> usize {
        match self {
            SOp::Lt(..) | SOp::Gt(..) | SOp::Leq(..) | SOp::Geq(..) => 2,
            _ => 1,
        }
    }
}

#[derive(Clone, Debug)]
pub struct SCase {
    pub op: SOp,
    pub ins: Vec<F>,
}

/// None = outside the domain (must be unsatisfiable)
pub fn reference(op: &SOp, ins: &[F]) -> Option<Vec<F>> {
    let x = to_big(&ins[0]);
    let fits = |v: &BigUint, n: usize| v.bits() as usize <= n;
    Some(match op {
        SOp::Bounded(n) => {
            if !fits(&x, *n) {
                return None;
            }
            vec![ins[0]]
        }
        SOp::LtFixed(n, b) | SOp::GtFixed(n, b) | SOp::LeqFixed(n, b) | SOp::GeqFixed(n, b) => {
            if !fits(&x, *n) {
                return None;
            }
            let b = to_big(b);
            let r = match op {
                SOp::LtFixed(..) => x < b,
                SOp::GtFixed(..) => x > b,
                SOp::LeqFixed(..) => x <= b,
                _ => x >= b,
            };
            vec![fb(r)]
        }
        SOp::Lt(n, m) | SOp::Gt(n, m) | SOp::Leq(n, m) | SOp::Geq(n, m) => {
            let y = to_big(&ins[1]);
            if !fits(&x, *n) || !fits(&y, *m) {
                return None;
            }
            let r = match op {
                SOp::Lt(..) => x < y,
                SOp::Gt(..) => x > y,
                SOp::Leq(..) => x <= y,
                _ => x >= y,
            };
            vec![fb(r)]
        }
        SOp::CachedLtFixed(bound, n, y) => {
            if x >= *bound || !fits(&x, *n) {
                return None;
            }
            vec![fb(x < to_big(y))]
        }
    })
}

impl ScratchCase for SCase {
    type Chip = NG;
    fn key(&self) -> String {
        format!("{:?}[{}]", self.op, self.ins.iter().map(hex).collect::<Vec<_>>().join(","))
    }
    fn op(&self) -> String {
        self.op.name()
    }
    fn expect_sat(&self) -> bool {
        reference(&self.op, &self.ins).is_some()
    }
    fn judge(&self, ins: &[Vec<F>], outs: &[Vec<F>]) -> Judgement {
        if ins.len() != self.op.arity() || ins.iter().any(|v| v.len() != 1) {
            return Judgement::Wrong("unexpected input exposure shape".into());
        }
        let dec: Vec<F> = ins.iter().map(|v| v[0]).collect();
        let Some(exp) = reference(&self.op, &dec) else {
            return Judgement::Wrong(format!("inputs {:?} are outside the operation's domain", dec.iter().map(hex).collect::<Vec<_>>()));
        };
        if outs.len() != exp.len() || outs.iter().any(|v| v.len() != 1) {
            return Judgement::Wrong("unexpected output exposure shape".into());
        }
        for (i, (o, e)) in outs.iter().zip(&exp).enumerate() {
            if o[0] != *e {
                return Judgement::Wrong(format!("output {i} is {} but the reference says {}", hex(&o[0]), hex(e)));
            }
        }
        Judgement::Holds
    }
    fn synth<L: Layouter<F>>(&self, ng: &NG, l: &mut L, ex: &Exposer) -> Result<(), Error> {
        let xs: Vec<AssignedNative<F>> = self.ins.iter().map(|v| ng.assign(l, Value::known(*v))).collect::<Result<_, _>>()?;
        for x in &xs {
            ex.input(ng, l, x)?;
        }
        let bit_out = |l: &mut L, b: AssignedBit<F>| -> Result<(), Error> { ex.output(ng, l, &b) };
        match &self.op {
            SOp::Bounded(n) => {
                let b: AssignedBounded<F> = ng.bounded_of_element(l, *n, &xs[0])?;
                let y: AssignedNative<F> = ng.element_of_bounded(l, &b)?;
                ex.output(ng, l, &y)?;
            }
            SOp::LtFixed(n, c) | SOp::GtFixed(n, c) | SOp::LeqFixed(n, c) | SOp::GeqFixed(n, c) => {
                let b = ng.bounded_of_element(l, *n, &xs[0])?;
                let r = match &self.op {
                    SOp::LtFixed(..) => ng.lower_than_fixed(l, &b, *c)?,
                    SOp::GtFixed(..) => ng.greater_than_fixed(l, &b, *c)?,
                    SOp::LeqFixed(..) => ng.leq_fixed(l, &b, *c)?,
                    _ => ng.geq_fixed(l, &b, *c)?,
                };
                bit_out(l, r)?;
            }
            SOp::Lt(n, m) | SOp::Gt(n, m) | SOp::Leq(n, m) | SOp::Geq(n, m) => {
                let bx = ng.bounded_of_element(l, *n, &xs[0])?;
                let by = ng.bounded_of_element(l, *m, &xs[1])?;
                let r = match &self.op {
                    SOp::Lt(..) => ng.lower_than(l, &bx, &by)?,
                    SOp::Gt(..) => ng.greater_than(l, &bx, &by)?,
                    SOp::Leq(..) => ng.leq(l, &bx, &by)?,
                    _ => ng.geq(l, &bx, &by)?,
                };
                bit_out(l, r)?;
            }
            SOp::CachedLtFixed(bound, n, y) => {
                ng.assert_lower_than_fixed(l, &xs[0], bound)?;
                let b = ng.bounded_of_element(l, *n, &xs[0])?;
                let r = ng.lower_than_fixed(l, &b, *y)?;
                bit_out(l, r)?;
            }
        }
        Ok(())
    }
}

pub fn sop_list() -> Vec<SOp> {
    let mut v = vec![];
    for n in [1usize, 8, 9, 64, 126, 253] {
        v.push(SOp::Bounded(n));
    }
    for (n, c) in [(8usize, 0u64), (8, 1), (8, 100), (8, 255), (8, 256), (8, 1000), (16, 300), (64, 1 << 40), (1, 1), (1, 0)] {
        let c = F::from(c);
        v.push(SOp::LtFixed(n, c));
        v.push(SOp::GtFixed(n, c));
        v.push(SOp::LeqFixed(n, c));
        v.push(SOp::GeqFixed(n, c));
    }
    for (n, m) in [(8usize, 8usize), (8, 16), (16, 8), (1, 1), (64, 64), (126, 126), (253, 253), (8, 253)] {
        v.push(SOp::Lt(n, m));
        v.push(SOp::Gt(n, m));
        v.push(SOp::Leq(n, m));
        v.push(SOp::Geq(n, m));
    }
    for (bound, n, y) in [(100u64, 8usize, 100u64), (100, 8, 99), (100, 8, 101), (100, 8, 50), (256, 8, 256), (7, 8, 200), (300, 16, 299), (300, 8, 100), (1000, 8, 200), (65536, 8, 77), (257, 8, 1)] {
        v.push(SOp::CachedLtFixed(BigUint::from(bound), n, F::from(y)));
    }
    v
}

pub fn inputs_for(op: &SOp, seed: u64, thorough: bool) -> Vec<Vec<F>> {
    let bits: Vec<u32> = match op {
        SOp::Bounded(n) | SOp::LtFixed(n, _) | SOp::GtFixed(n, _) | SOp::LeqFixed(n, _) | SOp::GeqFixed(n, _) => vec![*n as u32],
        SOp::Lt(n, m) | SOp::Gt(n, m) | SOp::Leq(n, m) | SOp::Geq(n, m) => vec![*n as u32, *m as u32],
        SOp::CachedLtFixed(_, n, _) => vec![*n as u32],
    };
    let mut alph: Vec<F> = native_alphabet(&bits, 1, seed, "c04-scratch").into_iter().map(|(_, v)| v).collect();
    // values around the fixed bound
    let around = |c: &F| -> Vec<F> { vec![*c - F::from(1), *c, *c + F::from(1)] };
    match op {
        SOp::LtFixed(_, c) | SOp::GtFixed(_, c) | SOp::LeqFixed(_, c) | SOp::GeqFixed(_, c) => alph.extend(around(c)),
        SOp::CachedLtFixed(b, _, y) => {
            alph.extend(around(y));
            alph.extend(around(&from_big(b)));
        }
        _ => {}
    }
    for k in &bits {
        let p = from_big(&(BigUint::one() << *k));
        alph.extend([p - F::from(2), p - F::from(1)]);
    }
    alph.dedup();
    let mut out: Vec<Vec<F>> = vec![];
    if op.arity() == 1 {
        for a in &alph {
            if !out.contains(&vec![*a]) {
                out.push(vec![*a]);
            }
        }
    } else if thorough {
        for a in &alph {
            for b in &alph {
                out.push(vec![*a, *b]);
            }
        }
        out.dedup();
    } else {
        let m = alph.len();
        for shift in [0usize, 1, 2] {
            for i in 0..m {
                let t = vec![alph[i], alph[(i + shift) % m]];
                if !out.contains(&t) {
                    out.push(t);
                }
            }
        }
    }
    out
}
