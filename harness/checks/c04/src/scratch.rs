//! Operations of `NativeGadget` that `ZkStdLib` does not re-export (bounded comparisons),
//! reached through the `FromScratch` construction (feature `testing` of midnight-circuits).

use midnight_circuits::{
    field::{
        decomposition::{chip::{P2RDecompositionChip, P2RDecompositionConfig}, instructions::CoreDecompositionInstructions},
        AssignedBounded, NativeChip, NativeGadget,
    },
    instructions::*,
    testing_utils::FromScratch,
    ComposableChip,
    types::{AssignedBit, AssignedNative},
    vec::{vector_gadget::VectorGadget, AssignedVector},
};
use midnight_proofs::{circuit::{Layouter, Value}, plonk::{Column, ConstraintSystem, Error, Instance}};
use num_bigint::BigUint;
use num_traits::One;
use vgad::{val::*, Exposer, Judgement, ScratchCase, F};

pub type NG = NativeGadget<F, P2RDecompositionChip<F>, NativeChip<F>>;

/// The from-scratch native gadget together with the two components built on the same
/// configuration that have a public interface of their own: the core decomposition chip
/// (`CoreDecompositionInstructions`) and the vector gadget (`VectorInstructions`).
#[derive(Clone, Debug)]
pub struct NgX {
    pub ng: NG,
    pub dec: P2RDecompositionChip<F>,
    pub vg: VectorGadget<F>,
}

impl FromScratch<F> for NgX {
    type Config = P2RDecompositionConfig;
    fn new_from_scratch(config: &Self::Config) -> Self {
        // as NativeGadget::new_from_scratch does it, keeping a handle on the decomposition chip
        // (its clone shares the set of queried table tags, which decides what the table holds)
        let dec = P2RDecompositionChip::new(config, &8);
        let ng = NG::new(dec.clone(), NativeChip::new_from_scratch(config.native_config()));
        let vg = VectorGadget::new(&ng);
        NgX { ng, dec, vg }
    }
    fn configure_from_scratch(meta: &mut ConstraintSystem<F>, instance_columns: &[Column<Instance>; 2]) -> Self::Config {
        NG::configure_from_scratch(meta, instance_columns)
    }
    fn load_from_scratch(&self, layouter: &mut impl Layouter<F>) -> Result<(), Error> {
        self.ng.native_chip.load_from_scratch(layouter)?;
        self.dec.load(layouter)
    }
}

impl PublicInputInstructions<F, AssignedNative<F>> for NgX {
    fn as_public_input(&self, l: &mut impl Layouter<F>, x: &AssignedNative<F>) -> Result<Vec<AssignedNative<F>>, Error> {
        self.ng.as_public_input(l, x)
    }
    fn constrain_as_public_input(&self, l: &mut impl Layouter<F>, x: &AssignedNative<F>) -> Result<(), Error> {
        self.ng.constrain_as_public_input(l, x)
    }
    fn assign_as_public_input(&self, l: &mut impl Layouter<F>, v: Value<F>) -> Result<AssignedNative<F>, Error> {
        self.ng.assign_as_public_input(l, v)
    }
}

/// (M, A, L) instantiations of the vector gadget: buffer size, alignment, resize target.
/// Alignments 1..7 including the non-powers of two; buffers of two and three chunks.
pub const VSHAPES: &[(usize, usize)] = &[(6, 3), (9, 3), (10, 5), (12, 6), (8, 4), (6, 2), (3, 1), (14, 7)];

macro_rules! vdispatch {
    ($m:expr, $a:expr, $f:ident, $($args:expr),*) => {
        match ($m, $a) {
            (6, 3) => $f::<6, 3, 9, _>($($args),*),
            (9, 3) => $f::<9, 3, 12, _>($($args),*),
            (10, 5) => $f::<10, 5, 15, _>($($args),*),
            (12, 6) => $f::<12, 6, 18, _>($($args),*),
            (8, 4) => $f::<8, 4, 12, _>($($args),*),
            (6, 2) => $f::<6, 2, 8, _>($($args),*),
            (3, 1) => $f::<3, 1, 4, _>($($args),*),
            (14, 7) => $f::<14, 7, 21, _>($($args),*),
            _ => unreachable!("vector shape not instantiated"),
        }
    };
}

/// data range of a payload of `len` elements in a buffer of `m` cells aligned to `a`
/// (written from the documentation of `AssignedVector`, not from `get_lims`)
pub fn vlims(m: usize, a: usize, len: usize) -> (usize, usize) {
    let back_pad = (a - len % a) % a;
    (m - len - back_pad, m - back_pad)
}

#[derive(Clone, Debug, PartialEq)]
pub enum VKind {
    /// get_limits
    Limits,
    /// padding_flag
    Pad,
    /// trim_beginning(n), then is_equal_to_fixed(expected), get_limits
    Trim(usize),
    /// trim_beginning(n1) then trim_beginning(n2)
    Trim2(usize, usize),
    /// resize::<L>, then is_equal_to_fixed(payload), get_limits
    Resize,
    /// is_equal / is_not_equal of the payloads ins[..split] and ins[split..]
    Eq(usize),
    /// is_equal_to_fixed / is_not_equal_to_fixed of ins[..split] against the constant ins[split..]
    EqFixed(usize),
    /// assert_equal of the two payloads (satisfiable iff equal)
    AssertEq(usize),
    /// assert_not_equal_to_fixed
    AssertNeqFixed(usize),
}

fn vsynth<const M: usize, const A: usize, const LL: usize, L: Layouter<F>>(kind: &VKind, ins: &[F], c: &NgX, l: &mut L, ex: &Exposer) -> Result<(), Error> {
    type V<const M: usize, const A: usize> = AssignedVector<F, AssignedNative<F>, M, A>;
    let (ng, vg) = (&c.ng, &c.vg);
    // a payload is assigned through the gadget and pinned to its value with assert_equal_to_fixed
    // (one native assert_equal_to_fixed per data cell and one for the length): the buffer cells
    // are private to the crate, so this is how the inputs are bound to the case
    let pinned = |l: &mut L, p: &[F]| -> Result<V<M, A>, Error> {
        let v: V<M, A> = vg.assign(l, Value::known(p.to_vec()))?;
        vg.assert_equal_to_fixed(l, &v, p.to_vec())?;
        Ok(v)
    };
    let lim_out = |l: &mut L, s: &AssignedNative<F>, e: &AssignedNative<F>| -> Result<(), Error> {
        ex.output(ng, l, s)?;
        ex.output(ng, l, e)
    };
    match kind {
        VKind::Limits => {
            let v = pinned(l, ins)?;
            let (s, e) = vg.get_limits(l, &v)?;
            lim_out(l, &s, &e)?;
        }
        VKind::Pad => {
            let v = pinned(l, ins)?;
            let flags: [AssignedBit<F>; M] = vg.padding_flag(l, &v)?;
            for b in flags.iter() {
                ex.output(ng, l, b)?;
            }
        }
        VKind::Trim(n) => {
            let v = pinned(l, ins)?;
            let t: V<M, A> = vg.trim_beginning(l, &v, *n)?;
            let exp: Vec<F> = ins.iter().skip(*n).copied().collect();
            let b = vg.is_equal_to_fixed(l, &t, exp)?;
            ex.output(ng, l, &b)?;
            let (s, e) = vg.get_limits(l, &t)?;
            lim_out(l, &s, &e)?;
        }
        VKind::Trim2(n1, n2) => {
            let v = pinned(l, ins)?;
            let t: V<M, A> = vg.trim_beginning(l, &v, *n1)?;
            let t: V<M, A> = vg.trim_beginning(l, &t, *n2)?;
            let exp: Vec<F> = ins.iter().skip(*n1 + *n2).copied().collect();
            let b = vg.is_equal_to_fixed(l, &t, exp)?;
            ex.output(ng, l, &b)?;
            let (s, e) = vg.get_limits(l, &t)?;
            lim_out(l, &s, &e)?;
        }
        VKind::Resize => {
            let v = pinned(l, ins)?;
            let r: V<LL, A> = VectorInstructions::<F, AssignedNative<F>, M, A>::resize::<LL>(vg, l, v)?;
            let b = vg.is_equal_to_fixed(l, &r, ins.to_vec())?;
            ex.output(ng, l, &b)?;
            let (s, e) = vg.get_limits(l, &r)?;
            lim_out(l, &s, &e)?;
        }
        VKind::Eq(split) => {
            let x = pinned(l, &ins[..*split])?;
            let y = pinned(l, &ins[*split..])?;
            let b = vg.is_equal(l, &x, &y)?;
            ex.output(ng, l, &b)?;
            let nb = vg.is_not_equal(l, &x, &y)?;
            ex.output(ng, l, &nb)?;
        }
        VKind::EqFixed(split) => {
            let x = pinned(l, &ins[..*split])?;
            let b = vg.is_equal_to_fixed(l, &x, ins[*split..].to_vec())?;
            ex.output(ng, l, &b)?;
            let nb = vg.is_not_equal_to_fixed(l, &x, ins[*split..].to_vec())?;
            ex.output(ng, l, &nb)?;
        }
        VKind::AssertEq(split) => {
            let x = pinned(l, &ins[..*split])?;
            let y = pinned(l, &ins[*split..])?;
            vg.assert_equal(l, &x, &y)?;
        }
        VKind::AssertNeqFixed(split) => {
            let x = pinned(l, &ins[..*split])?;
            vg.assert_not_equal_to_fixed(l, &x, ins[*split..].to_vec())?;
        }
    }
    Ok(())
}

/// None = outside the domain (must be unsatisfiable); the outputs otherwise
pub fn vreference(m: usize, a: usize, kind: &VKind, ins: &[F]) -> Option<Vec<F>> {
    let fu = |v: usize| F::from(v as u64);
    let lims = |mm: usize, len: usize| -> Vec<F> {
        let (s, e) = vlims(mm, a, len);
        vec![fu(s), fu(e)]
    };
    let two = |split: &usize| -> Option<(Vec<F>, Vec<F>)> {
        if *split > m || ins.len() - *split > m {
            return None;
        }
        Some((ins[..*split].to_vec(), ins[*split..].to_vec()))
    };
    match kind {
        VKind::Eq(_) | VKind::EqFixed(_) | VKind::AssertEq(_) | VKind::AssertNeqFixed(_) => {}
        _ => {
            if ins.len() > m {
                return None;
            }
        }
    }
    Some(match kind {
        VKind::Limits => lims(m, ins.len()),
        VKind::Pad => {
            let (s, e) = vlims(m, a, ins.len());
            (0..m).map(|i| fb(i < s || i >= e)).collect()
        }
        VKind::Trim(n) => {
            if *n > ins.len() {
                return None;
            }
            let mut o = vec![fb(true)];
            o.extend(lims(m, ins.len() - n));
            o
        }
        VKind::Trim2(n1, n2) => {
            if n1 + n2 > ins.len() {
                return None;
            }
            let mut o = vec![fb(true)];
            o.extend(lims(m, ins.len() - n1 - n2));
            o
        }
        VKind::Resize => {
            let mut o = vec![fb(true)];
            o.extend(lims(m + a, ins.len()));
            o
        }
        VKind::Eq(s) | VKind::EqFixed(s) => {
            let (x, y) = two(s)?;
            vec![fb(x == y), fb(x != y)]
        }
        VKind::AssertEq(s) => {
            let (x, y) = two(s)?;
            if x != y {
                return None;
            }
            vec![]
        }
        VKind::AssertNeqFixed(s) => {
            let (x, y) = two(s)?;
            if x == y {
                return None;
            }
            vec![]
        }
    })
}

/// limbs of x for decompose_fixed_limb_size(bit_length, limb_size); None if x >= 2^bit_length
pub fn dec_reference(bit_length: usize, limb_size: usize, x: &BigUint) -> Option<Vec<F>> {
    if x.bits() as usize > bit_length {
        return None;
    }
    let mut sizes = vec![limb_size; bit_length / limb_size];
    if bit_length % limb_size != 0 {
        sizes.push(bit_length % limb_size);
    }
    let mut out = vec![];
    let mut shift = 0usize;
    for s in sizes {
        let mask = (BigUint::one() << s) - BigUint::one();
        out.push(from_big(&((x >> shift) & mask)));
        shift += s;
    }
    Some(out)
}

#[derive(Clone, Debug, PartialEq)]
pub enum SOp {
    /// bounded_of_element(n) then element_of_bounded
    Bounded(usize),
    LtFixed(usize, F),
    GtFixed(usize, F),
    LeqFixed(usize, F),
    GeqFixed(usize, F),
    /// (n_x, n_y)
    Lt(usize, usize),
    Gt(usize, usize),
    Leq(usize, usize),
    Geq(usize, usize),
    /// assert_lower_than_fixed(x, B) first (records a bound for the cell), then
    /// bounded_of_element(n) and lower_than_fixed(y): exercises the bound cache
    CachedLtFixed(BigUint, usize, F),
    /// CoreDecompositionInstructions::decompose_fixed_limb_size(x, bit_length, limb_size) on the
    /// decomposition chip itself: limb sizes on both sides of the table width (8), bit lengths
    /// that are and are not multiples of the limb size
    DecFixed(usize, usize),
    /// vector gadget operation on AssignedVector<_, AssignedNative, M, A>: (M, A, kind); the
    /// inputs are the payload(s)
    Vec(usize, usize, VKind),
}

impl SOp {
    pub fn name(&self) -> String {
        match self {
            SOp::Vec(_, _, k) => format!("Vec::{}", format!("{k:?}").split('(').next().unwrap()),
            SOp::DecFixed(..) => "Dec::DecFixed".to_string(),
            _ => format!("NG::{}", format!("{self:?}").split('(').next().unwrap()),
        }
    }
    pub fn is_vec(&self) -> bool {
        matches!(self, SOp::Vec(..))
    }
    pub fn arity(&self) -> usize {
        match self {
            SOp::Lt(..) | SOp::Gt(..) | SOp::Leq(..) | SOp::Geq(..) => 2,
            SOp::Vec(..) => 0,
            _ => 1,
        }
    }
}

#[derive(Clone, Debug)]
pub struct SCase {
    pub op: SOp,
    pub ins: Vec<F>,
}

/// None = outside the domain (must be unsatisfiable)
pub fn reference(op: &SOp, ins: &[F]) -> Option<Vec<F>> {
    if let SOp::Vec(m, a, kind) = op {
        return vreference(*m, *a, kind, ins);
    }
    let x = to_big(&ins[0]);
    let fits = |v: &BigUint, n: usize| v.bits() as usize <= n;
    Some(match op {
        SOp::Bounded(n) => {
            if !fits(&x, *n) {
                return None;
            }
            vec![ins[0]]
        }
        SOp::LtFixed(n, b) | SOp::GtFixed(n, b) | SOp::LeqFixed(n, b) | SOp::GeqFixed(n, b) => {
            if !fits(&x, *n) {
                return None;
            }
            let b = to_big(b);
            let r = match op {
                SOp::LtFixed(..) => x < b,
                SOp::GtFixed(..) => x > b,
                SOp::LeqFixed(..) => x <= b,
                _ => x >= b,
            };
            vec![fb(r)]
        }
        SOp::Lt(n, m) | SOp::Gt(n, m) | SOp::Leq(n, m) | SOp::Geq(n, m) => {
            let y = to_big(&ins[1]);
            if !fits(&x, *n) || !fits(&y, *m) {
                return None;
            }
            let r = match op {
                SOp::Lt(..) => x < y,
                SOp::Gt(..) => x > y,
                SOp::Leq(..) => x <= y,
                _ => x >= y,
            };
            vec![fb(r)]
        }
        SOp::CachedLtFixed(bound, n, y) => {
            if x >= *bound || !fits(&x, *n) {
                return None;
            }
            vec![fb(x < to_big(y))]
        }
        SOp::DecFixed(bl, ls) => return dec_reference(*bl, *ls, &x),
        SOp::Vec(..) => unreachable!(),
    })
}

impl ScratchCase for SCase {
    type Chip = NgX;
    fn key(&self) -> String {
        format!("{:?}[{}]", self.op, self.ins.iter().map(hex).collect::<Vec<_>>().join(","))
    }
    fn op(&self) -> String {
        self.op.name()
    }
    fn expect_sat(&self) -> bool {
        reference(&self.op, &self.ins).is_some()
    }
    fn judge(&self, ins: &[Vec<F>], outs: &[Vec<F>]) -> Judgement {
        if self.op.is_vec() {
            // the payloads are pinned inside the circuit (see vsynth), nothing is exposed as input
            if !ins.is_empty() {
                return Judgement::Wrong("unexpected input exposure".into());
            }
            let Some(exp) = reference(&self.op, &self.ins) else {
                return Judgement::Wrong("the case is outside the operation's domain".into());
            };
            if outs.len() != exp.len() || outs.iter().any(|v| v.len() != 1) {
                return Judgement::Wrong(format!("unexpected output exposure shape ({} values, expected {})", outs.len(), exp.len()));
            }
            for (i, (o, e)) in outs.iter().zip(&exp).enumerate() {
                if o[0] != *e {
                    return Judgement::Wrong(format!("output {i} is {} but the reference says {}", hex(&o[0]), hex(e)));
                }
            }
            return Judgement::Holds;
        }
        if ins.len() != self.op.arity() || ins.iter().any(|v| v.len() != 1) {
            return Judgement::Wrong("unexpected input exposure shape".into());
        }
        let dec: Vec<F> = ins.iter().map(|v| v[0]).collect();
        let Some(exp) = reference(&self.op, &dec) else {
            return Judgement::Wrong(format!("inputs {:?} are outside the operation's domain", dec.iter().map(hex).collect::<Vec<_>>()));
        };
        if outs.len() != exp.len() || outs.iter().any(|v| v.len() != 1) {
            return Judgement::Wrong("unexpected output exposure shape".into());
        }
        for (i, (o, e)) in outs.iter().zip(&exp).enumerate() {
            if o[0] != *e {
                return Judgement::Wrong(format!("output {i} is {} but the reference says {}", hex(&o[0]), hex(e)));
            }
        }
        Judgement::Holds
    }
    fn synth<L: Layouter<F>>(&self, chip: &NgX, l: &mut L, ex: &Exposer) -> Result<(), Error> {
        if let SOp::Vec(m, a, kind) = &self.op {
            return vdispatch!(*m, *a, vsynth, kind, &self.ins, chip, l, ex);
        }
        let ng = &chip.ng;
        let xs: Vec<AssignedNative<F>> = self.ins.iter().map(|v| ng.assign(l, Value::known(*v))).collect::<Result<_, _>>()?;
        for x in &xs {
            ex.input(ng, l, x)?;
        }
        let bit_out = |l: &mut L, b: AssignedBit<F>| -> Result<(), Error> { ex.output(ng, l, &b) };
        match &self.op {
            SOp::Bounded(n) => {
                let b: AssignedBounded<F> = ng.bounded_of_element(l, *n, &xs[0])?;
                let y: AssignedNative<F> = ng.element_of_bounded(l, &b)?;
                ex.output(ng, l, &y)?;
            }
            SOp::LtFixed(n, c) | SOp::GtFixed(n, c) | SOp::LeqFixed(n, c) | SOp::GeqFixed(n, c) => {
                let b = ng.bounded_of_element(l, *n, &xs[0])?;
                let r = match &self.op {
                    SOp::LtFixed(..) => ng.lower_than_fixed(l, &b, *c)?,
                    SOp::GtFixed(..) => ng.greater_than_fixed(l, &b, *c)?,
                    SOp::LeqFixed(..) => ng.leq_fixed(l, &b, *c)?,
                    _ => ng.geq_fixed(l, &b, *c)?,
                };
                bit_out(l, r)?;
            }
            SOp::Lt(n, m) | SOp::Gt(n, m) | SOp::Leq(n, m) | SOp::Geq(n, m) => {
                let bx = ng.bounded_of_element(l, *n, &xs[0])?;
                let by = ng.bounded_of_element(l, *m, &xs[1])?;
                let r = match &self.op {
                    SOp::Lt(..) => ng.lower_than(l, &bx, &by)?,
                    SOp::Gt(..) => ng.greater_than(l, &bx, &by)?,
                    SOp::Leq(..) => ng.leq(l, &bx, &by)?,
                    _ => ng.geq(l, &bx, &by)?,
                };
                bit_out(l, r)?;
            }
            SOp::CachedLtFixed(bound, n, y) => {
                ng.assert_lower_than_fixed(l, &xs[0], bound)?;
                let b = ng.bounded_of_element(l, *n, &xs[0])?;
                let r = ng.lower_than_fixed(l, &b, *y)?;
                bit_out(l, r)?;
            }
            SOp::DecFixed(bl, ls) => {
                let limbs = chip.dec.decompose_fixed_limb_size(l, &xs[0], *bl, *ls)?;
                for y in &limbs {
                    ex.output(ng, l, y)?;
                }
            }
            SOp::Vec(..) => unreachable!(),
        }
        Ok(())
    }
}

pub fn sop_list() -> Vec<SOp> {
    let mut v = vec![];
    for n in [1usize, 8, 9, 64, 126, 253] {
        v.push(SOp::Bounded(n));
    }
    for (n, c) in [(8usize, 0u64), (8, 1), (8, 100), (8, 255), (8, 256), (8, 1000), (16, 300), (64, 1 << 40), (1, 1), (1, 0)] {
        let c = F::from(c);
        v.push(SOp::LtFixed(n, c));
        v.push(SOp::GtFixed(n, c));
        v.push(SOp::LeqFixed(n, c));
        v.push(SOp::GeqFixed(n, c));
    }
    for (n, m) in [(8usize, 8usize), (8, 16), (16, 8), (1, 1), (64, 64), (126, 126), (253, 253), (8, 253)] {
        v.push(SOp::Lt(n, m));
        v.push(SOp::Gt(n, m));
        v.push(SOp::Leq(n, m));
        v.push(SOp::Geq(n, m));
    }
    for (bound, n, y) in [(100u64, 8usize, 100u64), (100, 8, 99), (100, 8, 101), (100, 8, 50), (256, 8, 256), (7, 8, 200), (300, 16, 299), (300, 8, 100), (1000, 8, 200), (65536, 8, 77), (257, 8, 1)] {
        v.push(SOp::CachedLtFixed(BigUint::from(bound), n, F::from(y)));
    }
    // (bit_length, limb_size): limb <= 8 is answered by the table, limb > 8 by the wide-limb
    // branch; remainders 0, 1, 5, 8 (1 and 8 make the overflow unit of the top limb one of the
    // fault values +2 and +2^8)
    for (bl, ls) in [(16usize, 8usize), (12, 8), (13, 4), (9, 3), (7, 1), (20, 10), (25, 10), (18, 10), (10, 9), (27, 9), (24, 12), (13, 12), (40, 16), (33, 16)] {
        v.push(SOp::DecFixed(bl, ls));
    }
    for (m, a) in VSHAPES {
        v.push(SOp::Vec(*m, *a, VKind::Limits));
        v.push(SOp::Vec(*m, *a, VKind::Pad));
        v.push(SOp::Vec(*m, *a, VKind::Resize));
        for n in 0..=*m {
            v.push(SOp::Vec(*m, *a, VKind::Trim(n)));
        }
        for n1 in 1..=(*a + 1).min(*m) {
            for n2 in 1..=(*a + 1).min(*m - n1) {
                v.push(SOp::Vec(*m, *a, VKind::Trim2(n1, n2)));
            }
        }
        for split in 0..=*m {
            v.push(SOp::Vec(*m, *a, VKind::Eq(split)));
            v.push(SOp::Vec(*m, *a, VKind::EqFixed(split)));
            v.push(SOp::Vec(*m, *a, VKind::AssertEq(split)));
            v.push(SOp::Vec(*m, *a, VKind::AssertNeqFixed(split)));
        }
    }
    v
}

pub fn inputs_for(op: &SOp, seed: u64, thorough: bool) -> Vec<Vec<F>> {
    if let SOp::Vec(m, _a, kind) = op {
        let el = |i: usize| F::from(1000 + 7 * i as u64);
        let payload = |len: usize| -> Vec<F> { (0..len).map(el).collect() };
        return match kind {
            VKind::Trim(n) => {
                // every length from n-1 (outside the domain) to M
                (n.saturating_sub(1)..=*m).map(payload).collect()
            }
            VKind::Trim2(n1, n2) => ((n1 + n2).saturating_sub(1)..=*m).map(payload).collect(),
            VKind::Eq(split) | VKind::EqFixed(split) | VKind::AssertEq(split) | VKind::AssertNeqFixed(split) => {
                // second payload: equal; first / last / middle element different; one shorter
                // (prefix); one longer; empty; same length, all different
                let x = payload(*split);
                let mut ys: Vec<Vec<F>> = vec![x.clone()];
                for pos in [0usize, split / 2, split.saturating_sub(1)] {
                    if pos < *split {
                        let mut y = x.clone();
                        y[pos] += F::from(1);
                        ys.push(y);
                    }
                }
                if *split > 0 {
                    ys.push(x[..*split - 1].to_vec());
                    ys.push(x[1..].to_vec());
                    ys.push(vec![]);
                    ys.push(x.iter().map(|v| *v + F::from(3)).collect());
                }
                if *split < *m {
                    let mut y = x.clone();
                    y.push(el(*split));
                    ys.push(y);
                    let mut y = x.clone();
                    y.push(F::from(0));
                    ys.push(y);
                }
                let mut out: Vec<Vec<F>> = vec![];
                for y in ys {
                    let t = [x.clone(), y].concat();
                    if !out.contains(&t) {
                        out.push(t);
                    }
                }
                out
            }
            _ => (0..=*m).map(payload).collect(),
        };
    }
    if let SOp::DecFixed(bl, _) = op {
        let one = BigUint::one();
        let top = &one << *bl;
        let mut v: Vec<BigUint> = vec![&top - &one, BigUint::from(0u32), one.clone(), (&top - &one) / 3u32, top.clone(), &top << 1, &top + &one, (&top << 1) - &one, modulus() - &one];
        let _ = (seed, thorough);
        v.dedup();
        return v.iter().map(|b| vec![from_big(b)]).collect();
    }
    let bits: Vec<u32> = match op {
        SOp::Bounded(n) | SOp::LtFixed(n, _) | SOp::GtFixed(n, _) | SOp::LeqFixed(n, _) | SOp::GeqFixed(n, _) => vec![*n as u32],
        SOp::Lt(n, m) | SOp::Gt(n, m) | SOp::Leq(n, m) | SOp::Geq(n, m) => vec![*n as u32, *m as u32],
        SOp::CachedLtFixed(_, n, _) => vec![*n as u32],
        SOp::DecFixed(..) | SOp::Vec(..) => unreachable!(),
    };
    let mut alph: Vec<F> = native_alphabet(&bits, 1, seed, "c04-scratch").into_iter().map(|(_, v)| v).collect();
    // values around the fixed bound
    let around = |c: &F| -> Vec<F> { vec![*c - F::from(1), *c, *c + F::from(1)] };
    match op {
        SOp::LtFixed(_, c) | SOp::GtFixed(_, c) | SOp::LeqFixed(_, c) | SOp::GeqFixed(_, c) => alph.extend(around(c)),
        SOp::CachedLtFixed(b, _, y) => {
            alph.extend(around(y));
            alph.extend(around(&from_big(b)));
        }
        _ => {}
    }
    for k in &bits {
        let p = from_big(&(BigUint::one() << *k));
        alph.extend([p - F::from(2), p - F::from(1)]);
    }
    alph.dedup();
    let mut out: Vec<Vec<F>> = vec![];
    if op.arity() == 1 {
        for a in &alph {
            if !out.contains(&vec![*a]) {
                out.push(vec![*a]);
            }
        }
    } else if thorough {
        for a in &alph {
            for b in &alph {
                out.push(vec![*a, *b]);
            }
        }
        out.dedup();
    } else {
        let m = alph.len();
        for shift in [0usize, 1, 2] {
            for i in 0..m {
                let t = vec![alph[i], alph[(i + shift) % m]];
                if !out.contains(&t) {
                    out.push(t);
                }
            }
        }
    }
    out
}
