//! `MSMKZG` accumulator algebra and KZG commitments in monomial versus Lagrange basis.

use std::fmt::Debug;

use ff::{Field, PrimeField, WithSmallOrderMulGroup};
use group::{Curve, Group};
use midnight_curves::{
    bn256,
    pairing::{Engine, MultiMillerLoop},
    Bls12, CurveAffine, CurveExt,
};
use midnight_proofs::{
    poly::{
        commitment::{Params, PolynomialCommitmentScheme},
        kzg::{msm::MSMKZG, params::ParamsKZG, KZGCommitmentScheme},
        Coeff, CommitmentLabel, EvaluationDomain, LagrangeCoeff, Polynomial,
    },
    utils::{arithmetic::{g_to_lagrange, MSM}, helpers::ProcessedSerdeObject},
};
use rand_chacha::ChaCha20Rng;
use rand_core::SeedableRng;
use serde_json::json;
use vcore::{rng_for, CaseOut, Ctx, Viol};

use crate::util::{fhex, ghex, horner, len_class, omega_for, powers_of, seeded_vec, GPool, MIXED_POOL_WORKERS, POOLS_ALL};

// ------------------------------------------------------------------------------------------------
// MSMKZG: append_term / scale / add_msm / eval / check / from_many / from_base
// ------------------------------------------------------------------------------------------------

fn msmkzg_algebra_for<E>(cx: &mut Ctx, name: &'static str)
where
    E: Engine + Debug,
    E::G1Affine: CurveAffine<ScalarExt = E::Fr, CurveExt = E::G1>,
{
    let seed = cx.seed;
    let lens: Vec<usize> = vec![0, 1, 2, 3, 5, 17, 33, 70];
    let pfx = if name == "bls12-381" { String::new() } else { format!("{name}:") };
    {
        let mut cases: Vec<(String, (usize, usize))> = vec![];
        for n in &lens {
            for t in POOLS_ALL {
                cases.push((format!("{name}:len={n}:pool={t}"), (t, *n)));
            }
        }
        let pfx = &pfx;
        cx.run_cases_with(&format!("msmkzg-algebra-{name}"), &cases, MIXED_POOL_WORKERS, |(t, n)| {
            let (t, n) = (*t, *n);
            let mut out = CaseOut::batch();
            let gp = GPool::new(t);
            let seen = gp.observed_threads();
            out.counter(&format!("pool-size-observed:{seen}"), 1);
            if seen != t {
                out.counter("pool-size-mismatch", 1);
            }
            let mut rng = rng_for(seed, &format!("c12-msmkzg-{name}-{n}"));
            let g = E::G1::generator();
            let s: Vec<E::Fr> = seeded_vec(&mut rng, n);
            let mut b: Vec<E::Fr> = seeded_vec(&mut rng, n);
            if n >= 3 {
                b[1] = E::Fr::ZERO; // an identity base
            }
            let bases: Vec<E::G1> = b.iter().map(|x| g * *x).collect();
            let rnd = E::Fr::random(&mut rng);
            let factors: Vec<(&str, E::Fr)> = vec![("0", E::Fr::ZERO), ("1", E::Fr::ONE), ("-1", -E::Fr::ONE), ("seeded", rnd)];
            for h in [0, n / 2, n] {
                for (fname, f) in &factors {
                    let dl1 = (0..h).fold(E::Fr::ZERO, |a, i| a + s[i] * b[i]);
                    let dl2 = (h..n).fold(E::Fr::ZERO, |a, i| a + s[i] * b[i]);
                    let expect = g * (*f * dl1 + dl2);
                    let res = gp.run(|| {
                        let mut m1 = MSMKZG::<E>::init();
                        for i in 0..h {
                            m1.append_term(s[i], bases[i], CommitmentLabel::NoLabel);
                        }
                        let mut m2 = MSMKZG::<E>::init();
                        for i in h..n {
                            m2.append_term(s[i], bases[i], CommitmentLabel::Custom(format!("t{i}")));
                        }
                        m1.scale(*f);
                        m1.add_msm(&m2);
                        let shape = m1.scalars().len() == n && m1.bases().len() == n && m1.labels().len() == n
                            && m1.bases() == bases
                            && (0..n).all(|i| m1.scalars()[i] == if i < h { s[i] * *f } else { s[i] });
                        let ev = m1.eval();
                        let chk = m1.check();
                        // from_many([a, b]) is the concatenation
                        let mut a = MSMKZG::<E>::init();
                        for i in 0..h {
                            a.append_term(s[i] * *f, bases[i], CommitmentLabel::NoLabel);
                        }
                        let many = MSMKZG::<E>::from_many(vec![a, m2.clone()]).eval();
                        let fb = if n >= 1 { MSMKZG::<E>::from_base(&bases[0]).eval() == bases[0] } else { true };
                        (shape, ev, chk, many, fb)
                    });
                    let nontrivial = n >= 2 && *fname != "0";
                    let detail = json!({"curve": name, "len": n, "split": h, "factor": fname, "factor_value": fhex(f), "rayon_pool": t,
                        "regenerate": format!("ChaCha20 stream 'c12-msmkzg-{name}-{n}' (VERIF_SEED={seed}): n scalars, n dlogs (dlog[1]=0 when n>=3), factor")});
                    match res {
                        Ok((shape, ev, chk, many, fb)) => {
                            let ok = shape && ev == expect && many == expect && fb && chk == bool::from(expect.is_identity());
                            out.eval(if ok { "ok" } else { "mismatch" }, nontrivial);
                            if !ok {
                                let mut d = detail;
                                d["shape_ok"] = json!(shape);
                                d["eval_ok"] = json!(ev == expect);
                                d["from_many_ok"] = json!(many == expect);
                                d["from_base_ok"] = json!(fb);
                                d["check_ok"] = json!(chk == bool::from(expect.is_identity()));
                                d["expected"] = json!(ghex(&expect.to_affine()));
                                out.viol(Viol::new(format!("{pfx}msmkzg:algebra:{}:mismatch", len_class(n)), format!("MSMKZG<{name}> scale/add_msm/eval/check/from_many differs from f·Σ₁+Σ₂ (len {n}, split {h}, factor {fname}, rayon pool {t})"), d));
                            }
                        }
                        Err(p) => {
                            out.eval("panic", nontrivial);
                            let mut d = detail;
                            d["panic"] = json!(p);
                            out.viol(Viol::new(format!("{pfx}msmkzg:algebra:{}:panic", len_class(n)), format!("MSMKZG<{name}> scale/add_msm/eval panicked (len {n}, split {h}, factor {fname}, rayon pool {t}): {p}"), d));
                        }
                    }
                }
            }
            out.sample = Some(json!({"curve": name, "len": n, "rayon_pool": t, "splits": [0, n / 2, n], "factors": ["0", "1", "-1", "seeded"]}));
            out
        });
    }
}

pub fn msmkzg_algebra(cx: &mut Ctx) {
    msmkzg_algebra_for::<Bls12>(cx, "bls12-381");
    msmkzg_algebra_for::<bn256::Bn256>(cx, "bn254");
}

// ------------------------------------------------------------------------------------------------
// Commitments
// ------------------------------------------------------------------------------------------------

fn coeff_poly<F: PrimeField>(v: &[F]) -> Polynomial<F, Coeff> {
    let mut p = Polynomial::<F, Coeff>::init(v.len());
    for (d, s) in p.iter_mut().zip(v.iter()) {
        *d = *s;
    }
    p
}

fn lagrange_poly<F: PrimeField>(v: &[F]) -> Polynomial<F, LagrangeCoeff> {
    let mut p = Polynomial::<F, LagrangeCoeff>::init(v.len());
    for (d, s) in p.iter_mut().zip(v.iter()) {
        *d = *s;
    }
    p
}

/// L_i(s) for the domain {ω^m}, by the product formula.
fn lagrange_basis_all<F: PrimeField>(k: u32, s: F) -> Vec<F> {
    let n = 1usize << k;
    let pts = powers_of(omega_for::<F>(k), n);
    (0..n)
        .map(|i| {
            let mut num = F::ONE;
            let mut den = F::ONE;
            for m in 0..n {
                if m != i {
                    num *= s - pts[m];
                    den *= pts[i] - pts[m];
                }
            }
            num * den.invert().unwrap()
        })
        .collect()
}

fn setup_seed(seed: u64, name: &str, k: u32) -> [u8; 32] {
    let mut s = [0u8; 32];
    s[..8].copy_from_slice(&seed.to_le_bytes());
    s[8..16].copy_from_slice(&vcore::fnv(&format!("c12-kzg-setup-{name}-{k}")).to_le_bytes());
    s
}

fn commitments_for<E>(cx: &mut Ctx, name: &'static str, sweep_pools: &[usize])
where
    E: MultiMillerLoop + Debug,
    E::Fr: WithSmallOrderMulGroup<3> + Ord,
    E::G1: Default + CurveExt<ScalarExt = E::Fr> + ProcessedSerdeObject,
    E::G1Affine: Default + CurveAffine<ScalarExt = E::Fr, CurveExt = E::G1>,
{
    let seed = cx.seed;
    let pfx = if name == "bls12-381" { String::new() } else { format!("{name}:") };
    let kmax: u32 = cx.tier.pick(6, 8);

    // ---- (a) unsafe_setup with a seeded ChaCha20: the toxic scalar s is the first draw, so it is known here
    {
        let mut cases: Vec<(String, (usize, u32))> = vec![];
        for k in 0..=kmax {
            for t in POOLS_ALL {
                cases.push((format!("{name}:k={k}:pool={t}"), (t, k)));
            }
        }
        let pfx = &pfx;
        cx.run_cases_with(&format!("kzg-setup-commit-{name}"), &cases, MIXED_POOL_WORKERS, |(t, k)| {
            let (t, k) = (*t, *k);
            let n = 1usize << k;
            let mut out = CaseOut::batch();
            let gp = GPool::new(t);
            let seen = gp.observed_threads();
            out.counter(&format!("pool-size-observed:{seen}"), 1);
            if seen != t {
                out.counter("pool-size-mismatch", 1);
            }
            let sd = setup_seed(seed, name, k);
            let s = E::Fr::random(ChaCha20Rng::from_seed(sd));
            let g = E::G1::generator();
            let li = lagrange_basis_all::<E::Fr>(k, s);
            let mut rng = rng_for(seed, &format!("c12-kzg-poly-{name}-{k}"));
            let coeffs: Vec<E::Fr> = seeded_vec(&mut rng, n);
            let w = omega_for::<E::Fr>(k);
            let vals: Vec<E::Fr> = powers_of(w, n).iter().map(|x| horner(&coeffs, *x)).collect();
            let expect_commit = g * horner(&coeffs, s);
            let expect_lagr = g * vals.iter().zip(li.iter()).fold(E::Fr::ZERO, |a, (v, l)| a + *v * *l);
            let refs_agree = expect_commit == expect_lagr; // Σ p(ω^i) L_i(s) = p(s)
            if !refs_agree {
                out.counter("reference-self-disagreement", 1);
            }
            let res = gp.run(|| {
                let mut fails: Vec<String> = vec![];
                let params: ParamsKZG<E> = ParamsKZG::unsafe_setup(k, ChaCha20Rng::from_seed(sd));
                if params.max_k() != k {
                    fails.push("max_k".into());
                }
                if params.g_lagrange().len() != n || !(0..n).all(|i| params.g_lagrange()[i] == g * li[i]) {
                    fails.push("unsafe_setup:g_lagrange != L_i(s)·G".into());
                }
                if params.g2() != E::G2::generator() || params.s_g2() != E::G2::generator() * s {
                    fails.push("unsafe_setup:g2/s_g2".into());
                }
                let c = KZGCommitmentScheme::<E>::commit(&params, &coeff_poly(&coeffs));
                if c != expect_commit {
                    fails.push("commit != p(s)·G".into());
                }
                let cl = KZGCommitmentScheme::<E>::commit_lagrange(&params, &lagrange_poly(&vals));
                if cl != expect_lagr {
                    fails.push("commit_lagrange != Σ vᵢ·Lᵢ(s)·G".into());
                }
                if cl != c {
                    fails.push("commit_lagrange != commit of the interpolant".into());
                }
                // the same through the domain conversion
                let dom = EvaluationDomain::<E::Fr>::new(1, k);
                let back = dom.lagrange_to_coeff(dom.lagrange_from_vec(vals.clone()));
                if KZGCommitmentScheme::<E>::commit(&params, &back) != cl {
                    fails.push("commit(lagrange_to_coeff(v)) != commit_lagrange(v)".into());
                }
                // g (not exposed) rebuilt as s^i·G: g_to_lagrange of it must be g_lagrange
                let gs: Vec<E::G1> = powers_of(s, n).iter().map(|x| g * *x).collect();
                if g_to_lagrange(&gs, k) != params.g_lagrange() {
                    fails.push("g_to_lagrange(s^i·G) != unsafe_setup's g_lagrange".into());
                }
                // from_parts without a Lagrange basis derives it
                let fp = ParamsKZG::<E>::from_parts(k, gs.clone(), None, params.g2(), params.s_g2());
                if fp.g_lagrange() != params.g_lagrange() || KZGCommitmentScheme::<E>::commit(&fp, &coeff_poly(&coeffs)) != expect_commit {
                    fails.push("from_parts(g, None)".into());
                }
                // downsize to k-1: truncated monomial basis, re-derived Lagrange basis
                if k >= 1 {
                    let mut small = params.clone();
                    small.downsize(k - 1);
                    let li2 = lagrange_basis_all::<E::Fr>(k - 1, s);
                    let m = n / 2;
                    if small.max_k() != k - 1 || small.g_lagrange().len() != m || !(0..m).all(|i| small.g_lagrange()[i] == g * li2[i]) {
                        fails.push("downsize:g_lagrange".into());
                    }
                    if KZGCommitmentScheme::<E>::commit(&small, &coeff_poly(&coeffs[..m])) != g * horner(&coeffs[..m], s) {
                        fails.push("downsize:commit".into());
                    }
                    let mut same = params.clone();
                    same.downsize(k);
                    if same.g_lagrange() != params.g_lagrange() {
                        fails.push("downsize(max_k) is not the identity".into());
                    }
                }
                fails
            });
            let detail = json!({"curve": name, "k": k, "rayon_pool": t, "s": fhex(&s),
                "regenerate": format!("ParamsKZG::unsafe_setup(k, ChaCha20Rng::from_seed(VERIF_SEED le || fnv('c12-kzg-setup-{name}-{k}') le || 0…)); polynomial from stream 'c12-kzg-poly-{name}-{k}'")});
            match res {
                Ok(f) if f.is_empty() => out.eval("ok", k >= 1),
                Ok(f) => {
                    out.eval("mismatch", k >= 1);
                    for what in f {
                        let short = what.split(|c| c == ' ' || c == ':').next().unwrap_or("x").to_string();
                        out.viol(Viol::new(format!("{pfx}kzg:{short}:mismatch"), format!("KZG<{name}> k={k}, rayon pool {t}: {what}"), detail.clone()));
                    }
                }
                Err(p) => {
                    out.eval("panic", k >= 1);
                    let mut d = detail;
                    d["panic"] = json!(p);
                    out.viol(Viol::new(format!("{pfx}kzg:setup-commit:panic"), format!("KZG<{name}> setup/commit panicked for k={k}, rayon pool {t}: {p}"), d));
                }
            }
            out.sample = Some(json!({"curve": name, "k": k, "rayon_pool": t}));
            out
        });
    }

    // ---- (b) length sweep on parameters with known discrete logs: commit / commit_lagrange = Σ pᵢ·gᵢ
    let k: u32 = 12;
    let n = 1usize << k;
    let g = E::G1::generator();
    let mut rng = rng_for(seed, &format!("c12-kzg-bases-{name}"));
    let b_mono: Vec<E::Fr> = seeded_vec(&mut rng, n);
    let mut b_lagr: Vec<E::Fr> = seeded_vec(&mut rng, n);
    b_lagr[3] = E::Fr::ZERO; // an identity element in the Lagrange basis
    use rayon::prelude::*;
    let g_mono: Vec<E::G1> = b_mono.par_iter().map(|x| g * *x).collect();
    let g_lagr: Vec<E::G1> = b_lagr.par_iter().map(|x| g * *x).collect();
    let params = ParamsKZG::<E>::from_parts(k, g_mono, Some(g_lagr), E::G2::generator(), E::G2::generator());
    let mut lens: Vec<usize> = (0..=70).collect();
    lens.extend([127, 128, 129, 255, 256, 257, 1000, 4095, 4096]);
    {
        let mut cases: Vec<(String, (usize, usize))> = vec![];
        for l in &lens {
            for t in sweep_pools {
                cases.push((format!("{name}:len={l}:pool={t}"), (*t, *l)));
            }
        }
        let (params, b_mono, b_lagr, pfx) = (&params, &b_mono, &b_lagr, &pfx);
        cx.run_cases_with(&format!("kzg-commit-sweep-{name}"), &cases, MIXED_POOL_WORKERS, |(t, l)| {
            let (t, l) = (*t, *l);
            let mut out = CaseOut::batch();
            let gp = GPool::new(t);
            let seen = gp.observed_threads();
            out.counter(&format!("pool-size-observed:{seen}"), 1);
            let mut rng = rng_for(seed, &format!("c12-kzg-sweep-{name}-{l}"));
            let seeded: Vec<E::Fr> = seeded_vec(&mut rng, l);
            let mut one = vec![E::Fr::ZERO; l];
            if l > 0 {
                one[l - 1] = seeded[l - 1];
            }
            let pats: Vec<(&str, Vec<E::Fr>)> = vec![("seeded", seeded), ("zero", vec![E::Fr::ZERO; l]), ("one-nonzero-last", one), ("max", vec![-E::Fr::ONE; l])];
            for (pn, p) in &pats {
                for (which, dl) in [("commit", b_mono), ("commit_lagrange", b_lagr)] {
                    let expect = g * p.iter().zip(dl.iter()).fold(E::Fr::ZERO, |a, (x, y)| a + *x * *y);
                    let res = gp.run(|| {
                        if which == "commit" {
                            KZGCommitmentScheme::<E>::commit(params, &coeff_poly(p))
                        } else {
                            KZGCommitmentScheme::<E>::commit_lagrange(params, &lagrange_poly(p))
                        }
                    });
                    let nontrivial = l >= 2 && *pn != "zero";
                    let detail = json!({"curve": name, "entry": which, "len": l, "pattern": pn, "rayon_pool": t,
                        "regenerate": format!("bases b·G with b from stream 'c12-kzg-bases-{name}' (4096 monomial dlogs, then 4096 Lagrange dlogs, Lagrange dlog[3]=0); values from stream 'c12-kzg-sweep-{name}-{l}'")});
                    match res {
                        Ok(v) if v == expect => out.eval(&format!("{which}:ok"), nontrivial),
                        Ok(_) => {
                            out.eval(&format!("{which}:mismatch"), nontrivial);
                            out.viol(Viol::new(format!("{pfx}kzg:{which}:{pn}:{}:mismatch", len_class(l)), format!("KZG<{name}>::{which} != Σ pᵢ·gᵢ (len {l}, pattern {pn}, rayon pool {t})"), detail));
                        }
                        Err(pm) => {
                            out.eval(&format!("{which}:panic"), nontrivial);
                            let mut d = detail;
                            d["panic"] = json!(pm);
                            out.viol(Viol::new(format!("{pfx}kzg:{which}:{pn}:{}:panic", len_class(l)), format!("KZG<{name}>::{which} panicked (len {l}, pattern {pn}, rayon pool {t}): {pm}"), d));
                        }
                    }
                }
            }
            out.sample = Some(json!({"curve": name, "len": l, "rayon_pool": t, "patterns": ["seeded", "zero", "one-nonzero-last", "max"], "entries": ["commit", "commit_lagrange"]}));
            out
        });
    }
}

pub fn commitments(cx: &mut Ctx) {
    // BLS12-381 commitments go to blst (own thread pool): the rayon dimension is vacuous for the sweep
    commitments_for::<Bls12>(cx, "bls12-381", &[1, 16]);
    commitments_for::<bn256::Bn256>(cx, "bn254", &[1, 3, 16]);
}
