//! Multi-scalar multiplication: every public entry point against Σ sᵢ·Pᵢ.
//!
//! Bases are Pᵢ = bᵢ·G with seeded, known bᵢ, so the expected result is (Σ sᵢ·bᵢ mod r)·G — one
//! scalar multiplication — for every length; for lengths ≤ 70 the direct naive sum Σ sᵢ·Pᵢ
//! (projective scalar multiplication and addition) is computed as well and both references must
//! agree with each other and with the subject.

use std::collections::BTreeMap;

use ff::{Field, PrimeField};
use group::{prime::PrimeCurveAffine, Curve, Group};
use midnight_curves::{
    msm::{msm_best, msm_parallel, msm_serial},
    CurveAffine,
};
use rayon::prelude::*;
use serde_json::json;
use vcore::{rng_for, CaseOut, Ctx, Viol};

use crate::util::{fhex, ghex, len_class, GPool, MIXED_POOL_WORKERS};

pub const NAIVE_UPTO: usize = 70;

pub struct Table<C: CurveAffine> {
    pub b: Vec<C::Scalar>,
    pub p: Vec<C>,
}

pub fn build_table<C: CurveAffine>(seed: u64, curve: &str, n: usize) -> Table<C> {
    let mut rng = rng_for(seed, &format!("c12-table-{curve}"));
    let b: Vec<C::Scalar> = (0..n).map(|_| C::Scalar::random(&mut rng)).collect();
    let g = C::Curve::generator();
    let proj: Vec<C::Curve> = b.par_iter().map(|s| g * *s).collect();
    let mut p = vec![C::identity(); n];
    C::Curve::batch_normalize(&proj, &mut p);
    Table { b, p }
}

pub struct Inst<C: CurveAffine> {
    pub name: &'static str,
    /// pattern class used in finding keys
    pub class: &'static str,
    pub scalars: Vec<C::Scalar>,
    pub bases: Vec<C>,
    pub bases_proj: Vec<C::Curve>,
    pub expected: C::Curve,
    pub nontrivial: bool,
    /// the direct naive sum was computed too (len ≤ 70)
    pub naive: bool,
    /// naive sum == dlog reference (true when not computed)
    pub refs_agree: bool,
}

fn top_bit_scalar<F: PrimeField>(rng: &mut impl rand_core::RngCore) -> F {
    // 2^(NUM_BITS-1) + (128 random bits): < modulus for both scalar fields used here
    // (checked by `self_checks`: the canonical representation has bit NUM_BITS-1 set).
    let mut lo = [0u8; 16];
    rng.fill_bytes(&mut lo);
    F::from(2u64).pow_vartime([(F::NUM_BITS - 1) as u64]) + F::from_u128(u128::from_le_bytes(lo))
}

pub fn pattern_names(n: usize) -> Vec<&'static str> {
    if n == 0 {
        return vec!["empty"];
    }
    vec![
        "random",
        "zero-scalars",
        "one-nonzero-first",
        "one-nonzero-last",
        "max-scalars",
        "top-bit",
        "small-scalars",
        "unit-scalars",
        "identity-first",
        "identity-middle",
        "identity-last",
        "identity-all",
        "equal-bases",
        "opposite-same-scalar",
        "opposite-pairs",
        "repeated-zero-sum",
    ]
}

fn class_of(name: &str) -> &'static str {
    match name {
        "empty" => "empty",
        "random" => "random",
        "zero-scalars" => "zero-scalars",
        "one-nonzero-first" | "one-nonzero-last" => "one-nonzero",
        "max-scalars" => "max-scalars",
        "top-bit" => "top-bit",
        "small-scalars" => "small-scalars",
        "unit-scalars" => "unit-scalars",
        "identity-first" | "identity-middle" | "identity-last" | "identity-all" => "identity-base",
        "equal-bases" => "equal-bases",
        "opposite-same-scalar" | "opposite-pairs" => "opposite-bases",
        "repeated-zero-sum" => "repeated-base-zero-sum",
        _ => unreachable!(),
    }
}

pub fn build_inst<C: CurveAffine>(
    seed: u64,
    curve: &str,
    n: usize,
    name: &'static str,
    tab: &Table<C>,
) -> Inst<C> {
    let mut rng = rng_for(seed, &format!("c12-msm-{curve}-{n}-{name}"));
    let zero = C::Scalar::ZERO;
    let mut scalars: Vec<C::Scalar> = (0..n).map(|_| C::Scalar::random(&mut rng)).collect();
    let mut bases: Vec<C> = tab.p[..n].to_vec();
    let mut dlogs: Vec<C::Scalar> = tab.b[..n].to_vec();
    match name {
        "empty" | "random" => {}
        "zero-scalars" => scalars.iter_mut().for_each(|s| *s = zero),
        "one-nonzero-first" => scalars.iter_mut().skip(1).for_each(|s| *s = zero),
        "one-nonzero-last" => scalars.iter_mut().take(n - 1).for_each(|s| *s = zero),
        "max-scalars" => scalars.iter_mut().for_each(|s| *s = -C::Scalar::ONE),
        "top-bit" => scalars.iter_mut().for_each(|s| *s = top_bit_scalar(&mut rng)),
        "small-scalars" => scalars
            .iter_mut()
            .enumerate()
            .for_each(|(i, s)| *s = C::Scalar::from(((i * 37 + 1) % 256) as u64)),
        "unit-scalars" => scalars.iter_mut().for_each(|s| *s = C::Scalar::ONE),
        "identity-first" | "identity-middle" | "identity-last" => {
            let pos = match name {
                "identity-first" => 0,
                "identity-middle" => n / 2,
                _ => n - 1,
            };
            bases[pos] = C::identity();
            dlogs[pos] = zero;
        }
        "identity-all" => {
            bases.iter_mut().for_each(|b| *b = C::identity());
            dlogs.iter_mut().for_each(|d| *d = zero);
        }
        "equal-bases" => {
            bases.iter_mut().for_each(|b| *b = tab.p[0]);
            dlogs.iter_mut().for_each(|d| *d = tab.b[0]);
        }
        "opposite-same-scalar" => {
            // P, -P, P, -P, … all with the same scalar: every window sends all terms to one bucket
            let s0 = scalars[0];
            let neg = -tab.p[0];
            for i in 0..n {
                scalars[i] = s0;
                bases[i] = if i % 2 == 0 { tab.p[0] } else { neg };
                dlogs[i] = if i % 2 == 0 { tab.b[0] } else { -tab.b[0] };
            }
        }
        "opposite-pairs" => {
            // (P0,-P0,P1,-P1,…) with one scalar per pair: cancellation inside many buckets
            for i in 0..n {
                let j = i / 2;
                scalars[i] = scalars[2 * j];
                bases[i] = if i % 2 == 0 { tab.p[j] } else { -tab.p[j] };
                dlogs[i] = if i % 2 == 0 { tab.b[j] } else { -tab.b[j] };
            }
        }
        "repeated-zero-sum" => {
            bases.iter_mut().for_each(|b| *b = tab.p[0]);
            dlogs.iter_mut().for_each(|d| *d = tab.b[0]);
            let partial = scalars[..n - 1].iter().fold(zero, |a, s| a + *s);
            scalars[n - 1] = -partial;
        }
        _ => unreachable!(),
    }
    let e = scalars.iter().zip(dlogs.iter()).fold(zero, |a, (s, d)| a + *s * *d);
    let expected = C::Curve::generator() * e;
    let (naive, refs_agree) = if n <= NAIVE_UPTO {
        let mut acc = C::Curve::identity();
        for (s, b) in scalars.iter().zip(bases.iter()) {
            acc += *b * *s;
        }
        (true, acc == expected)
    } else {
        (false, true)
    };
    let nontrivial = n >= 2 && scalars.iter().any(|s| !bool::from(s.is_zero()));
    let bases_proj = bases.iter().map(|b| b.to_curve()).collect();
    Inst {
        name,
        class: class_of(name),
        scalars,
        bases,
        bases_proj,
        expected,
        nontrivial,
        naive,
        refs_agree,
    }
}

pub type EntryFn<C> = Box<dyn Fn(&Inst<C>) -> <C as PrimeCurveAffine>::Curve + Send + Sync>;

#[derive(Clone, Copy, PartialEq, Eq)]
pub enum PoolClass {
    /// reads `rayon::current_num_threads()` itself (chunking / algorithm choice)
    Dependent,
    /// never touches rayon (no rayon call on its path)
    Independent,
    /// thin wrapper (filter zero scalars, normalise bases) that then calls a `Dependent` entry
    Wrapper,
}

pub struct Entry<C: CurveAffine> {
    /// name used in finding keys (generic functions carry a curve prefix except on BLS12-381 G1)
    pub name: String,
    /// the call can reach the generic `msm_best` batch-affine path
    pub reaches_msm_best: bool,
    /// how the call relates to the rayon pool
    pub pool_class: PoolClass,
    pub f: EntryFn<C>,
}

pub fn generic_entries<C: CurveAffine>(prefix: &str) -> Vec<Entry<C>> {
    vec![
        Entry {
            name: format!("{prefix}msm_serial"),
            reaches_msm_best: false,
            pool_class: PoolClass::Independent,
            f: Box::new(|i: &Inst<C>| {
                let mut acc = C::Curve::identity();
                msm_serial(&i.scalars, &i.bases, &mut acc);
                acc
            }),
        },
        Entry {
            name: format!("{prefix}msm_parallel"),
            reaches_msm_best: false,
            pool_class: PoolClass::Dependent,
            f: Box::new(|i: &Inst<C>| msm_parallel(&i.scalars, &i.bases)),
        },
        Entry {
            name: format!("{prefix}msm_best"),
            reaches_msm_best: true,
            pool_class: PoolClass::Dependent,
            f: Box::new(|i: &Inst<C>| msm_best(&i.scalars, &i.bases)),
        },
    ]
}

/// The panic of `CtOption::unwrap` on `None` (subtle's `assert_eq!(is_some, 1)`).
fn is_ctoption_unwrap(msg: &str) -> bool {
    msg.contains("subtle") || msg.contains("left == right") || msg.contains("`(left == right)`")
}

pub fn finding_key<C: CurveAffine>(
    e: &Entry<C>,
    inst: &Inst<C>,
    n: usize,
    kind: &str,
    panic_msg: Option<&str>,
) -> String {
    if n == 0 {
        return format!("{}:empty:{kind}", e.name);
    }
    if kind == "panic"
        && e.reaches_msm_best
        && inst.class == "identity-base"
        && n >= 8104
        && panic_msg.map(is_ctoption_unwrap).unwrap_or(false)
    {
        // one root cause (generic `msm_best`, `Affine::from` unwraps the coordinates of every
        // base) whatever the curve or wrapper it is reached through
        return "msm_best:identity-base:len>=8104:panic".to_string();
    }
    format!("{}:{}:{}:{kind}", e.name, inst.class, len_class(n))
}

pub struct MsmPlan {
    pub curve: &'static str,
    pub lengths: Vec<usize>,
    /// pools for pool-dependent entries at a given length
    pub pools_for: Box<dyn Fn(usize) -> Vec<usize> + Sync>,
    /// pools for entries that never read the rayon pool
    pub pools_independent_for: Box<dyn Fn(usize) -> Vec<usize> + Sync>,
    /// pools for thin wrappers around a pool-dependent entry
    pub pools_wrapper_for: Box<dyn Fn(usize) -> Vec<usize> + Sync>,
    /// restrict the pattern list at a given length (None = all)
    pub patterns_for: Box<dyn Fn(usize) -> Option<Vec<&'static str>> + Sync>,
    /// further restriction of the pattern list under a given pool size (None = no restriction)
    pub patterns_under_pool: Box<dyn Fn(usize, usize) -> Option<Vec<&'static str>> + Sync>,
}

impl MsmPlan {
    pub fn pools_of(&self, c: PoolClass, n: usize) -> Vec<usize> {
        match c {
            PoolClass::Dependent => (self.pools_for)(n),
            PoolClass::Independent => (self.pools_independent_for)(n),
            PoolClass::Wrapper => (self.pools_wrapper_for)(n),
        }
    }
}

/// Runs the sweep for one curve. Returns (pool sizes really observed, names of entries that hit
/// the msm_best identity finding).
pub fn run_curve<C: CurveAffine>(cx: &mut Ctx, plan: &MsmPlan, entries: &[Entry<C>]) {
    let curve = plan.curve;
    let seed = cx.seed;
    let max_len = plan.lengths.iter().copied().max().unwrap_or(0).max(4);
    let tab: Table<C> = build_table(seed, curve, max_len);

    // ---- self-checks of the reference on tiny inputs (independent of the subject)
    {
        let g = C::Curve::generator();
        let ok_tab = (0..4).all(|i| (g * tab.b[i]).to_affine() == tab.p[i]);
        cx.require(ok_tab, &format!("{curve}: base table P_i != b_i*G"));
        let lhs = tab.p[0].to_curve() + tab.p[1].to_curve();
        cx.require(lhs == g * (tab.b[0] + tab.b[1]), &format!("{curve}: P0+P1 != (b0+b1)*G"));
        // double-and-add written out here agrees with the group's scalar multiplication
        let s = tab.b[2];
        let mut acc = C::Curve::identity();
        for byte in s.to_repr().as_ref().iter().rev() {
            for bit in (0..8).rev() {
                acc = acc.double();
                if (byte >> bit) & 1 == 1 {
                    acc += tab.p[3];
                }
            }
        }
        cx.require(acc == tab.p[3] * s, &format!("{curve}: double-and-add != scalar multiplication"));
        let mut rng = rng_for(seed, "c12-topbit-check");
        let t: C::Scalar = top_bit_scalar(&mut rng);
        let repr = t.to_repr();
        let bits = C::Scalar::NUM_BITS as usize;
        let top = (repr.as_ref()[(bits - 1) / 8] >> ((bits - 1) % 8)) & 1;
        cx.require(top == 1, &format!("{curve}: top-bit scalar does not have bit NUM_BITS-1 set"));
    }

    // ---- instances (shared by all entries and pools), built in parallel
    let work: Vec<(usize, &'static str)> = plan
        .lengths
        .iter()
        .flat_map(|n| {
            let names = (plan.patterns_for)(*n).unwrap_or_else(|| pattern_names(*n));
            names.into_iter().map(move |p| (*n, p))
        })
        .collect();
    let built: Vec<(usize, Inst<C>)> =
        work.par_iter().map(|(n, p)| (*n, build_inst(seed, curve, *n, p, &tab))).collect();
    let mut insts: BTreeMap<usize, Vec<Inst<C>>> = BTreeMap::new();
    for (n, i) in built {
        insts.entry(n).or_default().push(i);
    }
    let disagree: Vec<String> = insts
        .iter()
        .flat_map(|(n, v)| v.iter().filter(|i| !i.refs_agree).map(move |i| format!("{n}/{}", i.name)))
        .collect();
    for d in &disagree {
        cx.report_violation(
            &format!("msm-{curve}"),
            &format!("reference:{d}"),
            Viol::new(
                format!("{curve}:reference:naive-sum-vs-dlog:mismatch"),
                format!("the naive sum Σ sᵢ·Pᵢ differs from (Σ sᵢ·bᵢ)·G for instance {d} (scalar multiplication / addition disagree with themselves)"),
                json!({"curve": curve, "instance": d}),
            ),
        );
    }
    let naive_count: u64 = insts.values().flatten().filter(|i| i.naive).count() as u64;
    cx.add_counter(&format!("msm-{curve}:instances"), insts.values().map(|v| v.len() as u64).sum());
    cx.add_counter(&format!("msm-{curve}:instances-with-direct-naive-sum"), naive_count);

    // ---- cases: (length, pool), grouped by pool so that outer workers x pool threads ≈ 16
    let mut all_pools: Vec<usize> = plan
        .lengths
        .iter()
        .flat_map(|n| (plan.pools_for)(*n).into_iter().chain((plan.pools_independent_for)(*n)).chain((plan.pools_wrapper_for)(*n)))
        .collect();
    all_pools.sort();
    all_pools.dedup();
    {
        // one case per (length, pool); lengths >= 1000 are split further, one case per entry point,
        // so that the long cases do not serialise the run
        let mut cases: Vec<(String, (usize, usize, Option<usize>))> = vec![];
        for n in &plan.lengths {
          for t in all_pools.iter().copied() {
            let applies = |e: &Entry<C>| plan.pools_of(e.pool_class, *n).contains(&t);
            if !entries.iter().any(applies) {
                continue;
            }
            if *n < 1000 {
                cases.push((format!("{curve}:len={n}:pool={t}"), (*n, t, None)));
            } else {
                for (ei, e) in entries.iter().enumerate() {
                    if applies(e) {
                        cases.push((format!("{curve}:len={n}:pool={t}:entry={}", e.name), (*n, t, Some(ei))));
                    }
                }
            }
          }
        }
        let group = format!("msm-{curve}");
        let insts = &insts;
        cx.run_cases_with(&group, &cases, MIXED_POOL_WORKERS, |(n, t, only)| {
            let (n, t, only) = (*n, *t, *only);
            let mut out = CaseOut::batch();
            let gp = GPool::new(t);
            let seen = gp.observed_threads();
            out.counter(&format!("pool-size-observed:{seen}"), 1);
            if seen != t {
                out.counter("pool-size-mismatch", 1);
            }
            let restrict = (plan.patterns_under_pool)(n, t);
            let list: Vec<&Inst<C>> = insts[&n].iter().filter(|i| restrict.as_ref().map(|r| r.contains(&i.name)).unwrap_or(true)).collect();
            let mut ran: Vec<&str> = vec![];
            for (ei, e) in entries.iter().enumerate() {
                if !plan.pools_of(e.pool_class, n).contains(&t) || only.map(|o| o != ei).unwrap_or(false) {
                    continue;
                }
                ran.push(&e.name);
                for inst in list.iter().copied() {
                    let r = gp.run(|| (e.f)(inst));
                    let class = match &r {
                        Ok(v) if *v == inst.expected => {
                            if bool::from(v.is_identity()) {
                                "ok-identity"
                            } else {
                                "ok"
                            }
                        }
                        Ok(_) => "mismatch",
                        Err(_) => "panic",
                    };
                    out.eval(&format!("{}:{class}", e.name), inst.nontrivial);
                    out.counter(&format!("pattern:{}", inst.class), 1);
                    if class == "ok" || class == "ok-identity" {
                        continue;
                    }
                    let small = n <= 8;
                    let mut detail = json!({
                        "curve": curve, "entry": e.name, "len": n, "rayon_pool": t,
                        "pattern": inst.name,
                        "regenerate": format!("bases P_i = b_i*G, b from ChaCha20 stream 'c12-table-{curve}'; scalars from stream 'c12-msm-{curve}-{n}-{}' (VERIF_SEED={})", inst.name, seed),
                        "expected": ghex(&inst.expected.to_affine()),
                    });
                    if small {
                        detail["scalars"] = json!(inst.scalars.iter().map(fhex).collect::<Vec<_>>());
                        detail["bases_compressed"] = json!(inst.bases.iter().map(ghex).collect::<Vec<_>>());
                    }
                    match r {
                        Ok(v) => {
                            detail["got"] = json!(ghex(&v.to_affine()));
                            out.viol(Viol::new(
                                finding_key(e, inst, n, "mismatch", None),
                                format!("{} on {curve} returned a point different from Σ sᵢ·Pᵢ (len {n}, pattern {}, rayon pool {t})", e.name, inst.name),
                                detail,
                            ));
                        }
                        Err(p) => {
                            detail["panic"] = json!(p);
                            let key = finding_key(e, inst, n, "panic", Some(&p));
                            if key == "msm_best:identity-base:len>=8104:panic" {
                                out.counter(&format!("msm_best-identity-panic-via:{}", e.name), 1);
                            }
                            out.viol(Viol::new(
                                key,
                                format!("{} on {curve} panicked (len {n}, pattern {}, rayon pool {t}): {p}", e.name, inst.name),
                                detail,
                            ));
                        }
                    }
                }
            }
            // a few informative samples per curve (the runner keeps the first three it sees)
            let sample_here = (matches!(n, 33 | 64 | 257) && t == [1, 2, 3, 5, 8, 16][n % 6]) || (n == 33 && t == 3) || (n >= 4096 && t == 1);
            if sample_here { out.sample = Some(json!({
                "curve": curve, "len": n, "rayon_pool": t, "entries": ran,
                "patterns": list.iter().map(|i| i.name).collect::<Vec<_>>(),
                "reference": if n <= NAIVE_UPTO { "direct naive sum and (Σ sᵢbᵢ)·G, both" } else { "(Σ sᵢbᵢ)·G with known seeded bᵢ" },
            })); }
            out
        });
    }
}
