//! `EvaluationDomain` conversions, rotations, Lagrange-basis evaluation, division by Xⁿ−1 and the
//! `Polynomial` operators, against Horner evaluation / the product formula.

use ff::{Field, PrimeField, WithSmallOrderMulGroup};
use midnight_curves::Fq as F;
use midnight_proofs::poly::{EvaluationDomain, Rotation};
use rayon::prelude::*;
use serde_json::json;
use vcore::{rng_for, CaseOut, Ctx, Viol};

use crate::util::pcatch as catch;

use crate::util::{fhex, has_order_pow2, horner, omega_for, powers_of, seeded_vec, GPool, MIXED_POOL_WORKERS, POOLS_ALL};

struct DomRef {
    j: u32,
    k: u32,
    ek: u32,
    omega: F,
    ext_omega: F,
    /// ground truth: coefficients of a polynomial of degree < n
    coeffs: Vec<F>,
    /// its values at ω^i (Horner)
    vals: Vec<F>,
    /// its values at ζ·ω_ext^i (Horner)
    ext_vals: Vec<F>,
    /// coefficients of a polynomial of degree < 2^ek
    q: Vec<F>,
    /// its values on the coset
    q_ext: Vec<F>,
    /// (ζ·ω_ext^i)^n − 1
    t_ext: Vec<F>,
    /// a second polynomial of degree < n (for the operators)
    other: Vec<F>,
    scalar: F,
}

fn expected_ek(j: u32, k: u32) -> u32 {
    let n = 1u64 << k;
    let mut ek = k;
    while (1u64 << ek) < n * (j as u64 - 1) {
        ek += 1;
    }
    ek
}

fn build_ref(seed: u64, j: u32, k: u32) -> DomRef {
    let n = 1usize << k;
    let ek = expected_ek(j, k);
    let en = 1usize << ek;
    let omega: F = omega_for(k);
    let ext_omega: F = omega_for(ek);
    let zeta = F::ZETA;
    let mut rng = rng_for(seed, &format!("c12-domain-{j}-{k}"));
    let coeffs: Vec<F> = seeded_vec(&mut rng, n);
    let other: Vec<F> = seeded_vec(&mut rng, n);
    let q: Vec<F> = seeded_vec(&mut rng, en);
    let scalar = F::random(&mut rng);
    let pts = powers_of(omega, n);
    let vals = pts.iter().map(|x| horner(&coeffs, *x)).collect();
    let coset: Vec<F> = powers_of(ext_omega, en).into_iter().map(|x| x * zeta).collect();
    let ext_vals = coset.iter().map(|x| horner(&coeffs, *x)).collect();
    let q_ext = coset.iter().map(|x| horner(&q, *x)).collect();
    let t_ext = coset.iter().map(|x| x.pow_vartime([n as u64]) - F::ONE).collect();
    DomRef { j, k, ek, omega, ext_omega, coeffs, vals, ext_vals, q, q_ext, t_ext, other, scalar }
}

/// l_i(x) = Π_{m≠i} (x − ω^m)/(ω^i − ω^m), directly from the definition.
fn lagrange_basis_at(pts: &[F], i: usize, x: F) -> F {
    let mut num = F::ONE;
    let mut den = F::ONE;
    for (m, pm) in pts.iter().enumerate() {
        if m != i {
            num *= x - *pm;
            den *= pts[i] - *pm;
        }
    }
    num * den.invert().unwrap()
}

pub fn run(cx: &mut Ctx) {
    let kmax: u32 = cx.tier.pick(8, 10);
    let seed = cx.seed;
    let jk: Vec<(u32, u32)> = (1..=kmax).flat_map(|k| (1..=9u32).map(move |j| (j, k))).collect();
    let refs: Vec<DomRef> = jk.par_iter().map(|(j, k)| build_ref(seed, *j, *k)).collect();

    // self-checks of the reference
    cx.require(F::ZETA != F::ONE && F::ZETA.square() * F::ZETA == F::ONE, "ZETA is not a primitive cube root of unity");
    for r in &refs {
        cx.require(has_order_pow2(r.omega, r.k) && has_order_pow2(r.ext_omega, r.ek), "reference omegas do not have the right order");
        cx.require(r.ext_omega.pow_vartime([1u64 << (r.ek - r.k)]) == r.omega, "ext_omega^(2^(ek-k)) != omega");
    }
    {
        // Horner == explicit powers on a tiny instance; t(X)=X^n-1 vanishes on the domain, not on the coset
        let r = &refs[0];
        let x = r.scalar;
        cx.require(horner(&r.coeffs, x) == crate::util::eval_by_powers(&r.coeffs, x), "horner != sum of c_i x^i");
        cx.require(r.t_ext.iter().all(|t| *t != F::ZERO), "X^n - 1 vanishes on the coset");
    }

    // ---------------- pool-dependent part: conversions, division, operators
    {
        let mut cases: Vec<(String, (usize, usize))> = vec![];
        for (i, r) in refs.iter().enumerate() {
            for t in POOLS_ALL {
                cases.push((format!("j={}:k={}:pool={t}", r.j, r.k), (t, i)));
            }
        }
        let refs = &refs;
        cx.run_cases_with("domain-conversions", &cases, MIXED_POOL_WORKERS, |(t, i)| {
            let t = *t;
            let r = &refs[*i];
            let (j, k) = (r.j, r.k);
            let n = 1usize << k;
            let en = 1usize << r.ek;
            let mut out = CaseOut::batch();
            let gp = GPool::new(t);
            let seen = gp.observed_threads();
            out.counter(&format!("pool-size-observed:{seen}"), 1);
            if seen != t {
                out.counter("pool-size-mismatch", 1);
            }
            let check = |out: &mut CaseOut, op: &str, res: Result<bool, String>| {
                let detail = json!({"j": j, "k": k, "extended_k": r.ek, "rayon_pool": t, "op": op,
                    "regenerate": format!("ChaCha20 stream 'c12-domain-{j}-{k}' (VERIF_SEED={seed}): n coeffs, n coeffs, 2^ek coeffs, scalar"),
                    "coeffs(first 4)": crate::util::fhexs(&r.coeffs, 4)});
                match res {
                    Ok(true) => out.eval(&format!("{op}:ok"), true),
                    Ok(false) => {
                        out.eval(&format!("{op}:mismatch"), true);
                        out.viol(Viol::new(format!("domain:{op}:mismatch"), format!("EvaluationDomain::new({j},{k}): {op} disagrees with naive evaluation (rayon pool {t})"), detail));
                    }
                    Err(p) => {
                        out.eval(&format!("{op}:panic"), true);
                        let mut d = detail;
                        d["panic"] = json!(p);
                        out.viol(Viol::new(format!("domain:{op}:panic"), format!("EvaluationDomain::new({j},{k}): {op} panicked (rayon pool {t}): {p}"), d));
                    }
                }
            };
            let dom = match gp.run(|| EvaluationDomain::<F>::new(j, k)) {
                Ok(d) => d,
                Err(p) => {
                    check(&mut out, "new", Err(p));
                    return out;
                }
            };
            // constants
            check(&mut out, "new:constants", Ok(dom.k() == k
                && dom.extended_k() == r.ek
                && dom.extended_len() == en
                && dom.get_omega() == r.omega
                && dom.get_extended_omega() == r.ext_omega
                && dom.get_omega_inv() * r.omega == F::ONE
                && dom.get_quotient_poly_degree() == (j - 1) as usize));
            // constructors
            check(&mut out, "constructors", gp.run(|| {
                dom.empty_coeff().iter().all(|x| *x == F::ZERO) && dom.empty_coeff().num_coeffs() == n
                    && dom.empty_lagrange().iter().all(|x| *x == F::ZERO) && dom.empty_lagrange().num_coeffs() == n
                    && dom.empty_extended().iter().all(|x| *x == F::ZERO) && dom.empty_extended().num_coeffs() == en
                    && dom.constant_lagrange(r.scalar).iter().all(|x| *x == r.scalar) && dom.constant_lagrange(r.scalar).num_coeffs() == n
                    && dom.constant_extended(r.scalar).iter().all(|x| *x == r.scalar) && dom.constant_extended(r.scalar).num_coeffs() == en
                    && dom.empty_lagrange_rational().iter().all(|x| x.is_zero_vartime()) && dom.empty_lagrange_rational().num_coeffs() == n
            }));
            // coefficient form -> Lagrange form
            check(&mut out, "coeff_to_lagrange", gp.run(|| dom.coeff_to_lagrange(dom.coeff_from_vec(r.coeffs.clone())).to_vec() == r.vals));
            // Lagrange form -> coefficient form (interpolation is unique for degree < n)
            check(&mut out, "lagrange_to_coeff", gp.run(|| dom.lagrange_to_coeff(dom.lagrange_from_vec(r.vals.clone())).to_vec() == r.coeffs));
            // coefficient form -> coset of the extended domain
            check(&mut out, "coeff_to_extended", gp.run(|| dom.coeff_to_extended(dom.coeff_from_vec(r.coeffs.clone())).to_vec() == r.ext_vals));
            // extended -> coefficients, for the degree < n polynomial and for a full-degree one
            let to_ext = |v: &[F]| {
                let mut e = dom.empty_extended();
                for (d, s) in e.iter_mut().zip(v.iter()) {
                    *d = *s;
                }
                e
            };
            check(&mut out, "extended_to_coeff", gp.run(|| {
                let c = dom.extended_to_coeff(to_ext(&r.ext_vals));
                c.len() == en && c[..n] == r.coeffs[..] && c[n..].iter().all(|x| *x == F::ZERO)
            }));
            check(&mut out, "extended_to_coeff:full-degree", gp.run(|| dom.extended_to_coeff(to_ext(&r.q_ext)) == r.q));
            check(&mut out, "extended_to_lagrange", gp.run(|| dom.extended_to_lagrange(to_ext(&r.ext_vals)).to_vec() == r.vals));
            // division by the vanishing polynomial: (q·(Xⁿ−1)) / (Xⁿ−1) = q pointwise on the coset
            check(&mut out, "divide_by_vanishing_poly", gp.run(|| {
                let prod: Vec<F> = r.q_ext.iter().zip(r.t_ext.iter()).map(|(a, b)| *a * *b).collect();
                let quot = dom.divide_by_vanishing_poly(to_ext(&prod));
                let back = dom.extended_to_coeff(quot.clone());
                quot.to_vec() == r.q_ext && back == r.q
            }));
            // and on a true multiple in coefficient form when there is room: c(X)·(Xⁿ−1), deg < 2n ≤ 2^ek
            if en >= 2 * n {
                check(&mut out, "divide_by_vanishing_poly:coefficient-multiple", gp.run(|| {
                    let mut prod = vec![F::ZERO; en];
                    for (i, c) in r.coeffs.iter().enumerate() {
                        prod[i] -= *c;
                        prod[i + n] += *c;
                    }
                    // evaluate the product on the coset naively through its values: c(x)·(xⁿ−1)
                    let pv: Vec<F> = r.ext_vals.iter().zip(r.t_ext.iter()).map(|(a, b)| *a * *b).collect();
                    let quot = dom.extended_to_coeff(dom.divide_by_vanishing_poly(to_ext(&pv)));
                    // prod is only used to make sure the values above are those of a real multiple
                    let zeta = F::ZETA;
                    let x1 = zeta * r.ext_omega;
                    horner(&prod, x1) == pv[1] && quot[..n] == r.coeffs[..] && quot[n..].iter().all(|x| *x == F::ZERO)
                }));
            }
            // operators of Polynomial (parallelize underneath)
            check(&mut out, "polynomial-operators", gp.run(|| {
                let a = dom.coeff_from_vec(r.coeffs.clone());
                let b = dom.coeff_from_vec(r.other.clone());
                let sum: Vec<F> = r.coeffs.iter().zip(r.other.iter()).map(|(x, y)| *x + *y).collect();
                let dif: Vec<F> = r.coeffs.iter().zip(r.other.iter()).map(|(x, y)| *x - *y).collect();
                let scl: Vec<F> = r.coeffs.iter().map(|x| *x * r.scalar).collect();
                let mut m0 = r.coeffs.clone();
                m0[0] -= r.scalar;
                let mut acc = a.clone();
                acc += &b;
                let mut ms = a.clone();
                ms *= r.scalar;
                (a.clone() + &b).to_vec() == sum
                    && (a.clone() + b.clone()).to_vec() == sum
                    && acc.to_vec() == sum
                    && (a.clone() - &b).to_vec() == dif
                    && (a.clone() * r.scalar).to_vec() == scl
                    && ms.to_vec() == scl
                    && (a.clone() * F::ONE).to_vec() == r.coeffs
                    && (a.clone() * F::ZERO).iter().all(|x| *x == F::ZERO)
                    && (&a - r.scalar).to_vec() == m0
                    && {
                        let l = dom.lagrange_from_vec(r.vals.clone());
                        let e = to_ext(&r.ext_vals);
                        (l.clone() * r.scalar).to_vec() == r.vals.iter().map(|x| *x * r.scalar).collect::<Vec<_>>()
                            && (e.clone() + &e).to_vec() == r.ext_vals.iter().map(|x| x.double()).collect::<Vec<_>>()
                    }
            }));
            out.sample = Some(json!({"j": j, "k": k, "extended_k": r.ek, "rayon_pool": t}));
            out
        });
    }

    // ---------------- pool-independent part (no rayon on the path): rotations and l_i_range
    let cases: Vec<(String, usize)> = refs.iter().enumerate().map(|(i, r)| (format!("j={}:k={}", r.j, r.k), i)).collect();
    let refs_ref = &refs;
    cx.run_cases("domain-rotation-lagrange-basis", &cases, |i| {
        let r = &refs_ref[*i];
        let (j, k) = (r.j, r.k);
        let n = 1usize << k;
        let ni = n as i32;
        let mut out = CaseOut::batch();
        let dom = match catch(|| EvaluationDomain::<F>::new(j, k)) {
            Ok(d) => d,
            Err(p) => {
                out.viol(Viol::new("domain:new:panic", format!("EvaluationDomain::new({j},{k}) panicked: {p}"), json!({"j": j, "k": k})));
                return out;
            }
        };
        let pts = powers_of(r.omega, n);
        let omega_inv = r.omega.invert().unwrap();
        let x = r.scalar;
        // rotate_omega: x·ω^r, r in -3..=3 and far outside
        let mut rots: Vec<i32> = (-3..=3).collect();
        rots.extend([ni, -ni, ni + 1, -ni - 1, 1000, -1000, i32::MAX, i32::MIN]);
        for rot in &rots {
            let res = catch(|| dom.rotate_omega(x, Rotation(*rot)));
            // naive: repeated multiplication for small |r|, exponent reduced mod n otherwise (ω^n = 1)
            let e = (*rot as i64).rem_euclid(n as i64) as usize;
            let mut expect = x * pts[e];
            if rot.unsigned_abs() <= 3 {
                let mut y = x;
                for _ in 0..rot.unsigned_abs() {
                    y *= if *rot >= 0 { r.omega } else { omega_inv };
                }
                if y != expect {
                    out.counter("reference-self-disagreement", 1);
                }
                expect = y;
            }
            let cls = if rot.unsigned_abs() <= 3 { "|r|<=3" } else { "|r|>3" };
            match res {
                Ok(v) if v == expect => out.eval("rotate_omega:ok", true),
                Ok(v) => {
                    out.eval("rotate_omega:mismatch", true);
                    out.viol(Viol::new(format!("domain:rotate_omega:{cls}:mismatch"), format!("rotate_omega(x, Rotation({rot})) != x·ω^{rot} for k={k}"), json!({"j": j, "k": k, "rotation": rot, "x": fhex(&x), "got": fhex(&v), "expected": fhex(&expect)})));
                }
                Err(p) => {
                    out.eval("rotate_omega:panic", true);
                    out.viol(Viol::new(format!("domain:rotate_omega:{cls}:panic"), format!("rotate_omega(x, Rotation({rot})) panicked for k={k}: {p}"), json!({"j": j, "k": k, "rotation": rot, "x": fhex(&x)})));
                }
            }
        }
        // Polynomial::<LagrangeCoeff>::rotate: values move by r positions and the interpolant becomes p(X·ω^r)
        for rot in -3i32..=3 {
            let res = catch(|| {
                let l = dom.lagrange_from_vec(r.vals.clone());
                let rotated = l.rotate(Rotation(rot));
                let idx_ok = (0..n).all(|i| rotated[i] == r.vals[(i as i64 + rot as i64).rem_euclid(n as i64) as usize]);
                let c = dom.lagrange_to_coeff(rotated);
                let xr = dom.rotate_omega(x, Rotation(rot));
                idx_ok && horner(&c, x) == horner(&r.coeffs, x * pts[(rot as i64).rem_euclid(n as i64) as usize]) && xr == x * pts[(rot as i64).rem_euclid(n as i64) as usize]
            });
            let cls = if rot.unsigned_abs() as usize > n { "|rot|>n" } else { "|rot|<=n" };
            match res {
                Ok(true) => out.eval("lagrange-rotate:ok", true),
                Ok(false) => {
                    out.eval("lagrange-rotate:mismatch", true);
                    out.viol(Viol::new(format!("poly:rotate:{cls}:mismatch"), format!("Polynomial::rotate(Rotation({rot})) is not p(X·ω^{rot}) on the domain of size 2^{k}"), json!({"j": j, "k": k, "rotation": rot})));
                }
                Err(p) => {
                    out.eval("lagrange-rotate:panic", true);
                    out.viol(Viol::new(format!("poly:rotate:{cls}:panic"), format!("Polynomial::<_, LagrangeCoeff>::rotate(Rotation({rot})) panicked on the domain of size n=2^{k}={n} (Vec::rotate_left/right needs mid <= len): {p}"), json!({"j": j, "k": k, "n": n, "rotation": rot, "note": "low severity: only reachable when |rotation| > n; rotate_omega and l_i_range accept the same rotation"})));
                }
            }
        }
        // l_i_range on ranges with negative and >= n indices, at points off the domain
        let xs: Vec<(&str, F)> = vec![("seeded", x), ("0", F::ZERO), ("2", F::from(2u64)), ("zeta", F::ZETA), ("-1·zeta", -F::ZETA)];
        // the product formula is O(n) per index: cap the number of evaluation points for large n
        let xs = if k > 8 { xs[..2].to_vec() } else { xs };
        let ranges: Vec<(&str, Vec<i32>)> = vec![
            ("-3..=3", (-3..=3).collect()),
            ("0..n", (0..ni).collect()),
            ("-(n+2)..=2n+1", (-(ni + 2)..=2 * ni + 1).collect()),
            ("-2n..0", (-2 * ni..0).collect()),
            ("[n]", vec![ni]),
            ("[-1]", vec![-1]),
            ("[]", vec![]),
            ("unordered-with-repeats", vec![5, -7, 5, ni, 0, -ni - 1, 3 * ni + 2]),
        ];
        for (xn_name, xv) in &xs {
            let basis: Vec<F> = (0..n).map(|i| lagrange_basis_at(&pts, i, *xv)).collect();
            // Σ l_i(x) = 1 (partition of unity) — sanity of the reference itself
            if basis.iter().fold(F::ZERO, |a, b| a + *b) != F::ONE {
                out.counter("reference-self-disagreement", 1);
            }
            let xn = xv.pow_vartime([n as u64]);
            for (rname, range) in &ranges {
                let res = catch(|| dom.l_i_range(*xv, xn, range.clone()));
                let expect: Vec<F> = range.iter().map(|i| basis[(*i as i64).rem_euclid(n as i64) as usize]).collect();
                let detail = json!({"j": j, "k": k, "x": fhex(xv), "x_name": xn_name, "range": rname});
                match res {
                    Ok(v) if v == expect => out.eval("l_i_range:ok", !range.is_empty()),
                    Ok(_) => {
                        out.eval("l_i_range:mismatch", true);
                        out.viol(Viol::new(format!("domain:l_i_range:{rname}:mismatch"), format!("l_i_range(x, x^n, {rname}) differs from Π(x−ω^m)/(ω^i−ω^m) for k={k}, x={xn_name}"), detail));
                    }
                    Err(p) => {
                        out.eval("l_i_range:panic", true);
                        let mut d = detail;
                        d["panic"] = json!(p);
                        out.viol(Viol::new(format!("domain:l_i_range:{rname}:panic"), format!("l_i_range(x, x^n, {rname}) panicked for k={k}, x={xn_name}: {p}"), d));
                    }
                }
            }
        }
        // observation (outside the barycentric formula's precondition x ∉ domain): x = ω
        if let Ok(v) = catch(|| dom.l_i_range(r.omega, F::ONE, 0..2)) {
            let truth = [F::ZERO, F::ONE];
            out.counter(if v == truth { "observation:l_i_range-at-domain-point:exact" } else { "observation:l_i_range-at-domain-point:zero-instead-of-one" }, 1);
        }
        let _ = F::NUM_BITS;
        out.sample = Some(json!({"j": j, "k": k, "rotations": rots, "l_i_ranges": ranges.iter().map(|r| r.0).collect::<Vec<_>>(), "points": xs.iter().map(|x| x.0).collect::<Vec<_>>()}));
        out
    });
    let obs = cx.counter_value("observation:l_i_range-at-domain-point:zero-instead-of-one");
    if obs > 0 {
        cx.note(format!("observation (not a violation; outside the barycentric formula's precondition): l_i_range(x = ω, xn = 1, 0..2) returns [0, 0] although l_1(ω) = 1, in {obs} domains — the formula (xⁿ−1)/(x−ωⁱ) is 0/0 on domain points and batch inversion maps 0 to 0"));
    }
}
