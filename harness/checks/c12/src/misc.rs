//! kate_division, lagrange_interpolate, eval_polynomial, compute_inner_product, g_to_lagrange and
//! `Rational` arithmetic against their naive definitions.

use ff::{Field, PrimeField};
use group::Group;
use midnight_curves::{Fq as F, G1Projective};
use midnight_proofs::utils::{
    arithmetic::{compute_inner_product, eval_polynomial, g_to_lagrange, kate_division, lagrange_interpolate},
    rational::Rational,
};
use serde_json::json;
use vcore::{rng_for, CaseOut, Ctx, Viol};

use crate::util::pcatch as catch;

use crate::util::{eval_by_powers, fhex, fhexs, horner, len_class, omega_for, powers_of, seeded_vec, GPool, MIXED_POOL_WORKERS, POOLS_ALL};

fn poly_patterns(seed: u64, tag: &str, n: usize) -> Vec<(&'static str, Vec<F>)> {
    let mut rng = rng_for(seed, &format!("c12-poly-{tag}-{n}"));
    let mut v = vec![("seeded", seeded_vec::<F>(&mut rng, n)), ("zero", vec![F::ZERO; n])];
    if n > 0 {
        let mut d = vec![F::ZERO; n];
        d[n - 1] = F::ONE;
        v.push(("monomial-top", d));
        v.push(("all-minus-one", vec![-F::ONE; n]));
    }
    v
}

fn points(seed: u64, tag: &str) -> Vec<(&'static str, F)> {
    let mut rng = rng_for(seed, &format!("c12-points-{tag}"));
    vec![("0", F::ZERO), ("1", F::ONE), ("-1", -F::ONE), ("2", F::from(2u64)), ("seeded", F::random(&mut rng))]
}

fn eval_polynomial_cases(cx: &mut Ctx) {
    let seed = cx.seed;
    let mut lens: Vec<usize> = (0..=70).collect();
    lens.extend([127, 128, 129, 1000, 4096]);
    // the reference itself: Horner == explicit powers
    {
        let p = &poly_patterns(seed, "selfcheck", 9)[0].1;
        let x = points(seed, "selfcheck")[4].1;
        cx.require(horner(p, x) == eval_by_powers(p, x), "horner != Σ cᵢxⁱ");
    }
    // pool 32 makes the `2n < threads` branch reach n = 15
    let mut pools = POOLS_ALL.to_vec();
    pools.push(32);
    {
        let mut cases: Vec<(String, (usize, usize))> = vec![];
        for n in &lens {
            for t in &pools {
                cases.push((format!("len={n}:pool={t}"), (*t, *n)));
            }
        }
        cx.run_cases_with("eval_polynomial", &cases, MIXED_POOL_WORKERS, |(t, n)| {
            let (t, n) = (*t, *n);
            let mut out = CaseOut::batch();
            let gp = GPool::new(t);
            let seen = gp.observed_threads();
            out.counter(&format!("pool-size-observed:{seen}"), 1);
            if seen != t {
                out.counter("pool-size-mismatch", 1);
            }
            let serial = n * 2 < t;
            out.counter(if serial { "eval_polynomial:serial-branch" } else { "eval_polynomial:chunked-branch" }, 1);
            for (pname, p) in poly_patterns(seed, "evalpoly", n) {
                for (xname, x) in points(seed, "evalpoly") {
                    let expect = horner(&p, x);
                    let res = gp.run(|| eval_polynomial(&p, x));
                    let nontrivial = n >= 2 && pname != "zero";
                    let detail = json!({"len": n, "rayon_pool": t, "poly": pname, "point": fhex(&x), "point_name": xname, "coeffs(first 8)": fhexs(&p, 8),
                        "regenerate": format!("ChaCha20 stream 'c12-poly-evalpoly-{n}' (VERIF_SEED={seed})")});
                    match res {
                        Ok(v) if v == expect => out.eval(if serial { "serial:ok" } else { "chunked:ok" }, nontrivial),
                        Ok(v) => {
                            out.eval("mismatch", nontrivial);
                            let mut d = detail;
                            d["got"] = json!(fhex(&v));
                            d["expected"] = json!(fhex(&expect));
                            out.viol(Viol::new(format!("eval_polynomial:{pname}:{}:mismatch", len_class(n)), format!("eval_polynomial differs from Horner: len {n}, poly {pname}, x={xname}, rayon pool {t}"), d));
                        }
                        Err(pm) => {
                            out.eval("panic", nontrivial);
                            let mut d = detail;
                            d["panic"] = json!(pm);
                            out.viol(Viol::new(format!("eval_polynomial:{pname}:{}:panic", len_class(n)), format!("eval_polynomial panicked: len {n}, poly {pname}, x={xname}, rayon pool {t}: {pm}"), d));
                        }
                    }
                }
            }
            out.sample = Some(json!({"len": n, "rayon_pool": t, "branch": if serial { "2n < threads: plain Horner" } else { "chunked" }}));
            out
        });
    }
}

fn kate_division_cases(cx: &mut Ctx) {
    let seed = cx.seed;
    let cases: Vec<(String, usize)> = (1..=70usize).chain([128, 257, 1024]).map(|n| (format!("len={n}"), n)).collect();
    cx.run_cases("kate_division", &cases, |n| {
        let n = *n;
        let mut out = CaseOut::batch();
        for (pname, a) in poly_patterns(seed, "kate", n) {
            for (zname, z) in points(seed, "kate") {
                // (1) arbitrary a: q·(X−z) + a(z) = a, |q| = |a|−1 (the quotient of schoolbook division is unique)
                // (2) exact multiple a' = a − a(z): the same q, remainder 0
                let az = horner(&a, z);
                let mut a_exact = a.clone();
                a_exact[0] -= az;
                for (variant, input) in [("general", &a), ("exact-multiple", &a_exact)] {
                    let res = catch(|| kate_division(input.iter(), z));
                    let rem = if variant == "general" { az } else { F::ZERO };
                    let nontrivial = n >= 2 && pname != "zero";
                    let detail = json!({"len": n, "poly": pname, "variant": variant, "z": fhex(&z), "z_name": zname, "coeffs(first 8)": fhexs(input, 8),
                        "regenerate": format!("ChaCha20 stream 'c12-poly-kate-{n}' (VERIF_SEED={seed})")});
                    match res {
                        Ok(q) => {
                            // multiply back: (q·(X−z))_i = q_{i−1} − z·q_i
                            let mut back = vec![F::ZERO; n];
                            let ok_len = q.len() == n - 1;
                            if ok_len {
                                for i in 0..n {
                                    let hi = if i >= 1 { q[i - 1] } else { F::ZERO };
                                    let lo = if i < n - 1 { q[i] } else { F::ZERO };
                                    back[i] = hi - z * lo;
                                }
                                back[0] += rem;
                            }
                            if ok_len && back == *input {
                                out.eval(&format!("{variant}:ok"), nontrivial);
                            } else {
                                out.eval(&format!("{variant}:mismatch"), nontrivial);
                                out.viol(Viol::new(format!("kate_division:{variant}:{}:mismatch", len_class(n)), format!("kate_division(a, z)·(X−z) + a(z) != a: len {n}, poly {pname}, z={zname}"), detail));
                            }
                        }
                        Err(p) => {
                            out.eval(&format!("{variant}:panic"), nontrivial);
                            let mut d = detail;
                            d["panic"] = json!(p);
                            out.viol(Viol::new(format!("kate_division:{variant}:{}:panic", len_class(n)), format!("kate_division panicked: len {n}, poly {pname}, z={zname}: {p}"), d));
                        }
                    }
                }
            }
        }
        out.sample = Some(json!({"len": n, "z": ["0", "1", "-1", "2", "seeded"], "polys": ["seeded", "zero", "monomial-top", "all-minus-one"]}));
        out
    });
    // observation only: the empty coefficient vector (no quotient length is defined for it)
    let r = catch(|| kate_division(Vec::<F>::new().iter(), F::ONE));
    cx.note(format!(
        "observation (not counted as a violation: `a.len() - 1` coefficients are promised, which is undefined for an empty slice): kate_division(&[], 1) {}",
        match r {
            Ok(q) => format!("returns a vector of length {}", q.len()),
            Err(p) => format!("panics: {p}"),
        }
    ));
}

fn lagrange_interpolate_cases(cx: &mut Ctx) {
    let seed = cx.seed;
    let mut rng = rng_for(seed, "c12-interp");
    let w8: F = omega_for(3);
    let sets: Vec<(&'static str, Vec<F>)> = vec![
        ("seeded", seeded_vec(&mut rng, 6)),
        ("0,1,2,…", (0..6u64).map(F::from).collect()),
        ("roots-of-unity", powers_of(w8, 6)),
        ("-1,0,1,seeded…", vec![-F::ONE, F::ZERO, F::ONE, F::random(&mut rng), F::random(&mut rng), F::random(&mut rng)]),
    ];
    let evsets: Vec<(&'static str, Vec<F>)> = vec![
        ("seeded", seeded_vec(&mut rng, 6)),
        ("zero", vec![F::ZERO; 6]),
        ("ones", vec![F::ONE; 6]),
        ("delta-last", (0..6).map(|i| if i == 5 { F::ONE } else { F::ZERO }).collect()),
    ];
    let mut cases = vec![];
    for m in 0..=6usize {
        for (pn, p) in &sets {
            cases.push((format!("points={m}:{pn}"), (m, *pn, p[..m].to_vec())));
        }
    }
    let evsets = &evsets;
    cx.run_cases("lagrange_interpolate", &cases, |(m, pn, pts)| {
        let m = *m;
        let mut out = CaseOut::batch();
        for (en, ev) in evsets.iter() {
            let ev = &ev[..m];
            let res = catch(|| lagrange_interpolate(pts, ev));
            let detail = json!({"points": fhexs(pts, 6), "evals": fhexs(ev, 6), "point_set": pn, "eval_set": en});
            match res {
                Ok(c) => {
                    // degree < m and passes through all m points: the interpolant is unique
                    let ok = c.len() == m && pts.iter().zip(ev.iter()).all(|(x, y)| horner(&c, *x) == *y)
                        // a constant data set must give a constant polynomial
                        && (*en != "ones" || m == 0 || (c[0] == F::ONE && c[1..].iter().all(|x| *x == F::ZERO)));
                    out.eval(if ok { "ok" } else { "mismatch" }, m >= 2 && *en != "zero");
                    if !ok {
                        out.viol(Viol::new(format!("lagrange_interpolate:points={m}:mismatch"), format!("lagrange_interpolate on {m} points ({pn}/{en}) does not pass through the data or has the wrong length"), detail));
                    }
                }
                Err(p) => {
                    out.eval("panic", m >= 2);
                    let mut d = detail;
                    d["panic"] = json!(p);
                    out.viol(Viol::new(format!("lagrange_interpolate:points={m}:panic"), format!("lagrange_interpolate on {m} distinct points ({pn}/{en}) panicked: {p}"), d));
                }
            }
        }
        out.sample = Some(json!({"points": m, "point_set": pn}));
        out
    });
}

fn inner_product_cases(cx: &mut Ctx) {
    let seed = cx.seed;
    let cases: Vec<(String, usize)> = (0..=70usize).chain([1000]).map(|n| (format!("len={n}"), n)).collect();
    cx.run_cases("compute_inner_product", &cases, |n| {
        let n = *n;
        let mut out = CaseOut::batch();
        let pats = poly_patterns(seed, "ip-a", n);
        let patsb = poly_patterns(seed, "ip-b", n);
        for (an, a) in &pats {
            for (bn, b) in &patsb {
                let mut expect = F::ZERO;
                for i in 0..n {
                    expect += a[i] * b[i];
                }
                match catch(|| compute_inner_product(a, b)) {
                    Ok(v) if v == expect => out.eval("ok", n >= 2 && *an != "zero" && *bn != "zero"),
                    Ok(_) => {
                        out.eval("mismatch", true);
                        out.viol(Viol::new(format!("compute_inner_product:{}:mismatch", len_class(n)), format!("compute_inner_product != Σ aᵢbᵢ (len {n}, {an}/{bn})"), json!({"len": n, "a": an, "b": bn})));
                    }
                    Err(p) => {
                        out.eval("panic", true);
                        out.viol(Viol::new(format!("compute_inner_product:{}:panic", len_class(n)), format!("compute_inner_product panicked (len {n}, {an}/{bn}): {p}"), json!({"len": n, "a": an, "b": bn})));
                    }
                }
            }
        }
        out
    });
}

fn g_to_lagrange_cases(cx: &mut Ctx) {
    let seed = cx.seed;
    let kmax: u32 = cx.tier.pick(8, 10);
    // bases g_j = c_j·G with known c_j; expected[i] = ((1/n) Σ_j ω^(−ij) c_j)·G, i.e. the inverse DFT in the
    // exponent; for c_j = s^j this is L_i(s)·G, checked against the product formula for small n.
    struct R {
        k: u32,
        inputs: Vec<(&'static str, Vec<G1Projective>, Vec<G1Projective>)>,
        selfcheck_ok: bool,
    }
    let g = G1Projective::generator();
    let refs: Vec<R> = (0..=kmax)
        .map(|k| {
            let n = 1usize << k;
            let w: F = omega_for(k);
            let winv = w.invert().unwrap();
            let pw = powers_of(winv, n);
            let n_inv = F::from(n as u64).invert().unwrap();
            let mut rng = rng_for(seed, &format!("c12-g2l-{k}"));
            let s = F::random(&mut rng);
            let srs = powers_of(s, n);
            let mut with_identity = seeded_vec::<F>(&mut rng, n);
            with_identity[n / 2] = F::ZERO;
            let mut selfcheck_ok = true;
            let inputs = vec![("powers-of-s", srs), ("seeded-with-identity", with_identity)]
                .into_iter()
                .map(|(nm, c)| {
                    let e: Vec<F> = (0..n)
                        .map(|i| {
                            let mut acc = F::ZERO;
                            for j in 0..n {
                                acc += c[j] * pw[(i * j) % n];
                            }
                            acc * n_inv
                        })
                        .collect();
                    if nm == "powers-of-s" && k <= 4 {
                        // Lagrange basis polynomial by the product formula
                        let pts = powers_of(w, n);
                        for i in 0..n {
                            let mut num = F::ONE;
                            let mut den = F::ONE;
                            for m in 0..n {
                                if m != i {
                                    num *= s - pts[m];
                                    den *= pts[i] - pts[m];
                                }
                            }
                            selfcheck_ok &= num * den.invert().unwrap() == e[i];
                        }
                    }
                    (nm, c.iter().map(|x| g * *x).collect(), e.iter().map(|x| g * *x).collect())
                })
                .collect();
            R { k, inputs, selfcheck_ok }
        })
        .collect();
    cx.require(refs.iter().all(|r| r.selfcheck_ok), "g_to_lagrange reference: inverse DFT of the powers of s is not L_i(s)");
    {
        let mut cases: Vec<(String, (usize, usize))> = vec![];
        for k in 0..=kmax as usize {
            for t in POOLS_ALL {
                cases.push((format!("k={k}:pool={t}"), (t, k)));
            }
        }
        let refs = &refs;
        cx.run_cases_with("g_to_lagrange", &cases, MIXED_POOL_WORKERS, |(t, k)| {
            let t = *t;
            let r = &refs[*k];
            let mut out = CaseOut::batch();
            let gp = GPool::new(t);
            let seen = gp.observed_threads();
            out.counter(&format!("pool-size-observed:{seen}"), 1);
            if seen != t {
                out.counter("pool-size-mismatch", 1);
            }
            for (nm, gin, gexp) in &r.inputs {
                match gp.run(|| g_to_lagrange(gin, r.k)) {
                    Ok(v) if v == *gexp => out.eval("ok", r.k >= 1),
                    Ok(_) => {
                        out.eval("mismatch", true);
                        out.viol(Viol::new("g_to_lagrange:mismatch", format!("g_to_lagrange(k={}) differs from the inverse DFT in the exponent (input {nm}, rayon pool {t})", r.k), json!({"k": r.k, "input": nm, "rayon_pool": t})));
                    }
                    Err(p) => {
                        out.eval("panic", true);
                        out.viol(Viol::new("g_to_lagrange:panic", format!("g_to_lagrange(k={}) panicked (input {nm}, rayon pool {t}): {p}", r.k), json!({"k": r.k, "input": nm, "rayon_pool": t})));
                    }
                }
            }
            out.sample = Some(json!({"k": r.k, "rayon_pool": t, "inputs": ["powers-of-s", "seeded-with-identity"]}));
            out
        });
    }
}

/// The value a `Rational` stands for: n·inv0(d), with inv0(0) = 0 as documented.
fn rat_value(r: &Rational<F>) -> F {
    match r {
        Rational::Zero => F::ZERO,
        Rational::Trivial(x) => *x,
        Rational::Rational(n, d) => {
            if *d == F::ZERO {
                F::ZERO
            } else {
                // inverse by Fermat (independent of `invert`)
                let mut e = (-F::ONE).to_repr();
                // p − 1 − 1 = p − 2: subtract one from the little-endian representation of p − 1
                let bytes = e.as_mut();
                let mut i = 0;
                loop {
                    if bytes[i] > 0 {
                        bytes[i] -= 1;
                        break;
                    }
                    bytes[i] = 0xff;
                    i += 1;
                }
                let mut limbs = [0u64; 4];
                for (j, l) in limbs.iter_mut().enumerate() {
                    *l = u64::from_le_bytes(bytes[8 * j..8 * j + 8].try_into().unwrap());
                }
                *n * d.pow_vartime(limbs)
            }
        }
    }
}

fn rational_cases(cx: &mut Ctx) {
    let mut rng = cx.rng("c12-rational");
    let a = F::random(&mut rng);
    let b = F::random(&mut rng);
    let c = F::random(&mut rng);
    let alpha: Vec<(String, Rational<F>)> = vec![
        ("Zero".into(), Rational::Zero),
        ("T(0)".into(), Rational::Trivial(F::ZERO)),
        ("T(1)".into(), Rational::Trivial(F::ONE)),
        ("T(-1)".into(), Rational::Trivial(-F::ONE)),
        ("T(a)".into(), Rational::Trivial(a)),
        ("R(0,1)".into(), Rational::Rational(F::ZERO, F::ONE)),
        ("R(1,0)".into(), Rational::Rational(F::ONE, F::ZERO)),
        ("R(0,0)".into(), Rational::Rational(F::ZERO, F::ZERO)),
        ("R(a,0)".into(), Rational::Rational(a, F::ZERO)),
        ("R(0,b)".into(), Rational::Rational(F::ZERO, b)),
        ("R(a,1)".into(), Rational::Rational(a, F::ONE)),
        ("R(a,b)".into(), Rational::Rational(a, b)),
        ("R(b,a)".into(), Rational::Rational(b, a)),
        ("R(c,b)".into(), Rational::Rational(c, b)),
        ("R(ab,b)".into(), Rational::Rational(a * b, b)),
        ("R(1,2)".into(), Rational::Rational(F::ONE, F::from(2u64))),
        ("R(-a,-b)".into(), Rational::Rational(-a, -b)),
    ];
    // reference self-check: Fermat inverse really inverts
    cx.require(rat_value(&Rational::Rational(F::ONE, b)) * b == F::ONE, "Fermat inverse is not an inverse");
    let inv0 = |x: F| if x == F::ZERO { F::ZERO } else { rat_value(&Rational::Rational(F::ONE, x)) };
    let mut cases = vec![];
    for (xn, x) in &alpha {
        for (yn, y) in &alpha {
            cases.push((format!("{xn}|{yn}"), (xn.clone(), *x, yn.clone(), *y)));
        }
    }
    cx.run_cases("rational", &cases, |(xn, x, yn, y)| {
        let mut out = CaseOut::batch();
        let (vx, vy) = (rat_value(x), rat_value(y));
        let nontrivial = vx != F::ZERO && vy != F::ZERO;
        let r = catch(|| {
            let mut fails: Vec<&'static str> = vec![];
            let mut t = |name: &'static str, got: F, want: F| {
                if got != want {
                    fails.push(name);
                }
            };
            t("add", (*x + *y).evaluate(), vx + vy);
            t("add-ref", (x + y).evaluate(), vx + vy);
            t("add-field", (*x + vy).evaluate(), vx + vy);
            t("sub", (*x - *y).evaluate(), vx - vy);
            t("sub-ref", (x - y).evaluate(), vx - vy);
            t("sub-field", (*x - vy).evaluate(), vx - vy);
            t("mul", (*x * *y).evaluate(), vx * vy);
            t("mul-ref", (*x * y).evaluate(), vx * vy);
            t("mul-field", (*x * vy).evaluate(), vx * vy);
            t("neg", (-*x).evaluate(), -vx);
            t("neg-ref", (-x).evaluate(), -vx);
            t("double", x.double().evaluate(), vx + vx);
            t("square", x.square().evaluate(), vx * vx);
            t("cube", x.cube().evaluate(), vx * vx * vx);
            t("invert", x.invert().evaluate(), inv0(vx));
            t("invert-invert", x.invert().invert().evaluate(), vx);
            t("evaluate", x.evaluate(), vx);
            let mut acc = *x;
            acc += *y;
            t("add-assign", acc.evaluate(), vx + vy);
            acc -= *y;
            t("sub-assign", acc.evaluate(), vx);
            acc *= *y;
            t("mul-assign", acc.evaluate(), vx * vy);
            let mut acc2 = *x;
            acc2 += y;
            acc2 -= y;
            acc2 *= y;
            t("assign-ref", acc2.evaluate(), vx * vy);
            if (x == y) != (vx == vy) {
                fails.push("eq");
            }
            if x.is_zero_vartime() != (vx == F::ZERO) {
                fails.push("is_zero_vartime");
            }
            // numerator/denominator describe the same value
            let nd = match x.denominator() {
                None => x.numerator(),
                Some(d) => x.numerator() * inv0(d),
            };
            if nd != vx {
                fails.push("numerator/denominator");
            }
            // From conversions
            if Rational::from(vx).evaluate() != vx || Rational::from(&vx).evaluate() != vx || Rational::from((vx, vy)).evaluate() != vx * inv0(vy) || Rational::from(x).evaluate() != vx {
                fails.push("from");
            }
            fails
        });
        match r {
            Ok(fails) if fails.is_empty() => out.eval("ok", nontrivial),
            Ok(fails) => {
                out.eval("mismatch", nontrivial);
                for f in fails {
                    out.viol(Viol::new(format!("rational:{f}:mismatch"), format!("Rational {f} does not commute with evaluation (inv0 convention) on x={xn}, y={yn}"), json!({"x": xn, "y": yn, "a,b,c from": "ChaCha20 stream 'c12-rational'"})));
                }
            }
            Err(p) => {
                out.eval("panic", nontrivial);
                out.viol(Viol::new("rational:panic", format!("Rational arithmetic panicked on x={xn}, y={yn}: {p}"), json!({"x": xn, "y": yn})));
            }
        }
        out.sample = Some(json!({"x": xn, "y": yn}));
        out
    });
}

pub fn run(cx: &mut Ctx) {
    eval_polynomial_cases(cx);
    kate_division_cases(cx);
    lagrange_interpolate_cases(cx);
    inner_product_cases(cx);
    g_to_lagrange_cases(cx);
    rational_cases(cx);
}
