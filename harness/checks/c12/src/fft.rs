//! FFT entry points (`best_fft`, `recursive_butterfly_arithmetic`) against the O(n²) DFT computed
//! with the same ω, over the scalar field and over the group.

use ff::PrimeField;
use group::Group;
use midnight_curves::fft::{best_fft, recursive_butterfly_arithmetic, FftGroup};
use rayon::prelude::*;
use serde_json::json;
use vcore::{rng_for, CaseOut, Ctx, Viol};

use crate::util::{fhexs, has_order_pow2, omega_for, powers_of, seeded_vec, GPool, MIXED_POOL_WORKERS, POOLS_ALL};

/// X_j = Σ_i a_i ω^(ij), by definition (ω^n = 1 is checked by the caller, exponents are reduced mod n).
fn dft<F: PrimeField>(a: &[F], pw: &[F]) -> Vec<F> {
    let n = a.len();
    (0..n)
        .map(|j| {
            let mut acc = F::ZERO;
            for (i, ai) in a.iter().enumerate() {
                acc += *ai * pw[(i * j) % n];
            }
            acc
        })
        .collect()
}

fn bitrev(mut x: usize, bits: u32) -> usize {
    let mut r = 0;
    for _ in 0..bits {
        r = (r << 1) | (x & 1);
        x >>= 1;
    }
    r
}

struct FftRef<F, G> {
    k: u32,
    omega: F,
    inputs: Vec<(&'static str, Vec<F>, Vec<F>)>, // (name, a, DFT(a))
    /// group inputs c_i·G and expected (DFT c)_j·G, only up to the group size limit
    ginputs: Option<Vec<(Vec<G>, Vec<G>)>>,
}

pub fn run<F, G>(cx: &mut Ctx, name: &'static str, primary: bool)
where
    F: PrimeField,
    G: Group<Scalar = F> + FftGroup<F> + group::GroupEncoding,
{
    let thorough = cx.tier.is_thorough();
    let kmax: u32 = cx.tier.pick(10, 12);
    // group FFT is n·log n/2 scalar multiplications; the secondary curve stops earlier in quick
    let gkmax: u32 = if primary { cx.tier.pick(10, 12) } else { cx.tier.pick(6, 10) };
    if !primary && !thorough {
        cx.note(format!("fft-{name}: group FFT limited to k <= {gkmax} in the quick tier (scalar FFT runs k = 0..={kmax})"));
    }
    let seed = cx.seed;

    // ---- references, shared by all pools
    let refs: Vec<FftRef<F, G>> = (0..=kmax)
        .into_par_iter()
        .map(|k| {
            let n = 1usize << k;
            let omega: F = omega_for(k);
            let pw = powers_of(omega, n);
            let mut rng = rng_for(seed, &format!("c12-fft-{name}-{k}"));
            let mut d0 = vec![F::ZERO; n];
            d0[0] = F::ONE;
            let mut dl = vec![F::ZERO; n];
            dl[n - 1] = F::ONE;
            let raw: Vec<(&'static str, Vec<F>)> = vec![
                ("delta0", d0),
                ("delta-last", dl),
                ("ones", vec![F::ONE; n]),
                ("seeded", seeded_vec(&mut rng, n)),
            ];
            let inputs: Vec<(&'static str, Vec<F>, Vec<F>)> =
                raw.into_iter().map(|(nm, a)| { let d = dft(&a, &pw); (nm, a, d) }).collect();
            let ginputs = if k <= gkmax {
                let g = G::generator();
                Some(inputs.iter().map(|(_, a, d)| (a.iter().map(|c| g * *c).collect(), d.iter().map(|c| g * *c).collect())).collect())
            } else {
                None
            };
            FftRef { k, omega, inputs, ginputs }
        })
        .collect();

    // ---- self-checks of the reference (independent of the subject)
    for r in &refs {
        cx.require(has_order_pow2(r.omega, r.k), &format!("fft-{name}: omega for k={} does not have order 2^k", r.k));
        if r.k <= 3 {
            // DFT with explicit exponentiation (no table, no reduction of exponents)
            let n = 1usize << r.k;
            for (_, a, d) in &r.inputs {
                for j in 0..n {
                    let mut acc = F::ZERO;
                    for i in 0..n {
                        acc += a[i] * r.omega.pow_vartime([(i * j) as u64]);
                    }
                    cx.require(acc == d[j], &format!("fft-{name}: table DFT != explicit-power DFT (k={})", r.k));
                }
            }
        }
        // δ0 → all ones ; ones → n·δ0 (closed forms)
        let n = 1usize << r.k;
        cx.require(r.inputs[0].2.iter().all(|x| *x == F::ONE), "DFT(δ0) must be all ones");
        let nf = F::from(n as u64);
        cx.require(r.inputs[2].2[0] == nf && r.inputs[2].2[1..].iter().all(|x| *x == F::ZERO), "DFT(ones) must be n·δ0");
        if let (Some(gi), true) = (&r.ginputs, r.k <= 4) {
            // direct group DFT Σ_i ω^(ij)·g_i for tiny sizes
            let pw = powers_of(r.omega, n);
            for (gin, gexp) in gi {
                for j in 0..n {
                    let mut acc = G::identity();
                    for i in 0..n {
                        acc += gin[i] * pw[(i * j) % n];
                    }
                    cx.require(acc == gexp[j], &format!("fft-{name}: direct group DFT != (DFT c)·G (k={})", r.k));
                }
            }
        }
    }

    {
        // scalar and group transforms are separate cases (the group ones are far longer)
        let mut cases: Vec<(String, (usize, usize, bool))> = vec![];
        for k in 0..=kmax {
            for t in POOLS_ALL {
                cases.push((format!("{name}:k={k}:pool={t}:scalars"), (t, k as usize, false)));
                // quick tier: the large group transforms (always the recursive algorithm) under pools 1 and 16 only
                if k <= gkmax && (thorough || k <= 8 || t == 1 || t == 16) {
                    cases.push((format!("{name}:k={k}:pool={t}:group"), (t, k as usize, true)));
                }
            }
        }
        let refs = &refs;
        cx.run_cases_with(&format!("fft-{name}"), &cases, MIXED_POOL_WORKERS, |(t, k, group_case)| {
            let t = *t;
            let r = &refs[*k];
            let group_case = *group_case;
            let k = r.k;
            let n = 1usize << k;
            let mut out = CaseOut::batch();
            let gp = GPool::new(t);
            let seen = gp.observed_threads();
            out.counter(&format!("pool-size-observed:{seen}"), 1);
            if seen != t {
                out.counter("pool-size-mismatch", 1);
            }
            let iterative = k <= t.ilog2();
            out.counter(if iterative { "fft:algorithm:iterative" } else { "fft:algorithm:recursive" }, 1);
            let omega = r.omega;
            let omega_inv = omega.invert().unwrap();
            let n_inv = F::from(n as u64).invert().unwrap();
            let pfx = if name == "bls12-381" { String::new() } else { format!("{name}:") };
            let fail = |out: &mut CaseOut, entry: &str, dom: &str, input: &str, res: Result<bool, String>, a: &[F]| {
                let detail = json!({"curve": name, "entry": entry, "over": dom, "k": k, "rayon_pool": t, "input": input,
                    "omega": crate::util::fhex(&omega), "input_values(first 8)": fhexs(a, 8)});
                match res {
                    Ok(true) => out.eval(&format!("{entry}[{dom}]:ok"), n >= 2),
                    Ok(false) => {
                        out.eval(&format!("{entry}[{dom}]:mismatch"), n >= 2);
                        out.viol(Viol::new(format!("{pfx}fft:{entry}:{dom}:mismatch"), format!("{entry} over {dom} ({name}) differs from the naive DFT: k={k}, input {input}, rayon pool {t}"), detail));
                    }
                    Err(p) => {
                        out.eval(&format!("{entry}[{dom}]:panic"), n >= 2);
                        let mut d = detail;
                        d["panic"] = json!(p);
                        out.viol(Viol::new(format!("{pfx}fft:{entry}:{dom}:panic"), format!("{entry} over {dom} ({name}) panicked: k={k}, input {input}, rayon pool {t}: {p}"), d));
                    }
                }
            };
            for (idx, (iname, a, d)) in r.inputs.iter().enumerate() {
                if group_case {
                    let (gin, gexp) = &r.ginputs.as_ref().expect("group case without group reference")[idx];
                    let res = gp.run(|| {
                        let mut x = gin.clone();
                        best_fft(&mut x, omega, k);
                        x
                    });
                    let fwd = res.as_ref().ok().cloned();
                    fail(&mut out, "best_fft", "group", iname, res.map(|x| x == *gexp), a);
                    if let Some(y) = fwd {
                        let res = gp.run(|| {
                            let mut z = y.clone();
                            best_fft(&mut z, omega_inv, k);
                            z.iter_mut().for_each(|v| *v *= n_inv);
                            z
                        });
                        fail(&mut out, "best_fft-inverse", "group", iname, res.map(|z| z == *gin), a);
                    }
                    continue;
                }
                // forward
                let res = gp.run(|| {
                    let mut x = a.clone();
                    best_fft(&mut x, omega, k);
                    x
                });
                let fwd = res.as_ref().ok().cloned();
                fail(&mut out, "best_fft", "scalars", iname, res.map(|x| x == *d), a);
                // inverse round trip with the documented 1/n scaling
                if let Some(y) = fwd {
                    let res = gp.run(|| {
                        let mut z = y.clone();
                        best_fft(&mut z, omega_inv, k);
                        z.iter_mut().for_each(|v| *v *= n_inv);
                        z
                    });
                    fail(&mut out, "best_fft-inverse", "scalars", iname, res.map(|z| z == *a), a);
                }
                // the recursive kernel called directly (needs n >= 2, bit-reversed input, n/2 twiddles)
                if k >= 1 {
                    let res = gp.run(|| {
                        let mut x = a.clone();
                        for i in 0..n {
                            let ri = bitrev(i, k);
                            if i < ri {
                                x.swap(i, ri);
                            }
                        }
                        let tw = powers_of(omega, n / 2);
                        recursive_butterfly_arithmetic(&mut x, n, 1, &tw);
                        x
                    });
                    fail(&mut out, "recursive_butterfly_arithmetic", "scalars", iname, res.map(|x| x == *d), a);
                }
            }
            out.sample = Some(json!({"curve": name, "k": k, "rayon_pool": t, "algorithm": if iterative { "iterative (log_n <= log2 threads)" } else { "recursive" },
                "inputs": ["delta0", "delta-last", "ones", "seeded"], "over": if group_case { "group (inputs cᵢ·G)" } else { "scalars" }}));
            out
        });
    }
}
