//! C12 — MSM, FFT and the evaluation-domain algebra equal their naive definitions.
//!
//! Level: exploration. The "schedule" dimension is (rayon pool size x input length): the only
//! schedule-dependent input these functions read is `rayon::current_num_threads()`.

mod domain;
mod fft;
mod kzg;
mod misc;
mod msm;
mod util;

use midnight_curves::{bn256, Bls12, Fq, G1Affine, G1Projective, G2Affine, G2Projective};
use midnight_proofs::{
    poly::{
        kzg::msm::{msm_specific, MSMKZG},
        CommitmentLabel,
    },
    utils::arithmetic::MSM,
};
use vcore::{Ctx, Level};

use crate::{
    msm::{generic_entries, Entry, Inst, MsmPlan, PoolClass},
    util::POOLS_ALL,
};

/// Quick tier: patterns kept under the pools of 5 and more threads (chunks handed to msm_serial by
/// msm_parallel are shorter inputs of the same patterns, which pools 1..3 and the shorter lengths cover in full).
const REDUCED_PATTERNS: [&str; 6] = ["random", "max-scalars", "identity-middle", "opposite-same-scalar", "opposite-pairs", "repeated-zero-sum"];

fn bls_g1_entries() -> Vec<Entry<G1Affine>> {
    let mut v = generic_entries::<G1Affine>("");
    v.push(Entry {
        name: "msm_specific".into(),
        reaches_msm_best: false, // BLS12-381 G1 goes to blst's Pippenger up to 2^19 terms
        pool_class: PoolClass::Independent,
        f: Box::new(|i: &Inst<G1Affine>| msm_specific::<G1Affine>(&i.scalars, &i.bases_proj)),
    });
    v.push(Entry {
        name: "g1:multi_exp".into(),
        reaches_msm_best: false,
        pool_class: PoolClass::Independent,
        f: Box::new(|i: &Inst<G1Affine>| G1Projective::multi_exp(&i.bases_proj, &i.scalars)),
    });
    v.push(Entry {
        name: "msmkzg:eval".into(),
        reaches_msm_best: false,
        pool_class: PoolClass::Independent,
        f: Box::new(|i: &Inst<G1Affine>| {
            let mut m = MSMKZG::<Bls12>::init();
            for (s, b) in i.scalars.iter().zip(i.bases_proj.iter()) {
                m.append_term(*s, *b, CommitmentLabel::NoLabel);
            }
            m.eval()
        }),
    });
    v
}

fn bn_g1_entries() -> Vec<Entry<bn256::G1Affine>> {
    let mut v = generic_entries::<bn256::G1Affine>("bn254:");
    v.push(Entry {
        name: "bn254:msm_specific".into(),
        reaches_msm_best: true,
        pool_class: PoolClass::Wrapper,
        f: Box::new(|i: &Inst<bn256::G1Affine>| {
            msm_specific::<bn256::G1Affine>(&i.scalars, &i.bases_proj)
        }),
    });
    v.push(Entry {
        name: "bn254:msmkzg:eval".into(),
        reaches_msm_best: true,
        pool_class: PoolClass::Wrapper,
        f: Box::new(|i: &Inst<bn256::G1Affine>| {
            let mut m = MSMKZG::<bn256::Bn256>::init();
            for (s, b) in i.scalars.iter().zip(i.bases_proj.iter()) {
                m.append_term(*s, *b, CommitmentLabel::NoLabel);
            }
            m.eval()
        }),
    });
    v
}

fn bls_g2_entries() -> Vec<Entry<G2Affine>> {
    let mut v = generic_entries::<G2Affine>("g2:");
    v.push(Entry {
        name: "g2:msm_specific".into(),
        reaches_msm_best: true,
        pool_class: PoolClass::Wrapper,
        f: Box::new(|i: &Inst<G2Affine>| msm_specific::<G2Affine>(&i.scalars, &i.bases_proj)),
    });
    v.push(Entry {
        name: "g2:multi_exp".into(),
        reaches_msm_best: false,
        pool_class: PoolClass::Independent,
        f: Box::new(|i: &Inst<G2Affine>| G2Projective::multi_exp(&i.bases_proj, &i.scalars)),
    });
    v
}

fn main() {
    let mut cx = Ctx::from_args("C12", Level::Exploration);
    util::install_pool_panic_hook();
    vcore::pin_global_rayon(16);
    let thorough = cx.tier.is_thorough();

    cx.set_rule(
        "complete enumeration of (entry point x length x pattern x rayon pool size). \
         MSM (BLS12-381 G1, BN254 G1, BLS12-381 G2; entries msm_serial / msm_parallel / msm_best / msm_specific / \
         MSMKZG::eval / G1Projective::multi_exp / G2Projective::multi_exp): lengths ALL of 0..=70 then \
         {127,128,129,255,256,257,1000,4095,4096}, thorough adds {8103,8104,8200,22027}; x 16 scalar/base patterns \
         (random, zero scalars, one non-zero first/last, r-1, top bit set, small, all ones, identity base \
         first/middle/last/all, equal bases, P/-P same scalar, P/-P pairs, repeated base with scalars summing to 0) \
         x pools {1,2,3,5,8,16}. Entries with no rayon call on their path (msm_serial, blst-backed ones) run under \
         pools {1,16} only. QUICK-TIER SUBSAMPLING (thorough runs the full product): 8104 is added on BLS12-381 G1 \
         with 4 patterns {random, identity-middle, opposite-pairs, equal-bases}; 1000 and 4095 use 7 patterns; lengths \
         >= 1000 use pools {1,2,3,16} (BN254: {1,3,16}, and no 8104); under pools 5, 8, 16 only the 6 patterns {random, \
         max-scalars, identity-middle, opposite-same-scalar, opposite-pairs, repeated-zero-sum}; rayon-free entries \
         under pool 1 only; thin wrappers around msm_best (msm_specific, MSMKZG::eval on BN254 / G2) under pools \
         {1,3}; G2 lengths 0..=36 and {127,128,129,257} under pools {1,3,16}. Reference: (Σ sᵢbᵢ)·G with known \
         seeded dlogs bᵢ (bases Pᵢ = bᵢ·G) for every length and, for lengths <= 70, ALSO the direct naive sum Σ sᵢ·Pᵢ. \
         FFT: k = 0..=10 (thorough 12) x pools x {δ0, δlast, ones, seeded} vs the O(n²) DFT with the same ω, over the \
         scalar field and over G1 (group inputs cᵢ·G, expected (DFT c)ⱼ·G; direct group DFT for n <= 16; quick: G1 \
         transforms of size 2^9, 2^10 under pools {1,16} only, BN254 G1 up to 2^6), inverse round trip with 1/n, \
         recursive_butterfly_arithmetic called directly. EvaluationDomain::new(j,k), j 1..=9 x k 1..=8 (thorough 10) \
         x pools: all conversions vs Horner at ω^i / ζ·ω_ext^i, rotations -3..=3 (and far outside for rotate_omega), \
         l_i_range on ranges with negative and >= n indices vs the product formula, division by X^n-1, Polynomial \
         operators. kate_division (lengths 1..=70, 128, 257, 1024), lagrange_interpolate (0..=6 points), \
         eval_polynomial (all lengths 0..=70 and {127,128,129,1000,4096} x pools {1,2,3,5,8,16,32}), \
         compute_inner_product, g_to_lagrange (k 0..=8/10 x pools), Rational (17-element alphabet squared, all \
         operators), KZG unsafe_setup / commit / commit_lagrange / from_parts / downsize (k 0..=6/8 x pools, and a \
         length sweep on parameters with known dlogs). A case is one (object, size, pool[, entry]); an elementary \
         evaluation is non-trivial when size >= 2 and the scalars are not all zero. Case keys are unique.",
    );
    cx.assume("interleavings within one pool size cannot change results because rayon tasks own disjoint &mut chunks (borrow checker); the schedule dimension is therefore pool size × length");
    cx.assume("projective scalar multiplication and addition (used as the naive definition Σ sᵢ·Pᵢ and to build bases Pᵢ = bᵢ·G) are correct: they are the subject of a different check; here the direct naive sum and the known-dlog reference are cross-checked against each other for every length <= 70");
    cx.assume("blst's Pippenger (G1Projective/G2Projective::multi_exp, msm_specific on BLS12-381 G1, MSMKZG<Bls12>) uses blst's own global thread pool sized by the CPU count; it cannot be resized through the API, so the rayon pool dimension is vacuous for those entries (they are run under pool 1, and pool 16 too in the thorough tier)");
    cx.assume("msm_serial's accumulator argument is the identity on entry (it doubles the accumulator before adding, so any other start value is outside what its callers use)");
    cx.assume("seeded representatives come from VERIF_SEED; the enumeration over lengths, patterns, pools and sizes is complete");

    // ------------------------------------------------------------------ MSM
    let big_lens: Vec<usize> = vec![127, 128, 129, 255, 256, 257, 1000, 4095, 4096];
    let mut lens: Vec<usize> = (0..=70).collect();
    lens.extend(&big_lens);
    if thorough {
        lens.extend([8103, 8104, 8200, 22027]);
    } else {
        lens.push(8104);
    }
    let pools_for = move |n: usize| -> Vec<usize> {
        if !thorough && n >= 1000 {
            vec![1, 2, 3, 16]
        } else {
            POOLS_ALL.to_vec()
        }
    };
    let patterns_for = move |n: usize| -> Option<Vec<&'static str>> {
        if !thorough && n > 4096 {
            Some(vec!["random", "identity-middle", "opposite-pairs", "equal-bases"])
        } else if !thorough && (n == 1000 || n == 4095) {
            Some(vec!["random", "max-scalars", "identity-middle", "equal-bases", "opposite-same-scalar", "opposite-pairs", "repeated-zero-sum"])
        } else {
            None
        }
    };
    let plan_g1 = |curve: &'static str| MsmPlan {
        curve,
        lengths: lens.clone(),
        pools_for: Box::new(pools_for),
        pools_independent_for: Box::new(move |_| if !thorough { vec![1] } else { vec![1, 16] }),
        pools_wrapper_for: Box::new(move |n| if thorough { POOLS_ALL.to_vec() } else if n >= 8104 { vec![1, 16] } else { vec![1, 3] }),
        patterns_for: Box::new(patterns_for),
        patterns_under_pool: Box::new(move |n, t| if !thorough && t >= 5 && n > 0 { Some(REDUCED_PATTERNS.to_vec()) } else { None }),
    };
    msm::run_curve::<G1Affine>(&mut cx, &plan_g1("bls12-381-g1"), &bls_g1_entries());
    // BN254 (development curve, same generic code): in quick no 8104 and pools {1,3,16} from 1000 on
    let mut plan_bn = plan_g1("bn254-g1");
    if !thorough {
        plan_bn.lengths.retain(|n| *n != 8104);
        plan_bn.pools_for = Box::new(|n| if n >= 1000 { vec![1, 3, 16] } else { POOLS_ALL.to_vec() });
    }
    msm::run_curve::<bn256::G1Affine>(&mut cx, &plan_bn, &bn_g1_entries());
    // G2 (generic msm over an extension-field curve + blst's G2 Pippenger): shorter list in quick
    let mut g2_lens: Vec<usize> = (0..=if thorough { 70 } else { 36 }).collect();
    g2_lens.extend(if thorough { big_lens.clone() } else { vec![127, 128, 129, 257] });
    if thorough {
        g2_lens.extend([8103, 8104]);
    }
    let plan_g2 = MsmPlan {
        curve: "bls12-381-g2",
        lengths: g2_lens,
        pools_for: Box::new(move |_| if thorough { POOLS_ALL.to_vec() } else { vec![1, 3, 16] }),
        pools_independent_for: Box::new(move |_| if !thorough { vec![1] } else { vec![1, 16] }),
        pools_wrapper_for: Box::new(move |_| if thorough { POOLS_ALL.to_vec() } else { vec![1, 3] }),
        patterns_for: Box::new(|_| None),
        patterns_under_pool: Box::new(move |n, t| if !thorough && t >= 5 && n > 0 { Some(REDUCED_PATTERNS.to_vec()) } else { None }),
    };
    msm::run_curve::<G2Affine>(&mut cx, &plan_g2, &bls_g2_entries());
    kzg::msmkzg_algebra(&mut cx);

    // ------------------------------------------------------------------ FFT
    fft::run::<Fq, G1Projective>(&mut cx, "bls12-381", true);
    fft::run::<bn256::Fr, bn256::G1>(&mut cx, "bn254", false);

    // ------------------------------------------------------------------ domain algebra and the rest
    domain::run(&mut cx);
    misc::run(&mut cx);
    kzg::commitments(&mut cx);

    // ------------------------------------------------------------------ anti-vacuity
    for t in POOLS_ALL {
        let c = cx.counter_value(&format!("pool-size-observed:{t}"));
        cx.require(c > 0, &format!("no case ran inside a rayon pool of {t} threads"));
    }
    cx.require(cx.counter_value("pool-size-mismatch") == 0, "rayon::current_num_threads() inside a pool differs from the requested size");
    for p in ["opposite-bases", "identity-base", "repeated-base-zero-sum", "max-scalars", "top-bit", "zero-scalars", "equal-bases"] {
        let c = cx.counter_value(&format!("pattern:{p}"));
        cx.require(c > 0, &format!("MSM pattern class {p} was never exercised"));
    }
    cx.require(cx.counter_value("msm-bls12-381-g1:instances-with-direct-naive-sum") >= 71, "direct naive sums were not computed for lengths 0..=70");
    cx.require(cx.counter_value("fft:algorithm:iterative") > 0 && cx.counter_value("fft:algorithm:recursive") > 0, "best_fft: both algorithms (log_n <= log2(threads) and recursive) must be reached");
    cx.require(cx.counter_value("eval_polynomial:serial-branch") > 0 && cx.counter_value("eval_polynomial:chunked-branch") > 0, "eval_polynomial: both branches (2n < threads and chunked) must be reached");
    cx.require(cx.counter_value("reference-self-disagreement") == 0, "the naive references disagree with themselves (domain / KZG groups)");
    let via: Vec<String> = ["msm_best", "bn254:msm_best", "bn254:msm_specific", "bn254:msmkzg:eval", "g2:msm_best", "g2:msm_specific"]
        .iter()
        .filter(|e| cx.counter_value(&format!("msm_best-identity-panic-via:{e}")) > 0)
        .map(|e| e.to_string())
        .collect();
    if !via.is_empty() {
        cx.note(format!("finding msm_best:identity-base:len>=8104:panic was reached through these entry points (one root cause: generic msm_best copies every base with Affine::from, which unwraps the coordinates of the identity): {}", via.join(", ")));
    }
    cx.finish()
}
