//! Shared helpers of C12: a guarded rayon pool (panic on any worker of the pool is attributed to
//! the call that owns the pool), hex output, naive polynomial arithmetic.

use std::{
    cell::Cell,
    collections::HashMap,
    panic::{catch_unwind, AssertUnwindSafe},
    sync::{
        atomic::{AtomicU64, Ordering},
        Mutex, OnceLock,
    },
};

use ff::{Field, PrimeField};

thread_local! {
    /// Non-zero on the worker threads of a [`GPool`]: the id of the pool.
    static TAG: Cell<u64> = const { Cell::new(0) };
}
static NEXT_TAG: AtomicU64 = AtomicU64::new(1);
static PANICS: OnceLock<Mutex<HashMap<u64, String>>> = OnceLock::new();

fn panics() -> &'static Mutex<HashMap<u64, String>> {
    PANICS.get_or_init(|| Mutex::new(HashMap::new()))
}

/// Wraps the panic hook installed by vcore: a panic on a worker thread of a [`GPool`] is recorded
/// (message @ file:line) under the pool's id, silently; every other panic goes to vcore's hook.
/// Must be called after `Ctx::from_args` (which installs vcore's hook).
pub fn install_pool_panic_hook() {
    let prev = std::panic::take_hook();
    std::panic::set_hook(Box::new(move |info| {
        let tag = TAG.with(|t| t.get());
        if tag == 0 {
            prev(info);
            return;
        }
        let msg = if let Some(s) = info.payload().downcast_ref::<&str>() {
            s.to_string()
        } else if let Some(s) = info.payload().downcast_ref::<String>() {
            s.clone()
        } else {
            "<non-string panic payload>".to_string()
        };
        let loc = info
            .location()
            .map(|l| format!("{}:{}", l.file(), l.line()))
            .unwrap_or_else(|| "<unknown>".into());
        let mut m = format!("{msg} @ {loc}");
        if m.len() > 400 {
            m.truncate(400);
        }
        // keep the first panic of the call: later ones are usually consequences
        panics().lock().unwrap().entry(tag).or_insert(m);
    }));
}

/// A dedicated rayon pool of exactly `t` threads whose panics are captured.
pub struct GPool {
    pool: rayon::ThreadPool,
    tag: u64,
}

impl GPool {
    pub fn new(t: usize) -> GPool {
        let tag = NEXT_TAG.fetch_add(1, Ordering::SeqCst);
        let pool = rayon::ThreadPoolBuilder::new()
            .num_threads(t)
            .start_handler(move |_| TAG.with(|c| c.set(tag)))
            .build()
            .expect("rayon pool");
        GPool { pool, tag }
    }

    /// `rayon::current_num_threads()` as the subject will see it.
    pub fn observed_threads(&self) -> usize {
        self.pool.install(rayon::current_num_threads)
    }

    /// Runs the subject call `f` inside the pool; a panic becomes `Err(message @ file:line)`.
    pub fn run<T: Send>(&self, f: impl FnOnce() -> T + Send) -> Result<T, String> {
        panics().lock().unwrap().remove(&self.tag);
        let r = self.pool.install(|| catch_unwind(AssertUnwindSafe(f)));
        match r {
            Ok(v) => Ok(v),
            Err(_) => Err(one_line(
                &panics()
                    .lock()
                    .unwrap()
                    .remove(&self.tag)
                    .unwrap_or_else(|| "<panic outside the pool's threads>".into()),
            )),
        }
    }
}

impl Drop for GPool {
    fn drop(&mut self) {
        panics().lock().unwrap().remove(&self.tag);
    }
}

/// Panic messages on one line (VIOLATION lines are line-oriented).
pub fn one_line(s: &str) -> String {
    s.split_whitespace().collect::<Vec<_>>().join(" ")
}

/// `vcore::catch` with the message on one line.
pub fn pcatch<T>(f: impl FnOnce() -> T) -> Result<T, String> {
    vcore::catch(f).map_err(|e| one_line(&e))
}

pub const POOLS_ALL: [usize; 6] = [1, 2, 3, 5, 8, 16];

/// Outer worker count for groups whose cases each own a rayon pool of 1..=16 (32) threads. Most
/// cases keep one or two of their pool's threads busy (short inputs, serial entry points), so 8
/// outer workers fill a 16-core machine without much oversubscription; the pool size the subject
/// sees is exactly the requested one whatever the outer load.
pub const MIXED_POOL_WORKERS: usize = 8;

pub fn fhex<F: PrimeField>(f: &F) -> String {
    // canonical little-endian representation, printed as a big-endian hex number
    let mut b = f.to_repr().as_ref().to_vec();
    b.reverse();
    format!("0x{}", vcore::hex(&b))
}

pub fn fhexs<F: PrimeField>(v: &[F], max: usize) -> Vec<String> {
    v.iter().take(max).map(fhex).collect()
}

pub fn ghex<G: group::GroupEncoding>(g: &G) -> String {
    vcore::hex(g.to_bytes().as_ref())
}

/// Horner evaluation (the naive definition used as reference throughout).
pub fn horner<F: Field>(p: &[F], x: F) -> F {
    let mut acc = F::ZERO;
    for c in p.iter().rev() {
        acc = acc * x + *c;
    }
    acc
}

/// Σ c_i x^i with explicitly accumulated powers (second, independent form of evaluation).
pub fn eval_by_powers<F: Field>(p: &[F], x: F) -> F {
    let mut acc = F::ZERO;
    let mut xp = F::ONE;
    for c in p {
        acc += *c * xp;
        xp *= x;
    }
    acc
}

/// The primitive 2^k-th root of unity obtained from `ROOT_OF_UNITY` by squaring.
pub fn omega_for<F: PrimeField>(k: u32) -> F {
    assert!(k <= F::S);
    let mut w = F::ROOT_OF_UNITY;
    for _ in k..F::S {
        w = w.square();
    }
    w
}

/// Checks `w` has multiplicative order exactly 2^k.
pub fn has_order_pow2<F: Field>(w: F, k: u32) -> bool {
    let mut x = w;
    for _ in 0..k {
        if x == F::ONE {
            return false; // order divides a smaller power of two
        }
        x = x.square();
    }
    x == F::ONE
}

/// `[ω^0, ω^1, …, ω^(n-1)]`.
pub fn powers_of<F: Field>(w: F, n: usize) -> Vec<F> {
    let mut v = Vec::with_capacity(n);
    let mut c = F::ONE;
    for _ in 0..n {
        v.push(c);
        c *= w;
    }
    v
}

pub fn seeded_vec<F: Field>(rng: &mut impl rand_core::RngCore, n: usize) -> Vec<F> {
    (0..n).map(|_| F::random(&mut *rng)).collect()
}

pub fn len_class(n: usize) -> &'static str {
    match n {
        0 => "0",
        1..=70 => "1..70",
        71..=4096 => "71..4096",
        _ => ">4096",
    }
}
