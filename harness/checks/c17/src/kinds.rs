//! The circuits C17 quantifies over, behind one interface: members of the `Fam` family (keys of
//! `midnight_proofs::plonk`) and standard-library relations (keys wrapped as `MidnightVK` /
//! `MidnightPK`).

use std::io;

use ff::Field;
use group::Group;
use midnight_circuits::{
    hash::poseidon::PoseidonChip,
    instructions::{
        hash::HashCPU, ArithInstructions, AssertionInstructions, AssignmentInstructions,
        EccInstructions, PublicInputInstructions,
    },
    types::{AssignedByte, AssignedNative, AssignedNativePoint, Instantiable},
};
use midnight_curves::{Fr as JubjubScalar, JubjubExtended as Jubjub, JubjubSubgroup};
use midnight_proofs::{
    circuit::{floor_planner::V1, Layouter, SimpleFloorPlanner, Value},
    plonk::Error,
    utils::SerdeFormat,
};
use midnight_zk_stdlib::{MidnightCircuit, MidnightPK, MidnightVK, Relation, ZkStdLib, ZkStdLibArch};
use rand_chacha::ChaCha20Rng;
use rand_core::SeedableRng;
use sha2::Digest;
use vfam::{
    api::{self, BlakeT, Params, Pk, VParams, Vk},
    fam::{Fam, FamParams, F},
    lattice::{self, Config, Hash, Wit},
};

#[derive(Clone, Copy, Debug, PartialEq, Eq)]
pub enum Fmt {
    P,
    R,
    U,
}

impl Fmt {
    pub const ALL: [Fmt; 3] = [Fmt::P, Fmt::R, Fmt::U];
    pub fn sf(self) -> SerdeFormat {
        match self {
            Fmt::P => SerdeFormat::Processed,
            Fmt::R => SerdeFormat::RawBytes,
            Fmt::U => SerdeFormat::RawBytesUnchecked,
        }
    }
    pub fn name(self) -> &'static str {
        match self {
            Fmt::P => "Processed",
            Fmt::R => "RawBytes",
            Fmt::U => "RawBytesUnchecked",
        }
    }
    pub fn idx(self) -> usize {
        self as usize
    }
}

/// Documented contract (MidnightVK::read / MidnightPK::read, SerdeFormat): the read format must
/// match the write format; RawBytes and RawBytesUnchecked write the same bytes and data written
/// with either may be read with either; Processed is only compatible with Processed.
pub fn compatible(w: Fmt, r: Fmt) -> bool {
    (w == Fmt::P) == (r == Fmt::P)
}

pub trait Kind: Send + Sync + 'static {
    type VK: Clone + Send + Sync;
    type PK: Send + Sync;
    fn name(&self) -> String;
    /// circuit class used in finding keys
    fn class(&self) -> String;
    fn k(&self) -> u32;
    fn keygen(&self, params: &Params) -> Result<(Self::VK, Self::PK), String>;
    fn vk_write(&self, vk: &Self::VK, f: Fmt) -> io::Result<Vec<u8>>;
    fn vk_read(&self, bytes: &mut &[u8], f: Fmt) -> io::Result<Self::VK>;
    fn vk_inner<'a>(&self, vk: &'a Self::VK) -> &'a Vk;
    fn pk_write(&self, pk: &Self::PK, f: Fmt) -> io::Result<Vec<u8>>;
    fn pk_read(&self, bytes: &mut &[u8], f: Fmt) -> io::Result<Self::PK>;
    fn pk_inner<'a>(&self, pk: &'a Self::PK) -> &'a Pk;
    /// honest proof of this circuit's statement; blinding from a ChaCha stream seeded by `blind`
    fn prove(&self, params: &Params, pk: &Self::PK, blind: u64) -> Result<Vec<u8>, String>;
    /// verification of `proof` against THIS circuit's statement (its honest instance) under `vk`
    fn verify(&self, vparams: &VParams, vk: &Self::VK, proof: &[u8]) -> Result<(), String>;
    /// a different circuit of the same kind, same k, same instance shape
    fn foreign(&self) -> Self;
    /// the documented way of bringing a larger SRS to this circuit's size
    fn downsize_for(&self, params: &mut Params);
}

// ---------------------------------------------------------------------------------------------
// Fam
// ---------------------------------------------------------------------------------------------

#[derive(Clone)]
pub struct FamKind {
    pub label: &'static str,
    pub p: FamParams,
    pub v1: bool,
    pub k: u32,
    pub seed: u64,
}

impl FamKind {
    fn cfg(&self) -> Config {
        Config {
            p: self.p.clone(),
            v1: self.v1,
            num_proofs: 1,
            nb_committed: 0,
            k: self.k,
            hash: Hash::Blake2b,
            wit: Wit::Seeded(0),
        }
    }
}

impl Kind for FamKind {
    type VK = Vk;
    type PK = Pk;
    fn name(&self) -> String {
        format!("fam:{}:{}{}-k{}", self.label, self.p.tag(), if self.v1 { "-v1" } else { "" }, self.k)
    }
    fn class(&self) -> String {
        format!("fam-{}", self.label)
    }
    fn k(&self) -> u32 {
        self.k
    }
    fn keygen(&self, params: &Params) -> Result<(Vk, Pk), String> {
        let pk = if self.v1 {
            api::keygen(params, &Fam::<V1>::new(self.p.clone(), None, None), self.k)
        } else {
            api::keygen(params, &Fam::<SimpleFloorPlanner>::new(self.p.clone(), None, None), self.k)
        }
        .map_err(|e| format!("{e:?}"))?;
        Ok((pk.get_vk().clone(), pk))
    }
    fn vk_write(&self, vk: &Vk, f: Fmt) -> io::Result<Vec<u8>> {
        let mut v = vec![];
        vk.write(&mut v, f.sf())?;
        Ok(v)
    }
    fn vk_read(&self, bytes: &mut &[u8], f: Fmt) -> io::Result<Vk> {
        if self.v1 {
            Vk::read::<_, Fam<V1>>(bytes, f.sf(), self.p.clone())
        } else {
            Vk::read::<_, Fam<SimpleFloorPlanner>>(bytes, f.sf(), self.p.clone())
        }
    }
    fn vk_inner<'a>(&self, vk: &'a Vk) -> &'a Vk {
        vk
    }
    fn pk_write(&self, pk: &Pk, f: Fmt) -> io::Result<Vec<u8>> {
        let mut v = vec![];
        pk.write(&mut v, f.sf())?;
        Ok(v)
    }
    fn pk_read(&self, bytes: &mut &[u8], f: Fmt) -> io::Result<Pk> {
        if self.v1 {
            Pk::read::<_, Fam<V1>>(bytes, f.sf(), self.p.clone())
        } else {
            Pk::read::<_, Fam<SimpleFloorPlanner>>(bytes, f.sf(), self.p.clone())
        }
    }
    fn pk_inner<'a>(&self, pk: &'a Pk) -> &'a Pk {
        pk
    }
    fn prove(&self, params: &Params, pk: &Pk, blind: u64) -> Result<Vec<u8>, String> {
        let cfg = self.cfg();
        if self.v1 {
            let (c, i) = lattice::honest::<V1>(&cfg, 0, self.seed);
            api::prove::<BlakeT, _>(params, pk, &[c], 0, &[i], blind)
        } else {
            let (c, i) = lattice::honest::<SimpleFloorPlanner>(&cfg, 0, self.seed);
            api::prove::<BlakeT, _>(params, pk, &[c], 0, &[i], blind)
        }
        .map_err(|e| format!("{e:?}"))
    }
    fn verify(&self, vparams: &VParams, vk: &Vk, proof: &[u8]) -> Result<(), String> {
        let (_, inst) = lattice::honest::<SimpleFloorPlanner>(&self.cfg(), 0, self.seed);
        let v = api::verify::<BlakeT>(vparams, vk, &[vec![]], &[inst], proof);
        if v.accepted() {
            Ok(())
        } else {
            Err(format!("{v:?}"))
        }
    }
    fn foreign(&self) -> Self {
        let mut o = self.clone();
        o.p.fx_tweak = 1; // same circuit, one fixed cell changed
        o
    }
    fn downsize_for(&self, params: &mut Params) {
        params.downsize(self.k)
    }
}

// ---------------------------------------------------------------------------------------------
// Standard-library relations
// ---------------------------------------------------------------------------------------------

pub trait StdRel: Relation + Send + Sync + 'static
where
    Self::Instance: Send,
    Self::Witness: Send,
{
    fn label(&self) -> &'static str;
    fn honest(&self, seed: u64) -> (Self::Instance, Self::Witness);
    fn other(&self) -> Self;
}

fn wr_u64<W: io::Write>(w: &mut W, c: u64) -> io::Result<()> {
    w.write_all(&c.to_le_bytes())
}
fn rd_u64<R: io::Read>(r: &mut R) -> io::Result<u64> {
    let mut b = [0u8; 8];
    r.read_exact(&mut b)?;
    Ok(u64::from_le_bytes(b))
}

/// instance = witness^2 + c  (native arithmetic only)
#[derive(Clone, Debug)]
pub struct NativeRel {
    pub c: u64,
}

impl Relation for NativeRel {
    type Instance = F;
    type Witness = F;
    fn format_instance(x: &F) -> Result<Vec<F>, Error> {
        Ok(vec![*x])
    }
    fn circuit(
        &self,
        std_lib: &ZkStdLib,
        layouter: &mut impl Layouter<F>,
        instance: Value<F>,
        witness: Value<F>,
    ) -> Result<(), Error> {
        let inst: AssignedNative<F> = std_lib.assign_as_public_input(layouter, instance)?;
        let w: AssignedNative<F> = std_lib.assign(layouter, witness)?;
        let sq = std_lib.mul(layouter, &w, &w, None)?;
        let y = std_lib.add_constant(layouter, &sq, F::from(self.c))?;
        std_lib.assert_equal(layouter, &inst, &y)
    }
    fn write_relation<W: io::Write>(&self, w: &mut W) -> io::Result<()> {
        wr_u64(w, self.c)
    }
    fn read_relation<R: io::Read>(r: &mut R) -> io::Result<Self> {
        rd_u64(r).map(|c| NativeRel { c })
    }
}

impl StdRel for NativeRel {
    fn label(&self) -> &'static str {
        "native"
    }
    fn honest(&self, seed: u64) -> (F, F) {
        let w = F::random(vcore::rng_for(seed, "c17-native-w"));
        (w * w + F::from(self.c), w)
    }
    fn other(&self) -> Self {
        NativeRel { c: self.c + 1 }
    }
}

/// instance = Poseidon(w0, w1, w2, c)
#[derive(Clone, Debug)]
pub struct PoseidonRel {
    pub c: u64,
}

impl Relation for PoseidonRel {
    type Instance = F;
    type Witness = [F; 3];
    fn format_instance(x: &F) -> Result<Vec<F>, Error> {
        Ok(vec![*x])
    }
    fn circuit(
        &self,
        std_lib: &ZkStdLib,
        layouter: &mut impl Layouter<F>,
        _instance: Value<F>,
        witness: Value<[F; 3]>,
    ) -> Result<(), Error> {
        let mut msg: Vec<AssignedNative<F>> = std_lib.assign_many(layouter, &witness.transpose_array())?;
        msg.push(std_lib.assign_fixed(layouter, F::from(self.c))?);
        let out = std_lib.poseidon(layouter, &msg)?;
        std_lib.constrain_as_public_input(layouter, &out)
    }
    fn used_chips(&self) -> ZkStdLibArch {
        ZkStdLibArch {
            poseidon: true,
            ..ZkStdLibArch::default()
        }
    }
    fn write_relation<W: io::Write>(&self, w: &mut W) -> io::Result<()> {
        wr_u64(w, self.c)
    }
    fn read_relation<R: io::Read>(r: &mut R) -> io::Result<Self> {
        rd_u64(r).map(|c| PoseidonRel { c })
    }
}

impl StdRel for PoseidonRel {
    fn label(&self) -> &'static str {
        "poseidon"
    }
    fn honest(&self, seed: u64) -> (F, [F; 3]) {
        let mut rng = vcore::rng_for(seed, "c17-poseidon-w");
        let w: [F; 3] = core::array::from_fn(|_| F::random(&mut rng));
        let inst = <PoseidonChip<F> as HashCPU<F, F>>::hash(&[w[0], w[1], w[2], F::from(self.c)]);
        (inst, w)
    }
    fn other(&self) -> Self {
        PoseidonRel { c: self.c + 1 }
    }
}

/// instance = s * B_c where B_c = (c+1) * G is a fixed Jubjub point and s the witness scalar
#[derive(Clone, Debug)]
pub struct JubjubRel {
    pub c: u64,
}

impl JubjubRel {
    fn base(&self) -> JubjubSubgroup {
        <JubjubSubgroup as Group>::generator() * JubjubScalar::from(self.c + 1)
    }
}

impl Relation for JubjubRel {
    type Instance = JubjubSubgroup;
    type Witness = JubjubScalar;
    fn format_instance(p: &JubjubSubgroup) -> Result<Vec<F>, Error> {
        Ok(AssignedNativePoint::<Jubjub>::as_public_input(p))
    }
    fn circuit(
        &self,
        std_lib: &ZkStdLib,
        layouter: &mut impl Layouter<F>,
        _instance: Value<JubjubSubgroup>,
        witness: Value<JubjubScalar>,
    ) -> Result<(), Error> {
        let s = std_lib.jubjub().assign(layouter, witness)?;
        let b: AssignedNativePoint<Jubjub> = std_lib.jubjub().assign_fixed(layouter, self.base())?;
        let r = std_lib.jubjub().msm(layouter, &[s], &[b])?;
        std_lib.jubjub().constrain_as_public_input(layouter, &r)
    }
    fn used_chips(&self) -> ZkStdLibArch {
        ZkStdLibArch {
            jubjub: true,
            ..ZkStdLibArch::default()
        }
    }
    fn write_relation<W: io::Write>(&self, w: &mut W) -> io::Result<()> {
        wr_u64(w, self.c)
    }
    fn read_relation<R: io::Read>(r: &mut R) -> io::Result<Self> {
        rd_u64(r).map(|c| JubjubRel { c })
    }
}

impl StdRel for JubjubRel {
    fn label(&self) -> &'static str {
        "jubjub-mul"
    }
    fn honest(&self, seed: u64) -> (JubjubSubgroup, JubjubScalar) {
        let s = JubjubScalar::random(vcore::rng_for(seed, "c17-jubjub-w"));
        (self.base() * s, s)
    }
    fn other(&self) -> Self {
        JubjubRel { c: self.c + 1 }
    }
}

/// instance = SHA-256(witness bytes || c)
#[derive(Clone, Debug)]
pub struct ShaRel {
    pub c: u64,
}

impl Relation for ShaRel {
    type Instance = [u8; 32];
    type Witness = [u8; 24];
    fn format_instance(d: &[u8; 32]) -> Result<Vec<F>, Error> {
        Ok(d.iter().flat_map(AssignedByte::<F>::as_public_input).collect())
    }
    fn circuit(
        &self,
        std_lib: &ZkStdLib,
        layouter: &mut impl Layouter<F>,
        _instance: Value<[u8; 32]>,
        witness: Value<[u8; 24]>,
    ) -> Result<(), Error> {
        let mut input: Vec<AssignedByte<F>> = std_lib.assign_many(layouter, &witness.transpose_array())?;
        input.push(std_lib.assign_fixed(layouter, self.c as u8)?);
        let out = std_lib.sha2_256(layouter, &input)?;
        out.iter().try_for_each(|b| std_lib.constrain_as_public_input(layouter, b))
    }
    fn used_chips(&self) -> ZkStdLibArch {
        ZkStdLibArch {
            sha2_256: true,
            ..ZkStdLibArch::default()
        }
    }
    fn write_relation<W: io::Write>(&self, w: &mut W) -> io::Result<()> {
        wr_u64(w, self.c)
    }
    fn read_relation<R: io::Read>(r: &mut R) -> io::Result<Self> {
        rd_u64(r).map(|c| ShaRel { c })
    }
}

impl StdRel for ShaRel {
    fn label(&self) -> &'static str {
        "sha256"
    }
    fn honest(&self, seed: u64) -> ([u8; 32], [u8; 24]) {
        use rand_core::RngCore;
        let mut w = [0u8; 24];
        vcore::rng_for(seed, "c17-sha-w").fill_bytes(&mut w);
        let mut h = sha2::Sha256::new();
        h.update(w);
        h.update([self.c as u8]);
        (h.finalize().into(), w)
    }
    fn other(&self) -> Self {
        ShaRel { c: self.c + 1 }
    }
}

/// Lookups (range checks via lower_than) + Poseidon + SHA-256 + Jubjub in one relation:
/// instance = (SHA-256(bytes || c), Poseidon(x, c), s * G) and x < 2^16.
#[derive(Clone, Debug)]
pub struct ComboRel {
    pub c: u64,
}

impl Relation for ComboRel {
    type Instance = ([u8; 32], F, JubjubSubgroup);
    type Witness = ([u8; 8], F, JubjubScalar);
    fn format_instance(i: &Self::Instance) -> Result<Vec<F>, Error> {
        let mut v: Vec<F> = i.0.iter().flat_map(AssignedByte::<F>::as_public_input).collect();
        v.push(i.1);
        v.extend(AssignedNativePoint::<Jubjub>::as_public_input(&i.2));
        Ok(v)
    }
    fn circuit(
        &self,
        std_lib: &ZkStdLib,
        layouter: &mut impl Layouter<F>,
        _instance: Value<Self::Instance>,
        witness: Value<Self::Witness>,
    ) -> Result<(), Error> {
        let bytes = witness.clone().map(|w| w.0);
        let x = witness.clone().map(|w| w.1);
        let s = witness.map(|w| w.2);
        let mut input: Vec<AssignedByte<F>> = std_lib.assign_many(layouter, &bytes.transpose_array())?;
        input.push(std_lib.assign_fixed(layouter, self.c as u8)?);
        let out = std_lib.sha2_256(layouter, &input)?;
        out.iter().try_for_each(|b| std_lib.constrain_as_public_input(layouter, b))?;

        let x: AssignedNative<F> = std_lib.assign(layouter, x)?;
        let bound: AssignedNative<F> = std_lib.assign_fixed(layouter, F::from(1u64 << 16))?;
        let lt = std_lib.lower_than(layouter, &x, &bound, 17)?;
        std_lib.assert_true(layouter, &lt)?;
        let c: AssignedNative<F> = std_lib.assign_fixed(layouter, F::from(self.c))?;
        let h = std_lib.poseidon(layouter, &[x, c])?;
        std_lib.constrain_as_public_input(layouter, &h)?;

        let s = std_lib.jubjub().assign(layouter, s)?;
        let g: AssignedNativePoint<Jubjub> =
            std_lib.jubjub().assign_fixed(layouter, <JubjubSubgroup as Group>::generator())?;
        let r = std_lib.jubjub().msm(layouter, &[s], &[g])?;
        std_lib.jubjub().constrain_as_public_input(layouter, &r)
    }
    fn used_chips(&self) -> ZkStdLibArch {
        ZkStdLibArch {
            jubjub: true,
            poseidon: true,
            sha2_256: true,
            nr_pow2range_cols: 4,
            ..ZkStdLibArch::default()
        }
    }
    fn write_relation<W: io::Write>(&self, w: &mut W) -> io::Result<()> {
        wr_u64(w, self.c)
    }
    fn read_relation<R: io::Read>(r: &mut R) -> io::Result<Self> {
        rd_u64(r).map(|c| ComboRel { c })
    }
}

impl StdRel for ComboRel {
    fn label(&self) -> &'static str {
        "lookup+poseidon+sha256+jubjub"
    }
    fn honest(&self, seed: u64) -> (Self::Instance, Self::Witness) {
        use rand_core::RngCore;
        let mut rng = vcore::rng_for(seed, "c17-combo-w");
        let mut b = [0u8; 8];
        rng.fill_bytes(&mut b);
        let x = F::from(rng.next_u32() as u64 & 0xffff);
        let s = JubjubScalar::random(&mut rng);
        let mut h = sha2::Sha256::new();
        h.update(b);
        h.update([self.c as u8]);
        let d: [u8; 32] = h.finalize().into();
        let p = <PoseidonChip<F> as HashCPU<F, F>>::hash(&[x, F::from(self.c)]);
        let pt = <JubjubSubgroup as Group>::generator() * s;
        ((d, p, pt), (b, x, s))
    }
    fn other(&self) -> Self {
        ComboRel { c: self.c + 1 }
    }
}

#[derive(Clone)]
pub struct StdKind<R: StdRel>
where
    R::Instance: Send,
    R::Witness: Send,
{
    pub rel: R,
    pub k: u32,
    pub seed: u64,
}

/// Minimal k of a relation, as the library computes it (`keygen_vk` insists on an SRS of exactly
/// this size).
pub fn rel_min_k<R: Relation>(rel: &R) -> u32 {
    MidnightCircuit::from_relation(rel).min_k()
}

impl<R: StdRel> Kind for StdKind<R>
where
    R::Instance: Send,
    R::Witness: Send,
{
    type VK = MidnightVK;
    type PK = MidnightPK<R>;
    fn name(&self) -> String {
        format!("std:{}-k{}", self.rel.label(), self.k)
    }
    fn class(&self) -> String {
        format!("std-{}", self.rel.label())
    }
    fn k(&self) -> u32 {
        self.k
    }
    fn keygen(&self, params: &Params) -> Result<(MidnightVK, MidnightPK<R>), String> {
        let vk = midnight_zk_stdlib::setup_vk(params, &self.rel);
        let pk = midnight_zk_stdlib::setup_pk(&self.rel, &vk);
        Ok((vk, pk))
    }
    fn vk_write(&self, vk: &MidnightVK, f: Fmt) -> io::Result<Vec<u8>> {
        let mut v = vec![];
        vk.write(&mut v, f.sf())?;
        Ok(v)
    }
    fn vk_read(&self, bytes: &mut &[u8], f: Fmt) -> io::Result<MidnightVK> {
        MidnightVK::read(bytes, f.sf())
    }
    fn vk_inner<'a>(&self, vk: &'a MidnightVK) -> &'a Vk {
        vk.vk()
    }
    fn pk_write(&self, pk: &MidnightPK<R>, f: Fmt) -> io::Result<Vec<u8>> {
        let mut v = vec![];
        pk.write(&mut v, f.sf())?;
        Ok(v)
    }
    fn pk_read(&self, bytes: &mut &[u8], f: Fmt) -> io::Result<MidnightPK<R>> {
        MidnightPK::<R>::read(bytes, f.sf())
    }
    fn pk_inner<'a>(&self, pk: &'a MidnightPK<R>) -> &'a Pk {
        pk.pk()
    }
    fn prove(&self, params: &Params, pk: &MidnightPK<R>, blind: u64) -> Result<Vec<u8>, String> {
        let (inst, wit) = self.rel.honest(self.seed);
        midnight_zk_stdlib::prove::<R, blake2b_simd::State>(
            params,
            pk,
            &self.rel,
            &inst,
            wit,
            ChaCha20Rng::seed_from_u64(blind),
        )
        .map_err(|e| format!("{e:?}"))
    }
    fn verify(&self, vparams: &VParams, vk: &MidnightVK, proof: &[u8]) -> Result<(), String> {
        let (inst, _) = self.rel.honest(self.seed);
        midnight_zk_stdlib::verify::<R, blake2b_simd::State>(vparams, vk, &inst, None, proof)
            .map_err(|e| format!("{e:?}"))
    }
    fn foreign(&self) -> Self {
        StdKind {
            rel: self.rel.other(),
            k: self.k,
            seed: self.seed,
        }
    }
    fn downsize_for(&self, params: &mut Params) {
        midnight_zk_stdlib::downsize_srs_for_relation(params, &self.rel)
    }
}
