//! C17 — key generation is deterministic and keys survive serialization unchanged.
//!
//! (a) keygen of every subject circuit under rayon pools {1,2,3,8,16} x 3 repetitions: verifying
//!     key bytes (all formats), transcript identity, proving key bytes (all formats) and the
//!     proof made with the key equal the pool-1 reference.
//! (b) write with format A, read with format B for A,B in {Processed, RawBytes,
//!     RawBytesUnchecked}: compatible pairs reproduce the object (same bytes in every format,
//!     same transcript identity); incompatible pairs are refused. Objects: VerifyingKey,
//!     ProvingKey (Fam circuits), MidnightVK, MidnightPK (std-lib relations), ParamsKZG
//!     (write_custom/read_custom), ParamsVerifierKZG.
//! (c) proofs made with the original / reloaded pk verify under the original / reloaded vk (four
//!     combinations), also with reloaded SRS / verifier parameters; a proof of a different
//!     circuit is rejected by both vks.
//! (d) downsize(k') for every k' = 1..=k under every pool equals unsafe_setup(k') from the same
//!     secret; commit_lagrange agrees with commit; keygen on a downsized SRS gives the same keys.

mod kinds;

use std::{
    collections::BTreeMap,
    io,
    sync::{Mutex, OnceLock},
};

use ff::{Field, PrimeField};
use kinds::*;
use midnight_proofs::poly::{
    commitment::{Params as ParamsTrait, PolynomialCommitmentScheme},
    EvaluationDomain,
};
use serde_json::{json, Value};
use vcore::{CaseOut, Ctx, Level, Viol};
use vfam::{
    api::{self, Kzg, Params, VParams},
    fam::{FamParams, F},
    lattice,
};

const POOLS: [usize; 5] = [1, 2, 3, 8, 16];
const REPS: usize = 3;

fn blind(seed: u64) -> u64 {
    seed ^ 0xb11d_c17
}

fn pool1<T: Send>(f: impl FnOnce() -> T + Send) -> Result<T, String> {
    vcore::in_pool(1, || vcore::catch(f))
}

/// The runner re-executes a case that reported a violation and treats a different set of finding
/// keys as "uncontrolled nondeterminism" of the harness. This check controls every input of
/// its own (fixed seeds, cached reference keys, verdicts independent of the prover's OsRng), so
/// an outcome that changes between two executions of the same case can only come from the code
/// under test — which is exactly what C17 forbids. `sticky` therefore answers the re-execution
/// with the first outcome when the second differs and records the pair; `main` reports each
/// such case as a violation `unstable-outcome:<group>` of its own.
static STICKY: Mutex<BTreeMap<String, (CaseOut, u32)>> = Mutex::new(BTreeMap::new());
static UNSTABLE: Mutex<Vec<(String, String, Vec<String>, Vec<String>)>> = Mutex::new(Vec::new());

fn key_set(o: &CaseOut) -> Vec<String> {
    let mut v: Vec<String> = o.viols.iter().map(|x| x.finding_key.clone()).collect();
    v.sort();
    v.dedup();
    v
}

fn sticky(group: &str, key: &str, f: impl FnOnce() -> CaseOut) -> CaseOut {
    let full = format!("{group}/{key}");
    let out = f();
    let mut m = STICKY.lock().unwrap();
    match m.get_mut(&full) {
        None => {
            m.insert(full, (out.clone(), 1));
            out
        }
        Some((first, n)) => {
            *n += 1;
            let (a, b) = (key_set(first), key_set(&out));
            if a == b {
                out
            } else {
                UNSTABLE.lock().unwrap().push((group.to_string(), full.clone(), a, b));
                first.clone()
            }
        }
    }
}

fn first_diff(a: &[u8], b: &[u8]) -> Value {
    let off = a.iter().zip(b.iter()).position(|(x, y)| x != y);
    json!({"len_a": a.len(), "len_b": b.len(), "first_differing_offset": off})
}

fn repr_hex(x: &F) -> String {
    vcore::hex(x.to_repr().as_ref())
}

fn all_fmts<E: std::fmt::Debug>(mut f: impl FnMut(Fmt) -> Result<Vec<u8>, E>) -> Result<[Vec<u8>; 3], String> {
    Ok([
        f(Fmt::P).map_err(|e| format!("write Processed: {e:?}"))?,
        f(Fmt::R).map_err(|e| format!("write RawBytes: {e:?}"))?,
        f(Fmt::U).map_err(|e| format!("write RawBytesUnchecked: {e:?}"))?,
    ])
}

// ---------------------------------------------------------------------------------------------
// Subjects
// ---------------------------------------------------------------------------------------------

struct Reference<K: Kind> {
    vk: K::VK,
    pk: K::PK,
    vk_bytes: [Vec<u8>; 3],
    pk_bytes: [Vec<u8>; 3],
    repr: F,
    proof: Vec<u8>,
    prover_deterministic: bool,
    /// Length of the proof prefix that is a function of (pk, params, witness, blinding stream):
    /// the whole proof if two reference runs agree, otherwise the offset of the first element
    /// that differs between them (the prover blinds the quotient limbs from OsRng), rounded down
    /// to a group-element boundary (everything before the quotient commitments is a 48-byte
    /// compressed G1 element). For circuits with lookups the prefix is cut at the end of the
    /// advice commitments: the permuted lookup table is filled in HashMap iteration order
    /// (lookup/prover.rs permute_expression_pair), so everything after may differ between runs.
    det_prefix: usize,
}

impl<K: Kind> Reference<K> {
    fn same_deterministic_part(&self, p: &[u8]) -> bool {
        p.len() == self.proof.len() && p[..self.det_prefix] == self.proof[..self.det_prefix]
    }
}

struct Foreign<K: Kind> {
    kind: K,
    proof: Vec<u8>,
    vk_differs: bool,
}

struct Holder<K: Kind> {
    kind: K,
    seed: u64,
    reference: OnceLock<Result<Reference<K>, String>>,
    foreign: OnceLock<Result<Foreign<K>, String>>,
}

#[derive(Clone, Copy, Debug, PartialEq, Eq)]
enum Obj {
    Vk,
    Pk,
}

impl Obj {
    fn name(self) -> &'static str {
        match self {
            Obj::Vk => "vk",
            Obj::Pk => "pk",
        }
    }
}

trait Subject: Send + Sync {
    fn name(&self) -> String;
    fn k(&self) -> u32;
    fn run_reference(&self) -> CaseOut;
    fn run_keygen(&self, t: usize) -> CaseOut;
    fn run_roundtrip(&self, obj: Obj, w: Fmt, r: Fmt) -> CaseOut;
    fn run_pv(&self, w: Fmt, r: Fmt) -> CaseOut;
    fn run_keygen_downsized(&self, extra: u32) -> CaseOut;
}

impl<K: Kind> Holder<K> {
    fn new(kind: K, seed: u64) -> Self {
        Holder {
            kind,
            seed,
            reference: OnceLock::new(),
            foreign: OnceLock::new(),
        }
    }

    fn reference(&self) -> &Result<Reference<K>, String> {
        self.reference.get_or_init(|| {
            let params = api::setup(self.kind.k(), self.seed);
            let kind = &self.kind;
            let b = blind(self.seed);
            pool1(|| -> Result<Reference<K>, String> {
                let (vk, pk) = kind.keygen(&params)?;
                let vk_bytes = all_fmts(|f| kind.vk_write(&vk, f))?;
                let pk_bytes = all_fmts(|f| kind.pk_write(&pk, f))?;
                let repr = kind.vk_inner(&vk).transcript_repr();
                let proof = kind.prove(&params, &pk, b)?;
                let proof2 = kind.prove(&params, &pk, b)?;
                kind.verify(&params.verifier_params(), &vk, &proof)
                    .map_err(|e| format!("honest reference proof rejected: {e}"))?;
                let det_prefix = {
                    let e = match proof.iter().zip(proof2.iter()).position(|(a, b)| a != b) {
                        None => proof.len().min(proof2.len()),
                        Some(i) => i / 48 * 48,
                    };
                    let cs = kind.vk_inner(&vk).cs();
                    if cs.lookups().is_empty() {
                        e
                    } else {
                        e.min(48 * cs.num_advice_columns())
                    }
                };
                Ok(Reference {
                    vk,
                    pk,
                    vk_bytes,
                    pk_bytes,
                    repr,
                    prover_deterministic: proof == proof2,
                    det_prefix,
                    proof,
                })
            })
            .map_err(|p| format!("panic: {p}"))
            .and_then(|x| x)
        })
    }

    fn foreign(&self) -> &Result<Foreign<K>, String> {
        self.foreign.get_or_init(|| {
            let params = api::setup(self.kind.k(), self.seed);
            let fk = self.kind.foreign();
            let b = blind(self.seed);
            let my_vk_bytes = match self.reference() {
                Ok(r) => r.vk_bytes[Fmt::R.idx()].clone(),
                Err(e) => return Err(e.clone()),
            };
            let r = pool1(|| -> Result<(Vec<u8>, bool), String> {
                let (vk, pk) = fk.keygen(&params)?;
                let proof = fk.prove(&params, &pk, b)?;
                fk.verify(&params.verifier_params(), &vk, &proof)
                    .map_err(|e| format!("foreign proof rejected by its own vk: {e}"))?;
                let bytes = fk.vk_write(&vk, Fmt::R).map_err(|e| format!("{e:?}"))?;
                Ok((proof, bytes != my_vk_bytes))
            })
            .map_err(|p| format!("panic: {p}"))
            .and_then(|x| x)?;
            Ok(Foreign {
                kind: fk,
                proof: r.0,
                vk_differs: r.1,
            })
        })
    }

    fn harness_fail(&self, out: &mut CaseOut, what: &str, e: &str) {
        out.eval("subject-unavailable", false);
        out.viol(Viol::new(
            format!("subject-setup-failed:{}:{what}", self.kind.class()),
            format!("{what} of {} failed: {e}", self.kind.name()),
            json!({"subject": self.kind.name()}),
        ));
    }

    fn roundtrip_body(&self, obj: Obj, w: Fmt, r: Fmt) -> CaseOut {
        let mut out = CaseOut::batch();
        let kind = &self.kind;
        let rf = match self.reference() {
            Ok(r) => r,
            Err(e) => {
                self.harness_fail(&mut out, "reference keygen", e);
                return out;
            }
        };
        let params = api::setup(kind.k(), self.seed);
        let pair = format!("{}->{}", w.name(), r.name());
        let on = obj.name();
        let detail = json!({"subject": kind.name(), "object": on, "write": w.name(), "read": r.name()});
        let ref_bytes = match obj {
            Obj::Vk => &rf.vk_bytes,
            Obj::Pk => &rf.pk_bytes,
        };
        let src = &ref_bytes[w.idx()];
        // what a successfully read object looks like: (bytes in all formats, transcript repr,
        // unread trailing bytes, does the honest reference proof verify under it)
        let probe = vcore::catch(|| -> io::Result<Result<([Vec<u8>; 3], F, usize, Option<bool>), String>> {
            let mut rd: &[u8] = src;
            match obj {
                Obj::Vk => {
                    let x = kind.vk_read(&mut rd, r)?;
                    let left = rd.len();
                    Ok((|| {
                        let bytes = all_fmts(|f| kind.vk_write(&x, f))?;
                        let acc = kind.verify(&params.verifier_params(), &x, &rf.proof).is_ok();
                        Ok((bytes, kind.vk_inner(&x).transcript_repr(), left, Some(acc)))
                    })())
                }
                Obj::Pk => {
                    let x = kind.pk_read(&mut rd, r)?;
                    let left = rd.len();
                    Ok((|| {
                        let bytes = all_fmts(|f| kind.pk_write(&x, f))?;
                        Ok((bytes, kind.pk_inner(&x).get_vk().transcript_repr(), left, None))
                    })())
                }
            }
        });
        let compat = compatible(w, r);
        out.counter(if compat { "roundtrip_compatible_pairs" } else { "roundtrip_incompatible_pairs" }, 1);
        match (compat, probe) {
            (_, Err(p)) if !compat && r == Fmt::U => {
                // documented: the unchecked reader performs no checks and must only be fed bytes
                // written in the raw format by a trusted party; feeding it Processed bytes is a
                // caller error with unspecified behaviour
                out.eval("incompatible:unchecked-read-panicked(not-a-violation)", true);
                out.sample = Some(json!({"case": detail, "panic": p}));
            }
            (_, Err(p)) => {
                out.eval("panic", true);
                out.viol(Viol::new(
                    format!("panic:roundtrip-{on}:{pair}:{}", vcore::panic_site(&p)),
                    format!("reading a {on} written as {} with format {} panicked: {p}", w.name(), r.name()),
                    detail,
                ));
            }
            (true, Ok(Err(e))) => {
                out.eval("compatible:read-failed", true);
                out.viol(Viol::new(
                    format!("roundtrip:{on}:{pair}:read-failed"),
                    format!("a {on} written as {} could not be read back as {}: {e}", w.name(), r.name()),
                    detail,
                ));
            }
            (true, Ok(Ok(Err(e)))) => {
                out.eval("compatible:rewrite-failed", true);
                out.viol(Viol::new(format!("roundtrip:{on}:{pair}:rewrite-failed"), e, detail));
            }
            (true, Ok(Ok(Ok((bytes, repr, left, acc))))) => {
                let mut ok = true;
                for f in Fmt::ALL {
                    if bytes[f.idx()] != ref_bytes[f.idx()] {
                        ok = false;
                        let mut d = detail.clone();
                        d["reserialised_as"] = json!(f.name());
                        d["diff"] = first_diff(&ref_bytes[f.idx()], &bytes[f.idx()]);
                        out.viol(Viol::new(
                            format!("roundtrip:{on}:{pair}:bytes-differ"),
                            format!("the reloaded {on} serialises ({}) to different bytes than the original", f.name()),
                            d,
                        ));
                    }
                }
                if repr != rf.repr {
                    ok = false;
                    let mut d = detail.clone();
                    d["original"] = json!(repr_hex(&rf.repr));
                    d["reloaded"] = json!(repr_hex(&repr));
                    out.viol(Viol::new(
                        format!("roundtrip:{on}:{pair}:transcript_repr-differs"),
                        format!("the reloaded {on} has a different transcript_repr"),
                        d,
                    ));
                }
                if left != 0 {
                    ok = false;
                    let mut d = detail.clone();
                    d["unread_bytes"] = json!(left);
                    out.viol(Viol::new(
                        format!("roundtrip:{on}:{pair}:trailing-bytes-unread"),
                        format!("read consumed {} bytes fewer than write produced", left),
                        d,
                    ));
                }
                if acc == Some(false) {
                    ok = false;
                    out.viol(Viol::new(
                        format!("roundtrip:vk:{pair}:proof-rejected"),
                        "the reloaded vk rejects the proof the original accepts",
                        detail.clone(),
                    ));
                }
                out.eval(if ok { "compatible:identical" } else { "compatible:DIFFERENT" }, true);
                out.sample = Some(json!({"case": detail, "bytes": src.len(), "transcript_repr": repr_hex(&repr)}));
            }
            (false, Ok(Err(e))) => {
                out.eval("incompatible:refused", true);
                out.counter("incompatible_refused", 1);
                out.sample = Some(json!({"case": detail, "error": e.to_string()}));
            }
            (false, Ok(Ok(res))) => {
                if r != Fmt::U {
                    out.eval("incompatible:ACCEPTED", true);
                    out.viol(Viol::new(
                        format!("incompatible-format-accepted:{on}:{pair}"),
                        format!("a {on} written as {} was read as {} without error", w.name(), r.name()),
                        detail,
                    ));
                } else {
                    // garbage in, garbage out is within the contract of the unchecked reader,
                    // as long as the garbage is not a working key
                    match res {
                        Ok((_, repr, _, acc)) if repr != rf.repr && acc == Some(true) => {
                            out.eval("incompatible:unchecked-garbage-VERIFIES", true);
                            out.viol(Viol::new(
                                format!("incompatible-format-accepted:{on}:{pair}:different-key-verifies"),
                                "unchecked read of Processed bytes produced a key with a different identity that accepts the original proof",
                                detail,
                            ));
                        }
                        _ => {
                            out.eval("incompatible:unchecked-read-garbage(not-a-violation)", true);
                            out.sample = Some(detail);
                        }
                    }
                }
            }
        }
        out
    }

    fn pv_body(&self, w: Fmt, r: Fmt) -> CaseOut {
        let mut out = CaseOut::batch();
        let kind = &self.kind;
        let rf = match self.reference() {
            Ok(r) => r,
            Err(e) => {
                self.harness_fail(&mut out, "reference keygen", e);
                return out;
            }
        };
        let fo = match self.foreign() {
            Ok(f) => f,
            Err(e) => {
                self.harness_fail(&mut out, "foreign circuit", e);
                return out;
            }
        };
        let params = api::setup(kind.k(), self.seed);
        let vparams = params.verifier_params();
        let pair = format!("{}->{}", w.name(), r.name());
        let detail = json!({"subject": kind.name(), "write": w.name(), "read": r.name(), "blind_seed": blind(self.seed)});
        let b = blind(self.seed);

        // reload everything through (w, r)
        let vk_r = vcore::catch(|| kind.vk_read(&mut &rf.vk_bytes[w.idx()][..], r));
        let pk_r = vcore::catch(|| kind.pk_read(&mut &rf.pk_bytes[w.idx()][..], r));
        let params_r = vcore::catch(|| {
            let mut v = vec![];
            params.write_custom(&mut v, w.sf())?;
            Params::read_custom(&mut &v[..], r.sf())
        });
        let vparams_r = vcore::catch(|| {
            let mut v = vec![];
            vparams.write(&mut v, w.sf())?;
            VParams::read(&mut &v[..], r.sf())
        });
        macro_rules! loaded {
            ($x:expr, $what:literal) => {
                match $x {
                    Ok(Ok(x)) => Some(x),
                    Ok(Err(e)) => {
                        out.eval(concat!("reload-failed:", $what), true);
                        out.viol(Viol::new(
                            format!("roundtrip:{}:{pair}:read-failed", $what),
                            format!("{} written as {} could not be read back as {}: {e}", $what, w.name(), r.name()),
                            detail.clone(),
                        ));
                        None
                    }
                    Err(p) => {
                        out.eval(concat!("reload-panicked:", $what), true);
                        out.viol(Viol::new(
                            format!("panic:roundtrip-{}:{pair}:{}", $what, vcore::panic_site(&p)),
                            format!("reading {} panicked: {p}", $what),
                            detail.clone(),
                        ));
                        None
                    }
                }
            };
        }
        let vk_r = loaded!(vk_r, "vk");
        let pk_r = loaded!(pk_r, "pk");
        let params_r = loaded!(params_r, "params");
        let vparams_r = loaded!(vparams_r, "vparams");

        // one verification = one evaluation
        let check_accept = |out: &mut CaseOut, what: &str, key: String, res: Result<Result<(), String>, String>| match res {
            Ok(Ok(())) => out.eval("honest:accept", true),
            Ok(Err(e)) => {
                out.eval("honest:REJECT", true);
                let mut d = detail.clone();
                d["combination"] = json!(what);
                d["verifier"] = json!(e);
                out.viol(Viol::new(key, format!("honest proof rejected ({what})"), d));
            }
            Err(p) => {
                out.eval("panic", true);
                out.viol(Viol::new(
                    format!("panic:verify:{pair}:{}", vcore::panic_site(&p)),
                    format!("verification panicked ({what}): {p}"),
                    detail.clone(),
                ));
            }
        };

        // proofs: original pk (reference), reloaded pk
        let proof_o = &rf.proof;
        let proof_r: Option<Vec<u8>> = pk_r.as_ref().and_then(|pk| match vcore::catch(|| kind.prove(&params, pk, b)) {
            Ok(Ok(p)) => Some(p),
            Ok(Err(e)) => {
                out.eval("prove-failed:reloaded-pk", true);
                out.viol(Viol::new(
                    format!("roundtrip:pk:{pair}:prove-failed"),
                    format!("create_proof failed with the reloaded pk: {e}"),
                    detail.clone(),
                ));
                None
            }
            Err(p) => {
                out.eval("panic", true);
                out.viol(Viol::new(
                    format!("panic:prove-reloaded-pk:{pair}:{}", vcore::panic_site(&p)),
                    format!("create_proof panicked with the reloaded pk: {p}"),
                    detail.clone(),
                ));
                None
            }
        });
        if let Some(pr) = &proof_r {
            {
                if rf.same_deterministic_part(pr) {
                    out.eval("reloaded-pk:same-proof-bytes(deterministic part)", true);
                } else {
                    out.eval("reloaded-pk:DIFFERENT-proof-bytes", true);
                    let mut d = detail.clone();
                    d["diff"] = first_diff(proof_o, pr);
                    out.viol(Viol::new(
                        format!("roundtrip:pk:{pair}:proof-bytes-differ"),
                        "with the same blinding stream the reloaded pk produces a different proof (deterministic part) than the original pk",
                        d,
                    ));
                }
            }
        }
        // the four combinations (original x original is part of the reference, repeated here so
        // that the case is self-contained)
        check_accept(&mut out, "pk=original,vk=original", format!("roundtrip:none:{pair}:proof-rejected"), vcore::catch(|| kind.verify(&vparams, &rf.vk, proof_o)));
        if let Some(vk) = &vk_r {
            check_accept(&mut out, "pk=original,vk=reloaded", format!("roundtrip:vk:{pair}:proof-rejected"), vcore::catch(|| kind.verify(&vparams, vk, proof_o)));
        }
        if let Some(pr) = &proof_r {
            check_accept(&mut out, "pk=reloaded,vk=original", format!("roundtrip:pk:{pair}:proof-rejected"), vcore::catch(|| kind.verify(&vparams, &rf.vk, pr)));
            if let Some(vk) = &vk_r {
                check_accept(&mut out, "pk=reloaded,vk=reloaded", format!("roundtrip:pk+vk:{pair}:proof-rejected"), vcore::catch(|| kind.verify(&vparams, vk, pr)));
            }
        }
        // reloaded SRS: same proof; reloaded verifier parameters: same verdicts
        if let Some(pr) = &params_r {
            match vcore::catch(|| kind.prove(pr, &rf.pk, b)) {
                Ok(Ok(p)) => {
                    if !rf.same_deterministic_part(&p) {
                        out.eval("reloaded-params:DIFFERENT-proof-bytes", true);
                        let mut d = detail.clone();
                        d["diff"] = first_diff(proof_o, &p);
                        out.viol(Viol::new(
                            format!("roundtrip:params:{pair}:proof-bytes-differ"),
                            "with the same blinding stream the reloaded SRS produces a different proof",
                            d,
                        ));
                    } else {
                        out.eval("reloaded-params:same-proof-bytes(deterministic part)", true);
                    }
                    check_accept(&mut out, "params=reloaded", format!("roundtrip:params:{pair}:proof-rejected"), vcore::catch(|| kind.verify(&pr.verifier_params(), &rf.vk, &p)));
                }
                Ok(Err(e)) => {
                    out.eval("prove-failed:reloaded-params", true);
                    out.viol(Viol::new(format!("roundtrip:params:{pair}:prove-failed"), e, detail.clone()));
                }
                Err(p) => {
                    out.eval("panic", true);
                    out.viol(Viol::new(format!("panic:prove-reloaded-params:{pair}:{}", vcore::panic_site(&p)), p, detail.clone()));
                }
            }
        }
        if let Some(vp) = &vparams_r {
            check_accept(&mut out, "vparams=reloaded", format!("roundtrip:vparams:{pair}:proof-rejected"), vcore::catch(|| kind.verify(vp, &rf.vk, proof_o)));
        }
        // a proof of a different circuit, for that circuit's statement, is rejected by every vk
        let check_reject = |out: &mut CaseOut, what: &str, res: Result<Result<(), String>, String>| match res {
            Ok(Err(_)) => {
                out.eval("wrong-circuit:reject", true);
                out.counter("wrong_circuit_rejected", 1);
            }
            Ok(Ok(())) => {
                out.eval("wrong-circuit:ACCEPT", true);
                let mut d = detail.clone();
                d["foreign"] = json!(fo.kind.name());
                out.viol(Viol::new(
                    format!("wrong-circuit-proof-accepted:{what}:{pair}"),
                    format!("a proof made for {} was accepted under the {what} vk of {}", fo.kind.name(), kind.name()),
                    d,
                ));
            }
            Err(p) => {
                out.eval("panic", true);
                out.viol(Viol::new(format!("panic:verify-wrong-circuit:{pair}:{}", vcore::panic_site(&p)), p, detail.clone()));
            }
        };
        check_reject(&mut out, "original", vcore::catch(|| fo.kind.verify(&vparams, &rf.vk, &fo.proof)));
        if let Some(vk) = &vk_r {
            check_reject(&mut out, "reloaded", vcore::catch(|| fo.kind.verify(&vparams, vk, &fo.proof)));
            if let Some(vp) = &vparams_r {
                check_reject(&mut out, "reloaded(vparams reloaded)", vcore::catch(|| fo.kind.verify(vp, vk, &fo.proof)));
            }
        }
        if fo.vk_differs {
            out.counter("foreign_vk_differs", 1);
        }
        out.sample = Some(json!({"case": detail, "proof_len": proof_o.len(), "foreign": fo.kind.name()}));
        out
    }
}

impl<K: Kind> Subject for Holder<K> {
    fn name(&self) -> String {
        self.kind.name()
    }
    fn k(&self) -> u32 {
        self.kind.k()
    }

    fn run_reference(&self) -> CaseOut {
        let mut out = CaseOut::batch();
        let kind = &self.kind;
        match self.reference() {
            Err(e) => self.harness_fail(&mut out, "reference keygen", e),
            Ok(r) => {
                out.eval("reference:honest-proof-accepted", true);
                out.counter("reference_ok", 1);
                out.counter(if r.prover_deterministic { "prover_deterministic" } else { "prover_not_deterministic" }, 1);
                out.counter("deterministic_proof_prefix_bytes", r.det_prefix as u64);
                // the vk embedded in the pk is the vk
                let inner_vk = kind.vk_inner(&r.vk);
                let inner_pk = kind.pk_inner(&r.pk);
                for f in Fmt::ALL {
                    let a = inner_vk.to_bytes(f.sf());
                    let b = inner_pk.get_vk().to_bytes(f.sf());
                    out.evals += 1;
                    if a != b {
                        out.viol(Viol::new(
                            format!("pk-embeds-different-vk:{}", kind.class()),
                            "the vk inside the pk serialises differently from the vk",
                            json!({"subject": kind.name(), "format": f.name(), "diff": first_diff(&a, &b)}),
                        ));
                    }
                    // observation only: bytes_length() is a capacity hint in to_bytes()
                    if inner_vk.bytes_length(f.sf()) != a.len() {
                        out.counter("observation:vk.bytes_length!=written_length", 1);
                    }
                    let pb = inner_pk.to_bytes(f.sf());
                    if inner_pk.bytes_length(f.sf()) != pb.len() {
                        out.counter("observation:pk.bytes_length!=written_length", 1);
                    }
                }
                if inner_pk.get_vk().transcript_repr() != r.repr {
                    out.viol(Viol::new(
                        format!("pk-embeds-different-vk:{}", kind.class()),
                        "the vk inside the pk has a different transcript_repr",
                        json!({"subject": kind.name()}),
                    ));
                }
                out.sample = Some(json!({
                    "subject": kind.name(), "k": kind.k(),
                    "vk_bytes": r.vk_bytes.iter().map(|b| b.len()).collect::<Vec<_>>(),
                    "pk_bytes": r.pk_bytes.iter().map(|b| b.len()).collect::<Vec<_>>(),
                    "transcript_repr": repr_hex(&r.repr), "proof_len": r.proof.len(),
                    "prover_deterministic": r.prover_deterministic, "deterministic_proof_prefix": r.det_prefix,
                    "bytes_length_claimed": {"vk": Fmt::ALL.iter().map(|f| inner_vk.bytes_length(f.sf())).collect::<Vec<_>>(), "pk": Fmt::ALL.iter().map(|f| inner_pk.bytes_length(f.sf())).collect::<Vec<_>>()},
                }));
            }
        }
        out
    }

    fn run_keygen(&self, t: usize) -> CaseOut {
        let mut out = CaseOut::batch();
        let kind = &self.kind;
        let rf = match self.reference() {
            Ok(r) => r,
            Err(e) => {
                self.harness_fail(&mut out, "reference keygen", e);
                return out;
            }
        };
        let params = api::setup(kind.k(), self.seed);
        let class = kind.class();
        for rep in 0..REPS {
            let detail = json!({"subject": kind.name(), "pool": t, "repetition": rep});
            type Got<PK> = (usize, [Vec<u8>; 3], [Vec<u8>; 3], F, PK);
            let r = vcore::in_pool(t, || {
                vcore::catch(|| -> Result<Got<K::PK>, String> {
                    let n = rayon::current_num_threads();
                    let (vk, pk) = kind.keygen(&params)?;
                    let vb = all_fmts(|f| kind.vk_write(&vk, f))?;
                    let pb = all_fmts(|f| kind.pk_write(&pk, f))?;
                    Ok((n, vb, pb, kind.vk_inner(&vk).transcript_repr(), pk))
                })
            });
            let nontrivial = t > 1 || rep > 0;
            let (n, vb, pb, repr, pk) = match r {
                Err(p) => {
                    out.eval("panic", nontrivial);
                    out.viol(Viol::new(format!("panic:keygen:{class}:pool={t}:{}", vcore::panic_site(&p)), format!("keygen panicked: {p}"), detail));
                    continue;
                }
                Ok(Err(e)) => {
                    out.eval("keygen-failed", nontrivial);
                    out.viol(Viol::new(format!("keygen-nondeterministic:fails:{class}:pool={t}"), format!("keygen failed where the pool-1 reference succeeded: {e}"), detail));
                    continue;
                }
                Ok(Ok(x)) => x,
            };
            out.counter(if n == t { "pool_size_confirmed" } else { "pool_size_MISMATCH" }, 1);
            let mut same = true;
            for f in Fmt::ALL {
                if vb[f.idx()] != rf.vk_bytes[f.idx()] {
                    same = false;
                    let mut d = detail.clone();
                    d["format"] = json!(f.name());
                    d["diff"] = first_diff(&rf.vk_bytes[f.idx()], &vb[f.idx()]);
                    out.viol(Viol::new(format!("keygen-nondeterministic:vk:{class}:pool={t}"), "verifying key bytes differ from the pool-1 reference", d));
                }
                if pb[f.idx()] != rf.pk_bytes[f.idx()] {
                    same = false;
                    let mut d = detail.clone();
                    d["format"] = json!(f.name());
                    d["diff"] = first_diff(&rf.pk_bytes[f.idx()], &pb[f.idx()]);
                    out.viol(Viol::new(format!("keygen-nondeterministic:pk:{class}:pool={t}"), "proving key bytes differ from the pool-1 reference", d));
                }
            }
            if repr != rf.repr {
                same = false;
                let mut d = detail.clone();
                d["reference"] = json!(repr_hex(&rf.repr));
                d["got"] = json!(repr_hex(&repr));
                out.viol(Viol::new(format!("keygen-nondeterministic:transcript_repr:{class}:pool={t}"), "transcript_repr differs from the pool-1 reference", d));
            }
            out.eval(if same { "keys-identical" } else { "keys-DIFFER" }, nontrivial);
            // interchangeable proving keys: same proof with the same blinding stream, accepted
            // by the reference vk (first repetition of every pool)
            if rep == 0 {
                let b = blind(self.seed);
                let vparams = params.verifier_params();
                match pool1(|| kind.prove(&params, &pk, b)) {
                    Ok(Ok(p)) => {
                        let acc = pool1(|| kind.verify(&vparams, &rf.vk, &p));
                        let bytes_ok = rf.same_deterministic_part(&p);
                        if matches!(acc, Ok(Ok(()))) && bytes_ok {
                            out.eval("pk-interchangeable", nontrivial);
                        } else {
                            out.eval("pk-NOT-interchangeable", nontrivial);
                            let mut d = detail.clone();
                            d["verdict_under_reference_vk"] = json!(format!("{acc:?}"));
                            d["diff"] = first_diff(&rf.proof, &p);
                            out.viol(Viol::new(
                                format!("keygen-nondeterministic:pk-proof:{class}:pool={t}"),
                                "the pk generated under this pool does not produce the reference proof / a proof the reference vk accepts",
                                d,
                            ));
                        }
                    }
                    Ok(Err(e)) => {
                        out.eval("prove-failed", nontrivial);
                        out.viol(Viol::new(format!("keygen-nondeterministic:pk-prove-fails:{class}:pool={t}"), e, detail.clone()));
                    }
                    Err(p) => {
                        out.eval("panic", nontrivial);
                        out.viol(Viol::new(format!("panic:prove:{class}:pool={t}:{}", vcore::panic_site(&p)), p, detail.clone()));
                    }
                }
            }
            if rep == 0 {
                out.sample = Some(json!({"case": detail, "threads_seen": n, "vk_len": vb[1].len(), "pk_len": pb[1].len(), "identical_to_reference": same}));
            }
        }
        out
    }

    fn run_roundtrip(&self, obj: Obj, w: Fmt, r: Fmt) -> CaseOut {
        vcore::in_pool(1, || self.roundtrip_body(obj, w, r))
    }

    fn run_pv(&self, w: Fmt, r: Fmt) -> CaseOut {
        vcore::in_pool(1, || self.pv_body(w, r))
    }

    /// keygen on an SRS of size k+extra brought down with the documented downsizing call gives
    /// the reference keys
    fn run_keygen_downsized(&self, extra: u32) -> CaseOut {
        let mut out = CaseOut::batch();
        let kind = &self.kind;
        let rf = match self.reference() {
            Ok(r) => r,
            Err(e) => {
                self.harness_fail(&mut out, "reference keygen", e);
                return out;
            }
        };
        let big = api::setup(kind.k() + extra, self.seed);
        let detail = json!({"subject": kind.name(), "srs_k": kind.k() + extra, "target_k": kind.k()});
        let r = pool1(|| -> Result<([Vec<u8>; 3], [Vec<u8>; 3], u32), String> {
            let mut p: Params = (*big).clone();
            kind.downsize_for(&mut p);
            let mk = p.max_k();
            let (vk, pk) = kind.keygen(&p)?;
            Ok((all_fmts(|f| kind.vk_write(&vk, f))?, all_fmts(|f| kind.pk_write(&pk, f))?, mk))
        });
        match r {
            Err(p) => {
                out.eval("panic", true);
                out.viol(Viol::new(format!("panic:keygen-on-downsized:{}:{}", kind.class(), vcore::panic_site(&p)), p, detail));
            }
            Ok(Err(e)) => {
                out.eval("keygen-failed", true);
                out.viol(Viol::new(format!("downsize:keygen-fails:{}", kind.class()), e, detail));
            }
            Ok(Ok((vb, pb, mk))) => {
                let same = vb == rf.vk_bytes && pb == rf.pk_bytes && mk == kind.k();
                out.eval(if same { "keys-identical" } else { "keys-DIFFER" }, true);
                if !same {
                    let mut d = detail.clone();
                    d["max_k_after_downsize"] = json!(mk);
                    d["vk_diff"] = first_diff(&rf.vk_bytes[1], &vb[1]);
                    out.viol(Viol::new(format!("downsize:keygen-differs:{}", kind.class()), "keys generated on a downsized SRS differ from keys generated on an SRS derived for k directly", d));
                }
                out.sample = Some(detail);
            }
        }
        out
    }
}

// ---------------------------------------------------------------------------------------------
// SRS: serialization and downsizing
// ---------------------------------------------------------------------------------------------

fn params_bytes(p: &Params, f: Fmt) -> io::Result<Vec<u8>> {
    let mut v = vec![];
    p.write_custom(&mut v, f.sf())?;
    Ok(v)
}

fn test_polys(k: u32, seed: u64) -> Vec<(&'static str, Vec<F>)> {
    let n = 1usize << k;
    let unit = |i: usize| {
        let mut v = vec![F::ZERO; n];
        v[i] = F::ONE;
        v
    };
    let mut rng = vcore::rng_for(seed, &format!("c17-poly-{k}"));
    vec![
        ("e_0", unit(0)),
        ("e_1", unit(1.min(n - 1))),
        ("e_last", unit(n - 1)),
        ("dense", (0..n).map(|_| F::random(&mut rng)).collect()),
    ]
}

/// Commitments (coefficient basis, Lagrange basis) of the test polynomials.
fn commitments(p: &Params, k: u32, seed: u64) -> Vec<(&'static str, Vec<u8>, Vec<u8>)> {
    use group::GroupEncoding;
    let dom = EvaluationDomain::<F>::new(1, k);
    test_polys(k, seed)
        .into_iter()
        .map(|(name, v)| {
            let c = <Kzg as PolynomialCommitmentScheme<F>>::commit(p, &dom.coeff_from_vec(v.clone()));
            let l = <Kzg as PolynomialCommitmentScheme<F>>::commit_lagrange(p, &dom.lagrange_from_vec(v));
            (name, c.to_bytes().as_ref().to_vec(), l.to_bytes().as_ref().to_vec())
        })
        .collect()
}

/// commit_lagrange(values) must equal commit(interpolation of values).
fn lagrange_consistent(p: &Params, k: u32, seed: u64) -> Vec<&'static str> {
    let dom = EvaluationDomain::<F>::new(1, k);
    let mut bad = vec![];
    for (name, v) in test_polys(k, seed) {
        let lag = dom.lagrange_from_vec(v);
        let a = <Kzg as PolynomialCommitmentScheme<F>>::commit_lagrange(p, &lag);
        let b = <Kzg as PolynomialCommitmentScheme<F>>::commit(p, &dom.lagrange_to_coeff(lag));
        if a != b {
            bad.push(name);
        }
    }
    bad
}

/// Which sections of two `write_custom(RawBytes)` images differ.
fn srs_sections_differ(a: &[u8], b: &[u8], k: u32) -> Vec<&'static str> {
    let n = 1usize << k;
    let g1 = 96;
    let g2 = 192;
    let exp = 4 + 2 * n * g1 + 2 * g2;
    if a.len() != exp || b.len() != exp {
        return vec!["length"];
    }
    let mut v = vec![];
    let cuts = [("k", 0, 4), ("g", 4, 4 + n * g1), ("g_lagrange", 4 + n * g1, 4 + 2 * n * g1), ("g2", 4 + 2 * n * g1, 4 + 2 * n * g1 + g2), ("s_g2", 4 + 2 * n * g1 + g2, exp)];
    for (name, s, e) in cuts {
        if a[s..e] != b[s..e] {
            v.push(name);
        }
    }
    v
}

fn srs_roundtrip(k: u32, w: Fmt, r: Fmt, seed: u64) -> CaseOut {
    let mut out = CaseOut::batch();
    let p = api::setup(k, seed);
    let pair = format!("{}->{}", w.name(), r.name());
    let detail = json!({"object": "ParamsKZG", "k": k, "write": w.name(), "read": r.name()});
    let refs = match all_fmts(|f| params_bytes(&p, f)) {
        Ok(x) => x,
        Err(e) => {
            out.eval("write-failed", false);
            out.viol(Viol::new("roundtrip:params:write-failed", e, detail));
            return out;
        }
    };
    let src = &refs[w.idx()];
    let compat = compatible(w, r);
    let got = vcore::catch(|| -> io::Result<(Params, usize)> {
        let mut rd: &[u8] = src;
        let q = Params::read_custom(&mut rd, r.sf())?;
        Ok((q, rd.len()))
    });
    match (compat, got) {
        (false, Err(p_)) if r == Fmt::U => {
            out.eval("incompatible:unchecked-read-panicked(not-a-violation)", true);
            out.sample = Some(json!({"case": detail, "panic": p_}));
        }
        (_, Err(p_)) => {
            out.eval("panic", true);
            out.viol(Viol::new(format!("panic:roundtrip-params:{pair}:{}", vcore::panic_site(&p_)), format!("ParamsKZG::read_custom panicked: {p_}"), detail));
        }
        (true, Ok(Err(e))) => {
            out.eval("compatible:read-failed", true);
            out.viol(Viol::new(format!("roundtrip:params:{pair}:read-failed"), format!("{e}"), detail));
        }
        (true, Ok(Ok((q, left)))) => {
            let mut ok = left == 0;
            if left != 0 {
                out.viol(Viol::new(format!("roundtrip:params:{pair}:trailing-bytes-unread"), format!("{left} bytes left unread"), detail.clone()));
            }
            let res = vcore::catch(|| -> Result<Vec<String>, String> {
                let mut bad = vec![];
                let again = all_fmts(|f| params_bytes(&q, f))?;
                for f in Fmt::ALL {
                    if again[f.idx()] != refs[f.idx()] {
                        bad.push(format!("bytes-differ({})", f.name()));
                    }
                }
                if q.g_lagrange() != p.g_lagrange() {
                    bad.push("g_lagrange-differs".into());
                }
                if q.g2() != p.g2() {
                    bad.push("g2-differs".into());
                }
                if q.s_g2() != p.s_g2() {
                    bad.push("s_g2-differs".into());
                }
                if q.max_k() != p.max_k() {
                    bad.push("max_k-differs".into());
                }
                if commitments(&q, k, seed) != commitments(&p, k, seed) {
                    bad.push("commit-differs".into());
                }
                Ok(bad)
            });
            match res {
                Ok(Ok(bad)) => {
                    for b in &bad {
                        ok = false;
                        let key = b.split('(').next().unwrap();
                        out.viol(Viol::new(format!("roundtrip:params:{pair}:{key}"), format!("reloaded ParamsKZG: {b}"), detail.clone()));
                    }
                }
                Ok(Err(e)) => {
                    ok = false;
                    out.viol(Viol::new(format!("roundtrip:params:{pair}:rewrite-failed"), e, detail.clone()));
                }
                Err(p_) => {
                    ok = false;
                    out.viol(Viol::new(format!("panic:use-reloaded-params:{pair}:{}", vcore::panic_site(&p_)), p_, detail.clone()));
                }
            }
            out.eval(if ok { "compatible:identical" } else { "compatible:DIFFERENT" }, true);
            out.sample = Some(json!({"case": detail, "bytes": src.len()}));
        }
        (false, Ok(Err(e))) => {
            out.eval("incompatible:refused", true);
            out.counter("incompatible_refused", 1);
            out.sample = Some(json!({"case": detail, "error": e.to_string()}));
        }
        (false, Ok(Ok(_))) => {
            if r != Fmt::U {
                out.eval("incompatible:ACCEPTED", true);
                out.viol(Viol::new(format!("incompatible-format-accepted:params:{pair}"), "ParamsKZG written in one format were read in an incompatible one without error", detail));
            } else {
                out.eval("incompatible:unchecked-read-garbage(not-a-violation)", true);
            }
        }
    }
    out
}

fn vparams_roundtrip(k: u32, w: Fmt, r: Fmt, seed: u64) -> CaseOut {
    let mut out = CaseOut::batch();
    let p = api::setup(k, seed);
    let vp = p.verifier_params();
    let pair = format!("{}->{}", w.name(), r.name());
    let detail = json!({"object": "ParamsVerifierKZG", "k": k, "write": w.name(), "read": r.name()});
    let wr = |x: &VParams, f: Fmt| -> io::Result<Vec<u8>> {
        let mut v = vec![];
        x.write(&mut v, f.sf())?;
        Ok(v)
    };
    let refs = match all_fmts(|f| wr(&vp, f)) {
        Ok(x) => x,
        Err(e) => {
            out.eval("write-failed", false);
            out.viol(Viol::new("roundtrip:vparams:write-failed", e, detail));
            return out;
        }
    };
    let src = &refs[w.idx()];
    let compat = compatible(w, r);
    let got = vcore::catch(|| -> io::Result<(VParams, usize)> {
        let mut rd: &[u8] = src;
        let q = VParams::read(&mut rd, r.sf())?;
        Ok((q, rd.len()))
    });
    match (compat, got) {
        (false, Err(p_)) if r == Fmt::U => {
            out.eval("incompatible:unchecked-read-panicked(not-a-violation)", true);
            out.sample = Some(json!({"case": detail, "panic": p_}));
        }
        (_, Err(p_)) => {
            out.eval("panic", true);
            out.viol(Viol::new(format!("panic:roundtrip-vparams:{pair}:{}", vcore::panic_site(&p_)), format!("ParamsVerifierKZG::read panicked: {p_}"), detail));
        }
        (true, Ok(Err(e))) => {
            out.eval("compatible:read-failed", true);
            out.viol(Viol::new(format!("roundtrip:vparams:{pair}:read-failed"), format!("{e}"), detail));
        }
        (true, Ok(Ok((q, left)))) => {
            let mut ok = left == 0;
            match all_fmts(|f| wr(&q, f)) {
                Ok(again) => {
                    for f in Fmt::ALL {
                        if again[f.idx()] != refs[f.idx()] {
                            ok = false;
                            out.viol(Viol::new(format!("roundtrip:vparams:{pair}:bytes-differ"), format!("reloaded ParamsVerifierKZG serialises differently ({})", f.name()), detail.clone()));
                        }
                    }
                }
                Err(e) => {
                    ok = false;
                    out.viol(Viol::new(format!("roundtrip:vparams:{pair}:rewrite-failed"), e, detail.clone()));
                }
            }
            out.eval(if ok { "compatible:identical" } else { "compatible:DIFFERENT" }, true);
            out.sample = Some(json!({"case": detail, "bytes": src.len()}));
        }
        (false, Ok(Err(e))) => {
            out.eval("incompatible:refused", true);
            out.counter("incompatible_refused", 1);
            out.sample = Some(json!({"case": detail, "error": e.to_string()}));
        }
        (false, Ok(Ok(_))) => {
            if r != Fmt::U {
                out.eval("incompatible:ACCEPTED", true);
                out.viol(Viol::new(format!("incompatible-format-accepted:vparams:{pair}"), "ParamsVerifierKZG written in one format were read in an incompatible one without error", detail));
            } else {
                out.eval("incompatible:unchecked-read-garbage(not-a-violation)", true);
            }
        }
    }
    out
}

/// downsize(k -> k') under every pool == unsafe_setup(k') from the same secret.
fn downsize_case(k: u32, kp: u32, seed: u64) -> CaseOut {
    let mut out = CaseOut::batch();
    let big = api::setup(k, seed);
    // the reference: parameters derived for k' directly from the same RNG stream (unsafe_setup
    // draws exactly one scalar), inside a one-thread pool
    let fresh = match pool1(|| Params::unsafe_setup(kp, vcore::rng_for(seed, "srs"))) {
        Ok(p) => p,
        Err(p) => {
            out.eval("panic", true);
            out.viol(Viol::new(format!("panic:unsafe_setup:{}", vcore::panic_site(&p)), p, json!({"k": kp})));
            return out;
        }
    };
    let fresh_bytes = params_bytes(&fresh, Fmt::R).unwrap_or_default();
    let fresh_com = commitments(&fresh, kp, seed);
    for t in POOLS {
        let detail = json!({"from_k": k, "to_k": kp, "pool": t, "srs_seed_stream": "srs"});
        let nontrivial = kp < k;
        // unsafe_setup itself under this pool
        let r = vcore::in_pool(t, || vcore::catch(|| (rayon::current_num_threads(), Params::unsafe_setup(kp, vcore::rng_for(seed, "srs")))));
        match r {
            Err(p) => {
                out.eval("panic", true);
                out.viol(Viol::new(format!("panic:unsafe_setup:pool={t}:{}", vcore::panic_site(&p)), p, detail.clone()));
            }
            Ok((n, q)) => {
                out.counter(if n == t { "pool_size_confirmed" } else { "pool_size_MISMATCH" }, 1);
                let b = params_bytes(&q, Fmt::R).unwrap_or_default();
                if b == fresh_bytes {
                    out.eval("unsafe_setup:pool-independent", t > 1);
                } else {
                    out.eval("unsafe_setup:POOL-DEPENDENT", true);
                    let mut d = detail.clone();
                    d["sections"] = json!(srs_sections_differ(&fresh_bytes, &b, kp));
                    out.viol(Viol::new(format!("srs-nondeterministic:unsafe_setup:pool={t}"), "unsafe_setup from the same secret differs between pool sizes", d));
                }
            }
        }
        // downsize under this pool
        let r = vcore::in_pool(t, || {
            vcore::catch(|| {
                let mut q: Params = (*big).clone();
                q.downsize(kp);
                q
            })
        });
        let q = match r {
            Err(p) => {
                out.eval("panic", true);
                out.viol(Viol::new(format!("panic:downsize:k'={kp}:{}", vcore::panic_site(&p)), p, detail.clone()));
                continue;
            }
            Ok(q) => q,
        };
        let checks = vcore::catch(|| -> Vec<String> {
            let mut bad = vec![];
            let b = params_bytes(&q, Fmt::R).unwrap_or_default();
            for s in srs_sections_differ(&fresh_bytes, &b, kp) {
                bad.push(format!("{s}-differs"));
            }
            if q.g_lagrange() != fresh.g_lagrange() && !bad.iter().any(|x| x == "g_lagrange-differs") {
                bad.push("g_lagrange-differs".into());
            }
            if q.g2() != fresh.g2() && !bad.iter().any(|x| x == "g2-differs") {
                bad.push("g2-differs".into());
            }
            if q.s_g2() != fresh.s_g2() && !bad.iter().any(|x| x == "s_g2-differs") {
                bad.push("s_g2-differs".into());
            }
            if q.max_k() != kp {
                bad.push("max_k-wrong".into());
            }
            let com = commitments(&q, kp, seed);
            if com.iter().zip(fresh_com.iter()).any(|(a, b)| a.1 != b.1) {
                bad.push("commit-differs".into());
            }
            if com.iter().zip(fresh_com.iter()).any(|(a, b)| a.2 != b.2) {
                bad.push("commit_lagrange-differs".into());
            }
            if !lagrange_consistent(&q, kp, seed).is_empty() {
                bad.push("commit_lagrange-inconsistent-with-commit".into());
            }
            bad
        });
        match checks {
            Err(p) => {
                out.eval("panic", true);
                out.viol(Viol::new(format!("panic:use-downsized:k'={kp}:{}", vcore::panic_site(&p)), p, detail.clone()));
            }
            Ok(bad) if bad.is_empty() => out.eval("downsize:equals-fresh", nontrivial),
            Ok(bad) => {
                out.eval("downsize:DIFFERS", true);
                for b in bad {
                    out.viol(Viol::new(format!("downsize:{b}:k'={kp}"), format!("downsize({k} -> {kp}) under pool {t}: {b}"), detail.clone()));
                }
            }
        }
        if t == 3 {
            out.sample = Some(json!({"case": detail, "srs_bytes": fresh_bytes.len()}));
        }
    }
    out
}

// ---------------------------------------------------------------------------------------------

fn fam_subjects(seed: u64) -> Vec<(FamKind, Option<String>)> {
    let mut look = FamParams::minimal();
    look.lookup = true;
    look.lookup_any = true;
    let mut v1 = FamParams::rich(2, 2);
    v1.inst_query = false; // needs absolute row 0
    let list: Vec<(&'static str, FamParams, bool)> = vec![
        ("minimal", FamParams::minimal(), false),
        ("rich-ph1-in1", FamParams::rich(1, 1), false),
        ("rich-ph2-in2", FamParams::rich(2, 2), false),
        ("rich-ph3-in3", FamParams::rich(3, 3), false),
        ("lookups-only", look, false),
        ("rich-ph2-in2-v1planner", v1, true),
    ];
    list.into_iter()
        .map(|(label, p, v1)| match lattice::min_k(&p, v1, seed) {
            Some(k) => (FamKind { label, p, v1, k, seed }, None),
            None => (FamKind { label, p, v1, k: 0, seed }, Some(format!("Fam {label} does not fit k <= 9"))),
        })
        .collect()
}

fn main() {
    let mut cx = Ctx::from_args("C17", Level::Exploration);
    vcore::pin_global_rayon(1);
    cx.set_rule(
        "subjects = 6 members of Fam (minimal, rich(1,1), rich(2,2), rich(3,3), lookups only, V1 floor planner) + \
         std-lib relations (native arithmetic, Poseidon, Jubjub scalar multiplication, SHA-256, lookup+Poseidon+SHA-256+Jubjub; \
         quick keeps those with k <= 10). Groups: keygen-determinism = subject x pool {1,2,3,8,16} x 3 repetitions \
         (vk/pk bytes in 3 formats, transcript_repr, proof made with the key vs the pool-1 reference); roundtrip = subject x \
         {vk,pk} x write format x read format (all 9 pairs: 5 compatible must reproduce the object in every format, 4 incompatible \
         must be refused); prove-verify = subject x 5 compatible pairs x {4 pk/vk combinations, reloaded SRS, reloaded verifier \
         params, foreign proof under original and reloaded vk}; srs-roundtrip = ParamsKZG and ParamsVerifierKZG x k x 9 format pairs x rayon pools {1,2,3,8}; \
         downsize = (k, k') for every k' in 1..=k x 5 pools, against unsafe_setup(k') from the same secret; keygen-on-downsized = \
         subject x SRS of size k+1, k+2. A case is non-trivial unless it is the pool-1 first repetition or a k'=k downsize.",
    );
    cx.assume("schedules of this sequential library = rayon pool size: the only schedule-dependent input of the code under test is rayon::current_num_threads(), and tasks own disjoint slices; every pool size of the property's list is run with ThreadPool::install and the size seen inside is asserted");
    cx.assume("SRS from ParamsKZG::unsafe_setup with a seeded ChaCha stream: it draws exactly one scalar, so re-seeding reproduces the same secret for every k");
    cx.assume("format compatibility is taken from the documentation of MidnightVK::read / MidnightPK::read / SerdeFormat: Processed<->Processed, {RawBytes,RawBytesUnchecked}<->{RawBytes,RawBytesUnchecked}; reading Processed bytes with RawBytesUnchecked is a caller error with unspecified behaviour (recorded, not judged)");
    cx.assume("create_proof is not a function of its rng argument: blind_quotient_limbs draws from OsRng. Proofs made with two keys are therefore compared on the deterministic prefix only (everything before the first quotient-limb commitment, located by running the reference prover twice), and all of them are verified");
    let seed = cx.seed;
    let thorough = cx.tier.is_thorough();

    // ---- subjects
    let mut subjects: Vec<Box<dyn Subject>> = vec![];
    for (f, skip) in fam_subjects(seed) {
        match skip {
            None => subjects.push(Box::new(Holder::new(f, seed))),
            Some(why) => cx.machinery_error(why),
        }
    }
    let kmax = if thorough { 14 } else { 10 };
    macro_rules! add_rel {
        ($rel:expr) => {{
            let rel = $rel;
            match pool1(|| rel_min_k(&rel)) {
                Ok(k) if k <= kmax => subjects.push(Box::new(Holder::new(StdKind { rel, k, seed }, seed))),
                Ok(k) => cx.note(format!("std-lib relation {} needs k = {k}: left to the thorough tier", StdRel::label(&rel))),
                Err(p) => cx.machinery_error(format!("min_k of relation {} panicked: {p}", StdRel::label(&rel))),
            }
        }};
    }
    add_rel!(NativeRel { c: 5 });
    add_rel!(PoseidonRel { c: 5 });
    add_rel!(JubjubRel { c: 5 });
    add_rel!(ShaRel { c: 5 });
    add_rel!(ComboRel { c: 5 });
    let n_subjects = subjects.len();
    cx.extra("subjects", json!(subjects.iter().map(|s| json!({"name": s.name(), "k": s.k()})).collect::<Vec<_>>()));

    // ---- reference keys (pool 1) and honest proof
    let cases: Vec<(String, (String, usize))> = subjects.iter().enumerate().map(|(i, s)| (s.name(), (s.name(), i))).collect();
    cx.run_cases("reference", &cases, |(key, i)| sticky("reference", key, || subjects[*i].run_reference()));

    // ---- (a) keygen determinism
    let cases: Vec<(String, (String, usize, usize))> = subjects
        .iter()
        .enumerate()
        .flat_map(|(i, s)| POOLS.iter().map(move |t| (format!("{}/pool={t}", s.name()), (format!("{}/pool={t}", s.name()), i, *t))))
        .collect();
    cx.run_cases_with("keygen-determinism", &cases, 2, |(key, i, t)| sticky("keygen-determinism", key, || subjects[*i].run_keygen(*t)));

    // ---- (b) round trips of keys
    let mut cases: Vec<(String, (String, usize, Obj, Fmt, Fmt))> = vec![];
    for (i, s) in subjects.iter().enumerate() {
        for obj in [Obj::Vk, Obj::Pk] {
            for w in Fmt::ALL {
                for r in Fmt::ALL {
                    let key = format!("{}/{}/{}->{}", s.name(), obj.name(), w.name(), r.name());
                    cases.push((key.clone(), (key, i, obj, w, r)));
                }
            }
        }
    }
    cx.run_cases("roundtrip", &cases, |(key, i, o, w, r)| sticky("roundtrip", key, || subjects[*i].run_roundtrip(*o, *w, *r)));

    // ---- (c) prove / verify with original and reloaded keys
    let mut cases: Vec<(String, (String, usize, Fmt, Fmt))> = vec![];
    for (i, s) in subjects.iter().enumerate() {
        for w in Fmt::ALL {
            for r in Fmt::ALL {
                if compatible(w, r) {
                    let key = format!("{}/{}->{}", s.name(), w.name(), r.name());
                    cases.push((key.clone(), (key, i, w, r)));
                }
            }
        }
    }
    cx.run_cases("prove-verify", &cases, |(key, i, w, r)| sticky("prove-verify", key, || subjects[*i].run_pv(*w, *r)));

    // ---- SRS round trips
    let srs_ks: Vec<u32> = if thorough { vec![1, 2, 3, 4, 5, 6, 8, 10, 13] } else { vec![1, 2, 3, 5, 8] };
    // every round trip under rayon pools {1, 2, 3, 8}: the readers decode points in parallel chunks,
    // and the reloaded object must not depend on how the work was split
    let mut cases: Vec<(String, (String, bool, u32, Fmt, Fmt, usize))> = vec![];
    for &k in &srs_ks {
        for w in Fmt::ALL {
            for r in Fmt::ALL {
                for t in [1usize, 2, 3, 8] {
                    let key = format!("params/k={k}/{}->{}/pool={t}", w.name(), r.name());
                    cases.push((key.clone(), (key, false, k, w, r, t)));
                    let key = format!("vparams/k={k}/{}->{}/pool={t}", w.name(), r.name());
                    cases.push((key.clone(), (key, true, k, w, r, t)));
                }
            }
        }
    }
    cx.run_cases("srs-roundtrip", &cases, |(key, v, k, w, r, t)| {
        sticky("srs-roundtrip", key, || vcore::in_pool(*t, || if *v { vparams_roundtrip(*k, *w, *r, seed) } else { srs_roundtrip(*k, *w, *r, seed) }))
    });

    // ---- (d) downsizing
    let from_ks: Vec<u32> = if thorough { (1..=13).collect() } else { (1..=9).collect() };
    let mut cases: Vec<(String, (String, u32, u32))> = vec![];
    for &k in &from_ks {
        for kp in 1..=k {
            cases.push((format!("k={k}->k'={kp}"), (format!("k={k}->k'={kp}"), k, kp)));
        }
    }
    cx.run_cases_with("downsize", &cases, 4, |(key, k, kp)| sticky("downsize", key, || downsize_case(*k, *kp, seed)));

    let mut cases: Vec<(String, (String, usize, u32))> = vec![];
    for (i, s) in subjects.iter().enumerate() {
        for extra in [1u32, 2] {
            let key = format!("{}/srs=k+{extra}", s.name());
            cases.push((key.clone(), (key, i, extra)));
        }
    }
    cx.run_cases("keygen-on-downsized", &cases, |(key, i, e)| sticky("keygen-on-downsized", key, || subjects[*i].run_keygen_downsized(*e)));

    // ---- outcomes that changed between two executions of the same case
    let unstable = std::mem::take(&mut *UNSTABLE.lock().unwrap());
    for (group, full, a, b) in unstable {
        cx.report_violation(
            &group,
            &full,
            Viol::new(
                format!("unstable-outcome:{group}"),
                "two executions of the same case (same seeds, same cached reference) reported different violation sets: the code under test is not a function of its inputs",
                json!({"first_execution": a, "second_execution": b}),
            ),
        );
    }

    // ---- anti-vacuity
    cx.require(cx.counter_value("reference_ok") as usize == n_subjects && n_subjects >= 8, "every subject must have reference keys and an accepted honest proof (>= 8 subjects)");
    let confirmed = cx.counter_value("pool_size_confirmed");
    cx.require(cx.counter_value("pool_size_MISMATCH") == 0 && confirmed as usize >= n_subjects * POOLS.len() * REPS, "rayon::current_num_threads() inside each pool must equal the requested size in every run");
    cx.require(cx.counter_value("incompatible_refused") > 0, "no incompatible (write, read) format pair was refused");
    cx.require(cx.counter_value("wrong_circuit_rejected") > 0, "no wrong-circuit proof was rejected");
    cx.require(cx.counter_value("foreign_vk_differs") > 0, "the foreign circuit's vk never differed from the subject's (comparison would be vacuous)");
    cx.require(cx.class_count("prove-verify:honest:accept") > 0, "no honest proof was accepted in the prove-verify group");
    let up = cx.class_count("roundtrip:incompatible:unchecked-read-panicked(not-a-violation)") + cx.class_count("srs-roundtrip:incompatible:unchecked-read-panicked(not-a-violation)");
    let ug = cx.class_count("roundtrip:incompatible:unchecked-read-garbage(not-a-violation)") + cx.class_count("srs-roundtrip:incompatible:unchecked-read-garbage(not-a-violation)");
    cx.note(format!(
        "Processed bytes read with RawBytesUnchecked: {up} case(s) panicked inside read_raw_unchecked, {ug} produced an unusable object without error; \
         both are outside the documented contract of the unchecked reader (\"no checks\", \"only if you trust the party who wrote the key\", format must match) and are not judged"
    ));
    let o1 = cx.counter_value("observation:vk.bytes_length!=written_length");
    let o2 = cx.counter_value("observation:pk.bytes_length!=written_length");
    if o1 + o2 > 0 {
        cx.note(format!(
            "observation (not part of C17): VerifyingKey::bytes_length() disagreed with the number of bytes written in {o1} (subject, format) cases and ProvingKey::bytes_length() in {o2}; the value is only used as a Vec capacity hint by to_bytes()"
        ));
    }
    cx.finish()
}
