//! C07 — hash gadgets equal their reference functions on every message.

mod fs;
mod fscases;
mod refs;
mod zk;

use std::{
    collections::HashMap,
    sync::{Arc, Mutex},
    time::Instant,
};

use ff::{Field, PrimeField};
use fscases::{Filler, PoseidonVarCase, RipemdCase, SOp, ShaVarCase, SpongeCase};
use midnight_circuits::{
    hash::poseidon::{constants::PoseidonField, permutation_cpu, round_skips::PreComputedRoundCPU, PoseidonChip, PoseidonState},
    instructions::{hash::HashCPU, SpongeCPU},
};
use midnight_proofs::transcript::TranscriptHash;
use num_bigint::BigUint;
use rand_core::RngCore;
use refs::{ByteHash, Grain, PoseidonParams};
use serde_json::json;
use vcore::{catch, CaseOut, Ctx, Level, Viol};
use vgad::{val::*, Judgement, OpCase, Outcome, F};
use zk::{ZCase, ZIn};

fn content(name: &str, len: usize, seed: u64, stream: &str) -> Vec<u8> {
    match name {
        "counter" => (0..len).map(|i| i as u8).collect(),
        "zero" => vec![0; len],
        "ff" => vec![0xFF; len],
        "seeded" => {
            let mut rng = vcore::rng_for(seed, &format!("c07-msg-{stream}-{len}"));
            let mut v = vec![0u8; len];
            rng.fill_bytes(&mut v);
            v
        }
        _ => unreachable!(),
    }
}

/// Published parameters as big integers, the S-box word of the partial rounds as implemented.
fn published_params() -> PoseidonParams {
    let rc = <F as PoseidonField>::ROUND_CONSTANTS;
    let mds = <F as PoseidonField>::MDS;
    PoseidonParams {
        p: modulus(),
        rc: rc.iter().map(|r| [to_big(&r[0]), to_big(&r[1]), to_big(&r[2])]).collect(),
        mds: [
            [to_big(&mds[0][0]), to_big(&mds[0][1]), to_big(&mds[0][2])],
            [to_big(&mds[1][0]), to_big(&mds[1][1]), to_big(&mds[1][2])],
            [to_big(&mds[2][0]), to_big(&mds[2][1]), to_big(&mds[2][2])],
        ],
        partial_word: refs::T - 1,
    }
}

/// Phase A: regenerate the round constants and the MDS matrix from the Grain LFSR.
fn check_constants(cx: &mut Ctx, params: &PoseidonParams) -> bool {
    let p = &params.p;
    let mut out = CaseOut::batch();
    let mut g = Grain::new(1, 0, 255, refs::T as u32, refs::R_F as u32, refs::R_P as u32);
    let n_rounds = refs::R_F + refs::R_P;
    out.eval(if params.rc.len() == n_rounds { "round-count:68" } else { "round-count:other" }, true);
    let mut regenerated: Vec<BigUint> = vec![];
    for _ in 0..n_rounds * refs::T {
        regenerated.push(g.field_element(255, p));
    }
    let mut mismatches = vec![];
    for r in 0..n_rounds.min(params.rc.len()) {
        for i in 0..refs::T {
            let same = regenerated[r * refs::T + i] == params.rc[r][i];
            out.eval(if same { "round-constant:equal" } else { "round-constant:differs" }, true);
            if !same {
                mismatches.push((r, i));
            }
        }
    }
    let prefix_ok = mismatches.iter().all(|(r, _)| *r >= 2) && !regenerated.is_empty();
    let generator_validated = mismatches.is_empty() || prefix_ok;
    if mismatches.is_empty() {
        cx.note("Grain LFSR (field=1, sbox=0, n=255, t=3, R_F=8, R_P=60) regenerates all 204 round constants of constants/blstrs.rs element-wise");
    } else if prefix_ok {
        // the generator reproduces the first two rounds (6 x 255 bits) and then departs: the table is wrong
        let (r, i) = mismatches[0];
        out.viol(Viol::new(
            "poseidon:round-constants:differ-from-grain-lfsr",
            format!(
                "ROUND_CONSTANTS[{r}][{i}] = 0x{} but the Grain LFSR of generate_parameters_grain.sage 1 0 255 3 8 60 p yields 0x{} ({} of 204 constants differ; the first {} match)",
                params.rc[r][i].to_str_radix(16),
                regenerated[r * refs::T + i].to_str_radix(16),
                mismatches.len(),
                r * refs::T + i
            ),
            json!({"round": r, "word": i}),
        ));
    } else {
        cx.note(format!(
            "the Grain-LFSR regeneration could NOT be validated ({} of 204 constants differ, already in the first rounds): ROUND_CONSTANTS are treated as given",
            mismatches.len()
        ));
    }
    // MDS: defining property + Cauchy candidate of the same stream
    let minors = refs::all_minors_nonzero(&params.mds, p);
    out.eval(if minors { "mds:all-minors-nonzero" } else { "mds:singular-minor" }, true);
    if !minors {
        out.viol(Viol::new("poseidon:mds:singular-minor", "the published MDS matrix has a zero square minor (it is not MDS)", json!({})));
    }
    if mismatches.is_empty() {
        let mut found = None;
        for cand in 0..16 {
            let m = refs::next_cauchy(&mut g, 255, p);
            let t: [[BigUint; 3]; 3] = std::array::from_fn(|i| std::array::from_fn(|j| m[j][i].clone()));
            if m == params.mds {
                found = Some((cand, false));
                break;
            }
            if t == params.mds {
                found = Some((cand, true));
                break;
            }
        }
        match found {
            Some((c, transposed)) => {
                out.eval("mds:is-lfsr-cauchy-candidate", true);
                cx.note(format!(
                    "MDS equals Cauchy candidate #{c} (0-based{}) of the LFSR stream that follows the round constants (1/(x_i+y_j), x,y = 6 integers of 255 bits reduced mod p)",
                    if transposed { ", transposed" } else { "" }
                ));
                cx.extra("mds_cauchy_candidate_index", json!(c));
            }
            None => {
                out.eval("mds:not-among-first-16-candidates", true);
                cx.note("MDS is not among the first 16 Cauchy candidates of the LFSR stream (create_mds_p could not be matched); only the minor property was checked");
            }
        }
    }
    out.sample = Some(json!({"rc[0][0]": format!("0x{}", regenerated[0].to_str_radix(16)), "mismatches": mismatches.len()}));
    cx.record("poseidon-constants", "grain-lfsr", out);
    generator_validated
}

fn fvec(xs: &[F]) -> Vec<String> {
    xs.iter().map(hex).collect()
}

/// Phase B: off-circuit Poseidon (HashCPU, SpongeCPU, transcript PoseidonState, permutation_cpu).
fn cpu_cases(seed: u64, thorough: bool) -> Vec<(String, (Option<usize>, Vec<SOp>))> {
    let mut rng = vcore::rng_for(seed, "c07-cpu");
    let mut cases: Vec<(String, (Option<usize>, Vec<SOp>))> = vec![];
    let elems = |n: usize, kind: usize, rng: &mut rand_chacha::ChaCha20Rng| -> Vec<F> {
        (0..n)
            .map(|i| match kind {
                0 => F::ZERO,
                1 => F::random(&mut *rng),
                _ => -F::from(i as u64 + 1),
            })
            .collect()
    };
    // fixed-length hashing grid: lengths 0..=12 x {zero, seeded, near-p}
    for len in 0..=12usize {
        for kind in 0..3 {
            let v = elems(len, kind, &mut rng);
            cases.push((format!("fixed/len{len}/kind{kind}"), (Some(len), vec![SOp::Absorb(v), SOp::Squeeze])));
        }
    }
    // fixed-length with the input split over two absorbs
    for len in 0..=6usize {
        for cut in 0..=len {
            let v = elems(len, 1, &mut rng);
            cases.push((format!("fixed-split/len{len}/cut{cut}"), (Some(len), vec![SOp::Absorb(v[..cut].to_vec()), SOp::Absorb(v[cut..].to_vec()), SOp::Squeeze])));
        }
    }
    // transcript shape: 0..=4 absorbed vectors (lengths from a rotating pattern), then 1..=3 squeezes
    let lens = [0usize, 1, 2, 3, 5];
    for nv in 0..=4usize {
        for rot in 0..lens.len() {
            for ns in 1..=3usize {
                let mut ops = vec![];
                for j in 0..nv {
                    ops.push(SOp::Absorb(elems(lens[(rot + j) % lens.len()], 1, &mut rng)));
                }
                for _ in 0..ns {
                    ops.push(SOp::Squeeze);
                }
                cases.push((format!("transcript/vecs{nv}/rot{rot}/squeezes{ns}"), (None, ops)));
            }
        }
    }
    // every sequence over {A0,A1,A2,A3,S} up to depth 4 (5 in thorough)
    let depth = if thorough { 5 } else { 4 };
    let mut seqs: Vec<Vec<usize>> = vec![vec![]];
    let mut frontier = seqs.clone();
    for _ in 0..depth {
        let mut next = vec![];
        for s in &frontier {
            for sym in 0..5usize {
                let mut t = s.clone();
                t.push(sym);
                next.push(t);
            }
        }
        seqs.extend(next.iter().cloned());
        frontier = next;
    }
    for s in seqs.into_iter().filter(|s| s.contains(&4)) {
        let name: String = s.iter().map(|x| if *x == 4 { "S".to_string() } else { format!("A{x}") }).collect();
        let ops = s.iter().map(|x| if *x == 4 { SOp::Squeeze } else { SOp::Absorb(elems(*x, 1, &mut rng)) }).collect();
        cases.push((format!("seq/{name}"), (None, ops)));
    }
    cases
}

fn run_cpu_case(params: &PoseidonParams, input_len: Option<usize>, ops: &[SOp]) -> CaseOut {
    let mut out = CaseOut::batch();
    let Some(expect) = fscases::model_sponge(params, input_len, ops) else {
        out.eval("outside-domain", false);
        return out;
    };
    let detail = json!({"input_len": input_len, "ops": ops.iter().map(|o| match o { SOp::Absorb(v) => json!({"absorb": fvec(v)}), SOp::Squeeze => json!("squeeze") }).collect::<Vec<_>>()});
    // SpongeCPU
    let got = catch(|| {
        let mut st = <PoseidonChip<F> as SpongeCPU<F, F>>::init(input_len);
        let mut outs = vec![];
        for o in ops {
            match o {
                SOp::Absorb(v) => <PoseidonChip<F> as SpongeCPU<F, F>>::absorb(&mut st, v),
                SOp::Squeeze => outs.push(<PoseidonChip<F> as SpongeCPU<F, F>>::squeeze(&mut st)),
            }
        }
        outs
    });
    match got {
        Ok(g) => {
            let same = g.iter().map(to_big).collect::<Vec<_>>() == expect;
            out.eval(if same { "sponge-cpu:equal" } else { "sponge-cpu:differs" }, true);
            if !same {
                out.viol(Viol::new(
                    "poseidon:sponge-cpu:differs-from-plain-model",
                    format!("SpongeCPU squeezes {:?} but the plain model gives {:?}", fvec(&g), expect.iter().map(|x| format!("0x{}", x.to_str_radix(16))).collect::<Vec<_>>()),
                    detail.clone(),
                ));
            }
        }
        Err(p) => {
            out.eval("sponge-cpu:panic", true);
            out.viol(Viol::new("poseidon:sponge-cpu:panic", format!("SpongeCPU panicked on an admissible sequence: {p}"), detail.clone()));
        }
    }
    // transcript hash (variable-length mode only: PoseidonState::init() = init(None))
    if input_len.is_none() {
        let got = catch(|| {
            let mut st = <PoseidonState<F> as TranscriptHash>::init();
            let mut outs = vec![];
            for o in ops {
                match o {
                    SOp::Absorb(v) => <PoseidonState<F> as TranscriptHash>::absorb(&mut st, v),
                    SOp::Squeeze => outs.push(<PoseidonState<F> as TranscriptHash>::squeeze(&mut st)),
                }
            }
            outs
        });
        match got {
            Ok(g) => {
                let same = g.iter().map(to_big).collect::<Vec<_>>() == expect;
                out.eval(if same { "transcript-hash:equal" } else { "transcript-hash:differs" }, true);
                if !same {
                    out.viol(Viol::new("poseidon:transcript-hash:differs-from-plain-model", format!("PoseidonState (TranscriptHash) squeezes {:?}, the plain model differs", fvec(&g)), detail.clone()));
                }
            }
            Err(p) => {
                out.eval("transcript-hash:panic", true);
                out.viol(Viol::new("poseidon:transcript-hash:panic", format!("PoseidonState panicked on an admissible sequence: {p}"), detail.clone()));
            }
        }
    }
    // HashCPU on the concatenation (fixed-length mode, single squeeze)
    if let Some(l) = input_len {
        let all: Vec<F> = ops.iter().flat_map(|o| if let SOp::Absorb(v) = o { v.clone() } else { vec![] }).collect();
        if all.len() == l {
            match catch(|| <PoseidonChip<F> as HashCPU<F, F>>::hash(&all)) {
                Ok(h) => {
                    let same = to_big(&h) == expect[0];
                    out.eval(if same { "hash-cpu:equal" } else { "hash-cpu:differs" }, true);
                    if !same {
                        out.viol(Viol::new("poseidon:hash-cpu:differs-from-plain-model", format!("HashCPU::hash = {} but the plain model gives 0x{}", hex(&h), expect[0].to_str_radix(16)), detail.clone()));
                    }
                }
                Err(p) => {
                    out.eval("hash-cpu:panic", true);
                    out.viol(Viol::new("poseidon:hash-cpu:panic", format!("HashCPU::hash panicked: {p}"), detail));
                }
            }
        }
    }
    out
}

/// One unit of circuit work of the sweep groups.
#[derive(Clone)]
enum Job {
    /// ZkStdLib entry point, honest run only
    Z(ZCase),
    /// ZkStdLib entry point, honest + instance binding + exposed-value lies
    ZFull(ZCase),
    Rip(RipemdCase, bool),
    ShaVar(ShaVarCase, bool),
    PosVar(PoseidonVarCase, bool),
    Sponge(SpongeCase, bool),
}

struct Shared {
    /// k per circuit-size class (a hint: the honest run decides)
    ks: Mutex<HashMap<String, u32>>,
    /// (n_assign, untamperable, k) per case key, for the fault phase
    sizes: Mutex<HashMap<String, (u64, u64, u32)>>,
    /// digest seen per variable-length (op, max, data) class: must not depend on the filler
    timings: Mutex<HashMap<String, (u64, f64)>>,
}

fn note_time(sh: &Shared, class: &str, t0: Instant) {
    let mut t = sh.timings.lock().unwrap();
    let e = t.entry(class.to_string()).or_insert((0, 0.0));
    e.0 += 1;
    e.1 += t0.elapsed().as_secs_f64();
}

fn z_honest(c: &ZCase, k: u32, keep: bool, out: &mut CaseOut) -> (vgad::RunOut, bool) {
    let run = vgad::run_once(c, k, vec![], keep);
    out.eval(&format!("honest:{}", run.outcome.name()), true);
    let detail = json!({"case": c.key(), "k": k});
    let ok = match &run.outcome {
        Outcome::Sat => match c.judge(&run.ins, &run.outs) {
            Judgement::Holds => true,
            Judgement::Wrong(w) => {
                out.viol(Viol::new(format!("{}:honest-result-wrong", c.op()), format!("honest circuit is satisfied but its exposed result contradicts the reference: {w}"), detail));
                false
            }
        },
        o => {
            let what = match o {
                Outcome::Unsat(e) => format!("unsatisfiable: {e}"),
                Outcome::SynthErr(e) => format!("synthesis error: {e}"),
                Outcome::Panic(e) => format!("panic: {e}"),
                Outcome::Sat => unreachable!(),
            };
            out.viol(Viol::new(format!("{}:completeness:{}", c.op(), o.name()), format!("honest witness for an admissible input is not accepted — {what}"), detail));
            false
        }
    };
    (run, ok)
}

/// Runs an FS case: k is probed upwards from the class hint until the honest run is accepted;
/// that run is the one judged. Returns the accepted-and-correct flag.
fn fs_job<C: fs::FsCase>(sh: &Shared, c: &C, full: bool, all_positions: bool, kclass: String, max_k: u32, out: &mut CaseOut) -> bool {
    let t0 = Instant::now();
    let hint = sh.ks.lock().unwrap().get(&kclass).copied();
    let mut k = hint.unwrap_or(c.k_hint());
    let mut run = loop {
        let r = fs::run_once(c, k, vec![], full);
        if r.outcome == Outcome::Sat || k >= max_k {
            break r;
        }
        out.count(&format!("k-probe:{}", r.outcome.name()), 1);
        k += 1;
    };
    if run.outcome == Outcome::Sat {
        let mut ks = sh.ks.lock().unwrap();
        let e = ks.entry(kclass.clone()).or_insert(k);
        *e = (*e).min(k);
    }
    let ok = fs::honest_verdict(c, k, &run, out);
    if ok && full {
        fs::binding_from_run(c, k, &mut run, all_positions, out);
    }
    let (n, unt) = (run.n_assign, run.untamperable);
    out.counter("advice_assignments", n);
    out.counter("untamperable_assignments", unt);
    if ok {
        sh.sizes.lock().unwrap().insert(c.key(), (n, unt, k));
    }
    out.sample = Some(json!({"case": c.key(), "k": k, "assignments": n, "untamperable": unt, "binding_checks": full}));
    note_time(sh, &format!("{}{}", kclass, if full { "/binding" } else { "" }), t0);
    ok
}

/// If a variable-length case with an adversarial filler is accepted with a wrong digest while
/// the same data with the default zero filler is right, the defect is the filler dependence.
fn rename_filler_viol<C: fs::FsCase>(sh: &Shared, zero_variant: &C, kclass: String, max_k: u32, out: &mut CaseOut) {
    let wrong = format!("{}:honest-result-wrong", zero_variant.op());
    if !out.viols.iter().any(|v| v.finding_key == wrong) {
        return;
    }
    let mut scratch = CaseOut::batch();
    if fs_job(sh, zero_variant, false, false, kclass, max_k, &mut scratch) {
        for v in out.viols.iter_mut().filter(|v| v.finding_key == wrong) {
            v.finding_key = format!("{}:digest-depends-on-unconstrained-filler", zero_variant.op());
            v.what = format!("the digest of a variable-length input depends on the unconstrained filler of its buffer (the same data with the zero filler gives the reference digest): {}", v.what);
        }
        out.count("filler-dependent-digest", 1);
    }
}

/// A 1-deviation violation of a variable-length gadget in which the data read back from the
/// vector is untouched (the fault hit an unconstrained filler cell) is the filler dependence.
fn rename_filler_fault_viols<C: fs::FsCase>(c: &C, k: u32, data: &[F], faults: &[(&'static str, midnight_proofs::verif::Fault)], out: &mut CaseOut) {
    let wrong = format!("{}:unsound-under-1-deviation", c.op());
    for v in out.viols.iter_mut().filter(|v| v.finding_key == wrong) {
        let (Some(idx), Some(fname)) = (v.detail["assignment_index"].as_u64(), v.detail["fault"].as_str()) else { continue };
        let Some((_, fault)) = faults.iter().find(|(n, _)| *n == fname) else { continue };
        let run = fs::run_once(c, k, vec![(idx, fault.clone(), midnight_proofs::verif::Mode::Propagate)], false);
        if run.outcome == Outcome::Sat && run.ins.len() == 1 && run.ins[0] == data {
            v.finding_key = format!("{}:digest-depends-on-unconstrained-filler", c.op());
            v.what = format!("a prover-chosen value in an unused (filler) cell of the buffer changes the digest of unchanged data: {}", v.what);
        }
    }
}

fn run_job(sh: &Shared, j: &Job, all_positions: bool) -> CaseOut {
    let mut out = CaseOut::batch();
    let op = match j {
        Job::Z(c) | Job::ZFull(c) => c.op(),
        Job::Rip(c, _) => fs::FsCase::op(c),
        Job::ShaVar(c, _) => fs::FsCase::op(c),
        Job::PosVar(c, _) => fs::FsCase::op(c),
        Job::Sponge(c, _) => fs::FsCase::op(c),
    };
    match j {
        Job::Z(c) | Job::ZFull(c) => {
            let t0 = Instant::now();
            let full = matches!(j, Job::ZFull(_));
            let k = match vgad::min_k(c) {
                Ok(k) => k,
                Err(p) => {
                    out.eval("k-panic", true);
                    out.viol(Viol::new(format!("{}:sizing-panic", c.op()), format!("cost model / min_k panicked: {p}"), json!({"case": c.key()})));
                    return out;
                }
            };
            let (mut run, ok) = z_honest(c, k, full, &mut out);
            if ok && full {
                if let Some(mut prover) = run.prover.take() {
                    let small = matches!(c.input, ZIn::Poseidon(..));
                    let positions = fs::pick_positions(run.flat.len(), run.ins.len(), all_positions || small);
                    let key = c.key();
                    fs::binding_checks(
                        &mut prover,
                        &run.flat,
                        &positions,
                        &|f| {
                            let (i, o) = run.unflatten(f);
                            c.judge(&i, &o)
                        },
                        &c.op(),
                        &|| json!({"case": key, "k": k}),
                        &mut out,
                    );
                }
            }
            let (n, unt) = (run.n_assign, run.untamperable);
            out.counter("advice_assignments", n);
            out.counter("untamperable_assignments", unt);
            if ok {
                sh.sizes.lock().unwrap().insert(c.key(), (n, unt, k));
            }
            out.sample = Some(json!({"case": c.key(), "k": k, "assignments": n, "untamperable": unt, "binding_checks": full}));
            let blocks = match &c.input {
                ZIn::Bytes(h, m) => m.len() / h.block(),
                ZIn::Poseidon(x, _) => x.len(),
            };
            note_time(sh, &format!("{}/b{}/k{}{}", c.op(), blocks, k, if full { "/binding" } else { "" }), t0);
        }
        Job::Rip(c, full) => {
            fs_job(sh, c, *full, all_positions, format!("ripemd160/b{}", (c.msg.len() + 8) / 64), 17, &mut out);
        }
        Job::ShaVar(c, full) => {
            let kc = |f: Filler| format!("sha256_varlen/max{}/{}", c.max, if matches!(f, Filler::Zero | Filler::Max) { "plain" } else { "trimmed" });
            fs_job(sh, c, *full, all_positions, kc(c.filler), 18, &mut out);
            if c.filler != Filler::Zero {
                let mut z = c.clone();
                z.filler = Filler::Zero;
                rename_filler_viol(sh, &z, kc(Filler::Zero), 18, &mut out);
            }
        }
        Job::PosVar(c, full) => {
            let kc = |f: Filler| format!("poseidon_varlen/max{}/{}", c.max, if matches!(f, Filler::Zero | Filler::Max) { "plain" } else { "trimmed" });
            fs_job(sh, c, *full, true, kc(c.filler), 14, &mut out);
            if c.filler != Filler::Zero {
                let mut z = c.clone();
                z.filler = Filler::Zero;
                rename_filler_viol(sh, &z, kc(Filler::Zero), 14, &mut out);
            }
        }
        Job::Sponge(c, full) => {
            fs_job(sh, c, *full, true, format!("poseidon_sponge/{}", c.shape()), 12, &mut out);
        }
    }
    // one merged group: outcome classes are prefixed by the entry point
    for c in out.classes.iter_mut() {
        c.0 = format!("{op}/{}", c.0);
    }
    out
}

fn job_key(j: &Job) -> String {
    match j {
        Job::Z(c) => c.key(),
        Job::ZFull(c) => format!("{}/binding", c.key()),
        Job::Rip(c, f) => format!("{}{}", fs::FsCase::key(c), if *f { "/binding" } else { "" }),
        Job::ShaVar(c, f) => format!("{}{}", fs::FsCase::key(c), if *f { "/binding" } else { "" }),
        Job::PosVar(c, f) => format!("{}{}", fs::FsCase::key(c), if *f { "/binding" } else { "" }),
        Job::Sponge(c, f) => format!("{}{}", fs::FsCase::key(c), if *f { "/binding" } else { "" }),
    }
}

/// Rough cost of a job (for longest-first scheduling inside a group).
fn job_weight(j: &Job) -> u64 {
    match j {
        Job::Z(c) => match &c.input {
            ZIn::Bytes(h, m) => {
                (1 + m.len() / h.block()) as u64
                    * match h {
                        ByteHash::Sha3_256 | ByteHash::Keccak256 => 8,
                        ByteHash::Blake2b256 | ByteHash::Blake2b512 => 12,
                        ByteHash::Sha512 => 4,
                        _ => 2,
                    }
            }
            ZIn::Poseidon(..) => 0,
        },
        Job::ZFull(c) => match &c.input {
            ZIn::Bytes(h, m) => 100 + (m.len() + h.out_len()) as u64 * 4,
            ZIn::Poseidon(x, _) => 1 + x.len() as u64,
        },
        Job::Rip(c, f) => (1 + c.msg.len() / 64) as u64 * 3 + if *f { 100 } else { 0 },
        Job::ShaVar(c, f) => (c.max / 64 + 2) as u64 * 6 + if *f { 200 } else { 0 },
        Job::PosVar(..) => 1,
        Job::Sponge(..) => 1,
    }
}

fn main() {
    let mut cx = Ctx::from_args("C07", Level::FaultEnumeration);
    cx.worker_rayon_threads = Some(1);
    let seed = cx.seed;
    let tier = cx.tier;
    let thorough = tier.is_thorough();

    // ---- anti-vacuity of the references themselves
    for (name, ok) in refs::reference_kats() {
        cx.require(ok, &format!("reference crate known-answer test {name}"));
    }

    // ---- phase A: parameters
    let params = published_params();
    let validated = check_constants(&mut cx, &params);
    cx.extra("grain_generator_validated", json!(validated));
    let params = Arc::new(params);

    // the textbook places the partial-round S-box on word 0; the implementation documents word 2
    {
        let mut textbook = (*params).clone();
        textbook.partial_word = 0;
        let mut a = [BigUint::from(0u32), BigUint::from(1u32), BigUint::from(2u32)];
        let mut b = a.clone();
        params.permute(&mut a);
        textbook.permute(&mut b);
        cx.extra(
            "partial_round_sbox_word",
            json!({"implemented_and_modelled": 2, "poseidon_reference_script": 0, "permutations_differ_on_(0,1,2)": a != b}),
        );
        cx.note(
            "round structure mirrored from circuits/src/hash/poseidon/mod.rs: width 3, rate 2, x^5, 4 full + 60 partial + 4 full rounds, \
             round r = add ROUND_CONSTANTS[r], S-box layer, multiply by MDS (column vector). In the partial rounds the S-box acts on the LAST \
             state word (index 2), as documented in poseidon/mod.rs, whereas the Poseidon paper / reference scripts (and the security filter \
             of generate_parameters_grain.sage) put it on word 0: the implemented permutation is the textbook permutation for the relabelled \
             parameter set (P*MDS*P^T, P*constants, P = word reversal) and is therefore not interoperable with other Poseidon instances \
             using the same published constants. The plain model follows the implementation's documented convention.",
        );
    }
    cx.note("the Poseidon digest of the empty input in fixed-length mode is 0 (capacity word 0, no chunk, no permutation) in HashCPU, in the chip and in the model");
    cx.note(format!(
        "round-skip counts as compiled: NB_SKIPS_CIRCUIT = 5 (12 batched partial-round rows), NB_SKIPS_CPU = 2; rate {} width {} rounds {}+{}",
        PoseidonChip::<F>::rate(),
        PoseidonChip::<F>::register_size(),
        PoseidonChip::<F>::nb_full_rounds(),
        PoseidonChip::<F>::nb_partial_rounds()
    ));
    cx.require(
        PoseidonChip::<F>::rate() == refs::RATE
            && PoseidonChip::<F>::register_size() == refs::T
            && PoseidonChip::<F>::nb_full_rounds() == refs::R_F
            && PoseidonChip::<F>::nb_partial_rounds() == refs::R_P,
        "the model's width/rate/round numbers equal the chip's",
    );

    cx.set_rule(
        "(A) Poseidon parameters: all 204 round constants regenerated by a Grain LFSR and compared element-wise; MDS: every square minor non-zero, \
         membership among the LFSR's Cauchy candidates. (B) off-circuit Poseidon: permutation_cpu on boundary/seeded states; SpongeCPU, HashCPU and the \
         transcript's PoseidonState against a plain big-integer Poseidon on: every fixed length 0..=12 x {zero, seeded, near-p}, every split of lengths 0..=6 \
         over two absorbs, 0..=4 absorbed vectors x 1..=3 squeezes, every operation sequence over {absorb 0/1/2/3 elements, squeeze} up to depth 4 (5 thorough). \
         (C) in-circuit, honest run of the real chip inside MockProver with digest recomputed from the exposed inputs by sha2/sha3/ripemd/blake2b_simd/the plain \
         Poseidon: SHA-256 every length 0..=192 (counter bytes; zero/FF at 55,56,63,64,119,120,127,128; thorough: zero/FF/seeded at every length), RIPEMD-160 \
         the same lengths, SHA-512 {0,1,111,112,119,120,127,128,129,239,240,255,256} (thorough 0..=384), SHA3-256 and Keccak-256 {0,1,135,136,137,271,272,273} \
         (thorough 0..=408), BLAKE2b-256/512 {0,1,127,128,129,255,256,257} (thorough 0..=384), Poseidon fixed length 0..=12 x {zero, seeded}; Poseidon sponge \
         interface: every sequence over {absorb 0..3, squeeze} of depth <= 3 with a squeeze x {zero, seeded} plus fixed-length mode splits; variable-length \
         Poseidon MAX in {8,12} x every length 0..=MAX x filler {zero, p-1, copy of data, seeded}; variable-length SHA-256 MAX in {64,128} x boundary lengths \
         (thorough: every length 0..=MAX) x filler {zero, 0xFF, copy of data, seeded}. Small cases additionally get every single-position edit of the exposed \
         vector and every exposed value changed together with its copy cycle. (D) 1-deviation faults in propagate mode: every advice assignment of Poseidon(2 \
         inputs), of one variable-length Poseidon and one sponge case; SHA-256 one block on a deterministic stride (every assignment in thorough); strides for \
         the other chips in thorough (printed in the notes). A case is one (entry point, length, content, filler); evaluations count reference comparisons and \
         MockProver verdicts.",
    );
    cx.assume("MockProver (with the trash-argument evaluation added by the C02 fix) is the satisfiability oracle; its agreement with the real verifier is C02's subject");
    cx.assume("prover freedom is bounded to <= 1 deviation from the honest witness generator (propagate mode) plus consistent lies about exposed values; for the large chips the deviation index is sampled on a printed deterministic stride");
    cx.assume("the security filter of generate_parameters_grain.sage (algorithms 1-3 on the MDS candidates) is not re-implemented: MDS is checked to be an LFSR Cauchy candidate with non-zero minors");
    cx.assume("RustCrypto sha2/sha3/ripemd and blake2b_simd are the reference functions (their known-answer tests are re-checked at start-up)");
    cx.assume("variable-length inputs cannot be bound to the instance from outside the crate (AssignedVector fields are crate-private): their data is read back from the assigned cells' values, which follow propagated faults");

    // ---- phase B: off-circuit Poseidon
    {
        // permutation_cpu vs plain permutation
        let pre = PreComputedRoundCPU::<F>::init();
        let mut rng = vcore::rng_for(seed, "c07-perm");
        let mut states: Vec<(String, [F; 3])> = vec![
            ("zero".into(), [F::ZERO; 3]),
            ("ones".into(), [F::ONE; 3]),
            ("p-1".into(), [-F::ONE; 3]),
            ("e0".into(), [F::ONE, F::ZERO, F::ZERO]),
            ("e1".into(), [F::ZERO, F::ONE, F::ZERO]),
            ("e2".into(), [F::ZERO, F::ZERO, F::ONE]),
            ("cap64".into(), [F::ZERO, F::ZERO, F::from_u128(1 << 64)]),
        ];
        for i in 0..tier.pick(64, 1024) {
            states.push((format!("seeded{i}"), [F::random(&mut rng), F::random(&mut rng), F::random(&mut rng)]));
        }
        let pcases: Vec<(String, [F; 3])> = states;
        let pr = params.clone();
        cx.run_cases("poseidon-permutation-cpu", &pcases, |st| {
            let mut out = CaseOut::batch();
            let mut model = [to_big(&st[0]), to_big(&st[1]), to_big(&st[2])];
            pr.permute(&mut model);
            let mut s = *st;
            match catch(|| permutation_cpu(&pre, &mut s)) {
                Ok(()) => {
                    let same = (0..3).all(|i| to_big(&s[i]) == model[i]);
                    out.eval(if same { "equal" } else { "differs" }, true);
                    if !same {
                        out.viol(Viol::new("poseidon:permutation-cpu:differs-from-plain-model", format!("permutation_cpu({:?}) = {:?}, the plain 68-round permutation differs", fvec(st), fvec(&s)), json!({"state": fvec(st)})));
                    }
                }
                Err(p) => {
                    out.eval("panic", true);
                    out.viol(Viol::new("poseidon:permutation-cpu:panic", format!("permutation_cpu panicked: {p}"), json!({"state": fvec(st)})));
                }
            }
            out
        });
        let ccases = cpu_cases(seed, thorough);
        let pr = params.clone();
        cx.run_cases("poseidon-cpu", &ccases, |(il, ops)| run_cpu_case(&pr, *il, ops));
    }

    // ---- phase C: circuits
    let sh = Shared {
        ks: Mutex::new(HashMap::new()),
        sizes: Mutex::new(HashMap::new()),
        timings: Mutex::new(HashMap::new()),
    };
    let zbytes = |h: ByteHash, len: usize, c: &str| ZCase {
        input: ZIn::Bytes(h, content(c, len, seed, h.name())),
        content: c.to_string(),
    };
    let mut jobs: Vec<(String, Vec<Job>)> = vec![];

    // SHA-256 / RIPEMD-160
    {
        let mut sha = vec![];
        let mut rip = vec![];
        let boundary = [55usize, 56, 63, 64, 119, 120, 127, 128];
        for len in 0..=192usize {
            let mut cs = vec!["counter"];
            if thorough {
                cs.extend(["zero", "ff", "seeded"]);
            } else if boundary.contains(&len) {
                cs.extend(["zero", "ff"]);
            }
            for c in cs {
                sha.push(Job::Z(zbytes(ByteHash::Sha256, len, c)));
                rip.push(Job::Rip(
                    RipemdCase {
                        msg: content(c, len, seed, "ripemd160"),
                        content: c.to_string(),
                    },
                    false,
                ));
            }
        }
        sha.push(Job::ZFull(zbytes(ByteHash::Sha256, 1, "seeded")));
        rip.push(Job::Rip(
            RipemdCase {
                msg: content("seeded", 1, seed, "ripemd160"),
                content: "seeded".into(),
            },
            true,
        ));
        jobs.push(("sha2_256".into(), sha));
        jobs.push(("ripemd160".into(), rip));
    }
    // the 128/136-byte block hashes
    {
        let sets: [(ByteHash, Vec<usize>, usize); 5] = [
            (ByteHash::Sha512, vec![0, 1, 111, 112, 119, 120, 127, 128, 129, 239, 240, 255, 256], 384),
            (ByteHash::Sha3_256, vec![0, 1, 135, 136, 137, 271, 272, 273], 408),
            (ByteHash::Keccak256, vec![0, 1, 135, 136, 137, 271, 272, 273], 408),
            (ByteHash::Blake2b256, vec![0, 1, 127, 128, 129, 255, 256, 257], 384),
            (ByteHash::Blake2b512, vec![0, 1, 127, 128, 129, 255, 256, 257], 384),
        ];
        for (h, bset, all) in sets {
            let mut v = vec![];
            let lens: Vec<usize> = if thorough { (0..=all).collect() } else { bset.clone() };
            for len in lens {
                v.push(Job::Z(zbytes(h, len, "counter")));
                if bset.contains(&len) && len > 0 {
                    for c in ["zero", "ff", "seeded"] {
                        if thorough || (c == "ff" && len % h.block() >= h.block() - 1) {
                            v.push(Job::Z(zbytes(h, len, c)));
                        }
                    }
                }
            }
            v.push(Job::ZFull(zbytes(h, 1, "seeded")));
            jobs.push((h.name().to_string(), v));
        }
    }
    // Poseidon: fixed length, sponge, variable length
    {
        let mut rng = vcore::rng_for(seed, "c07-poseidon-inputs");
        let mut v = vec![];
        for len in 0..=12usize {
            for c in ["zero", "seeded"] {
                if len == 0 && c == "seeded" {
                    continue;
                }
                let xs: Vec<F> = (0..len).map(|_| if c == "zero" { F::ZERO } else { F::random(&mut rng) }).collect();
                v.push(Job::ZFull(ZCase {
                    input: ZIn::Poseidon(xs, params.clone()),
                    content: c.to_string(),
                }));
            }
        }
        jobs.push(("poseidon".into(), v));

        // sponge: sequences of depth <= 3 over {A0..A3, S} containing a squeeze
        let mut v = vec![];
        let mut seqs: Vec<Vec<usize>> = vec![];
        for d in 1..=3usize {
            let mut idx = vec![0usize; d];
            loop {
                seqs.push(idx.clone());
                let mut i = 0;
                loop {
                    if i == d {
                        break;
                    }
                    idx[i] += 1;
                    if idx[i] < 5 {
                        break;
                    }
                    idx[i] = 0;
                    i += 1;
                }
                if i == d {
                    break;
                }
            }
        }
        for s in seqs.into_iter().filter(|s| s.contains(&4)) {
            for c in ["zero", "seeded"] {
                if c == "seeded" && s.iter().all(|x| *x == 4 || *x == 0) {
                    continue;
                }
                let ops: Vec<SOp> = s
                    .iter()
                    .map(|x| if *x == 4 { SOp::Squeeze } else { SOp::Absorb((0..*x).map(|_| if c == "zero" { F::ZERO } else { F::random(&mut rng) }).collect()) })
                    .collect();
                v.push(Job::Sponge(
                    SpongeCase {
                        input_len: None,
                        ops,
                        content: c.to_string(),
                        params: params.clone(),
                    },
                    true,
                ));
            }
        }
        // fixed-length mode: every split of L = 0..=4 over two absorbs, then one squeeze
        for l in 0..=4usize {
            for cut in 0..=l {
                let xs: Vec<F> = (0..l).map(|_| F::random(&mut rng)).collect();
                v.push(Job::Sponge(
                    SpongeCase {
                        input_len: Some(l),
                        ops: vec![SOp::Absorb(xs[..cut].to_vec()), SOp::Absorb(xs[cut..].to_vec()), SOp::Squeeze],
                        content: format!("seeded-cut{cut}"),
                        params: params.clone(),
                    },
                    true,
                ));
            }
        }
        jobs.push(("poseidon_sponge".into(), v));

        let mut v = vec![];
        for max in [8usize, 12] {
            for len in 0..=max {
                for c in ["zero", "seeded"] {
                    if (c == "zero") && !(thorough || len == max || len == 1) {
                        continue;
                    }
                    if len == 0 && c == "seeded" {
                        // the empty vector has one content
                    }
                    let data: Vec<F> = (0..len).map(|_| if c == "zero" { F::ZERO } else { F::random(&mut rng) }).collect();
                    for filler in Filler::ALL {
                        v.push(Job::PosVar(
                            PoseidonVarCase {
                                max,
                                data: data.clone(),
                                content: c.to_string(),
                                filler,
                                seed,
                                params: params.clone(),
                            },
                            true,
                        ));
                    }
                }
            }
        }
        jobs.push(("poseidon_varlen".into(), v));
    }
    // variable-length SHA-256
    {
        let mut v = vec![];
        for (max, bset) in [(64usize, vec![0usize, 1, 54, 55, 56, 57, 63, 64]), (128, vec![0, 1, 55, 56, 63, 64, 65, 119, 120, 127, 128])] {
            let lens: Vec<usize> = if thorough { (0..=max).collect() } else { bset };
            for len in lens {
                for filler in Filler::ALL {
                    v.push(Job::ShaVar(
                        ShaVarCase {
                            max,
                            data: content("seeded", len, seed, "shavar"),
                            content: "seeded".into(),
                            filler,
                            seed,
                        },
                        false,
                    ));
                }
            }
        }
        v.push(Job::ShaVar(
            ShaVarCase {
                max: 64,
                data: content("counter", 3, seed, "shavar"),
                content: "counter".into(),
                filler: Filler::Seeded,
                seed,
            },
            true,
        ));
        jobs.push(("sha256_varlen".into(), v));
    }

    {
        let mut all: Vec<Job> = jobs.into_iter().flat_map(|(_, js)| js).collect();
        // the small Poseidon circuits first (seconds in total), then longest first, so that the
        // big circuits do not form a tail
        let small = |j: &Job| matches!(j, Job::PosVar(..) | Job::Sponge(..)) || matches!(j, Job::ZFull(ZCase { input: ZIn::Poseidon(..), .. }));
        all.sort_by_key(|j| (!small(j), std::cmp::Reverse(job_weight(j))));
        let cases: Vec<(String, Job)> = all.into_iter().map(|j| (job_key(&j), j)).collect();
        cx.run_cases("circuits", &cases, |j| run_job(&sh, j, thorough));
    }

    // ---- phase D: 1-deviation faults
    let sizes = sh.sizes.lock().unwrap().clone();
    let all_faults = vgad::default_faults(seed);
    let quick_faults: Vec<_> = all_faults.iter().filter(|(n, _)| ["+1", "zero", "1-v", "random"].contains(n)).cloned().collect();
    #[derive(Clone)]
    enum FJob {
        /// case, k, indices, all 8 faults?
        Z(ZCase, u32, Vec<u64>, bool),
        PosVar(PoseidonVarCase, u32, Vec<u64>, bool),
        Sponge(SpongeCase, u32, Vec<u64>, bool),
        ShaVar(ShaVarCase, u32, Vec<u64>, bool),
        Rip(RipemdCase, u32, Vec<u64>, bool),
    }
    let mut fjobs: Vec<(String, FJob)> = vec![];
    let mut stride_notes: Vec<String> = vec![];
    // `target` = largest number of assignment indices to explore (the stride is derived from it)
    // `kinds`: cell kinds (region name, column, offset) of a traced honest run; the first and the
    // last assignment of every kind are explored in addition to the stride, so that no region
    // shape of the chip is skipped however sparse the stride is
    let mut add = |key: String, size: Option<(u64, u64, u32)>, target: u64, chunk: usize, all: bool, kinds: Option<Vec<(String, Vec<u64>)>>, mk: &dyn Fn(u32, Vec<u64>, bool) -> FJob| {
        let Some((n, unt, k)) = size else {
            stride_notes.push(format!("{key}: no accepted honest run available, fault exploration skipped"));
            return;
        };
        let stride = ((n + target - 1) / target.max(1)).max(1);
        let r = stride / 2;
        let mut idxs: Vec<u64> = if target == 0 { vec![] } else { (0..n).filter(|i| i % stride == r).collect() };
        let n_stride = idxs.len();
        let mut n_kinds = 0;
        if let Some(kinds) = &kinds {
            n_kinds = kinds.len();
            idxs.extend(vgad::kind_representatives(kinds, if thorough { 2 } else { 1 }));
            idxs.sort();
            idxs.dedup();
        }
        stride_notes.push(format!(
            "{key}: N = {n} tamperable advice assignments ({unt} untamperable, k = {k}); indices i = {r} (mod {stride}) ({n_stride} indices) + first{} of {n_kinds} cell kinds -> {} indices x {} fault values",
            if thorough { "/last" } else { "" },
            idxs.len(),
            if all { 8 } else { 4 }
        ));
        for (ci, ch) in idxs.chunks(chunk).enumerate() {
            fjobs.push((format!("{key}#{ci}"), mk(k, ch.to_vec(), all)));
        }
    };
    let measure_z = |c: &ZCase| -> Option<(u64, u64, u32)> {
        let k = vgad::min_k(c).ok()?;
        let r = vgad::run_once(c, k, vec![], false);
        (r.outcome == Outcome::Sat).then_some((r.n_assign, r.untamperable, k))
    };
    fn measure_fs<C: fs::FsCase>(c: &C, max_k: u32) -> Option<(u64, u64, u32)> {
        let k = fs::min_k(c, max_k).ok()?;
        let r = fs::run_once(c, k, vec![], false);
        (r.outcome == Outcome::Sat).then_some((r.n_assign, r.untamperable, k))
    }
    {
        // Poseidon with 2 inputs: every assignment, all 8 fault values
        let mut rng = vcore::rng_for(seed, "c07-fault-inputs");
        let c = ZCase {
            input: ZIn::Poseidon(vec![F::random(&mut rng), F::random(&mut rng)], params.clone()),
            content: "fault-seeded".into(),
        };
        add(c.key(), vcore::in_pool(1, || measure_z(&c)), u64::MAX / 2, 8, true, None, &|k, i, a| FJob::Z(c.clone(), k, i, a));
        // variable-length Poseidon, odd length (the last chunk has a filler slot)
        let c = PoseidonVarCase {
            max: 8,
            data: (0..3).map(|_| F::random(&mut rng)).collect(),
            content: "fault-seeded".into(),
            filler: Filler::Zero,
            seed,
            params: params.clone(),
        };
        add(fs::FsCase::key(&c), vcore::in_pool(1, || measure_fs(&c, 14)), tier.pick(250, u64::MAX / 2), 16, thorough, None, &|k, i, a| FJob::PosVar(c.clone(), k, i, a));
        // sponge: absorb, squeeze twice, absorb, squeeze
        let c = SpongeCase {
            input_len: None,
            ops: vec![SOp::Absorb(vec![F::random(&mut rng)]), SOp::Squeeze, SOp::Squeeze, SOp::Absorb(vec![F::random(&mut rng), F::random(&mut rng)]), SOp::Squeeze],
            content: "fault-seeded".into(),
            params: params.clone(),
        };
        add(fs::FsCase::key(&c), vcore::in_pool(1, || measure_fs(&c, 12)), u64::MAX / 2, 16, thorough, None, &|k, i, a| FJob::Sponge(c.clone(), k, i, a));
    }
    if thorough {
        for (h, target) in [(ByteHash::Sha512, 600u64), (ByteHash::Sha3_256, 300), (ByteHash::Keccak256, 300), (ByteHash::Blake2b256, 100), (ByteHash::Blake2b512, 100)] {
            let c = zbytes(h, 1, "seeded");
            let sz = sizes.get(&c.key()).copied();
            let kinds = sz.and_then(|(_, _, k)| vcore::in_pool(1, || vgad::trace_kinds(&c, k)));
            add(c.key(), sz, target, 4, false, kinds, &|k, i, a| FJob::Z(c.clone(), k, i, a));
        }
        let c = ShaVarCase {
            max: 64,
            data: content("counter", 3, seed, "shavar"),
            content: "counter".into(),
            filler: Filler::Seeded,
            seed,
        };
        let sz = sizes.get(&fs::FsCase::key(&c)).copied();
        let kinds = sz.and_then(|(_, _, k)| vcore::in_pool(1, || fs::trace_kinds(&c, k)));
        add(fs::FsCase::key(&c), sz, 300, 4, false, kinds, &|k, i, a| FJob::ShaVar(c.clone(), k, i, a));
    }
    {
        // RIPEMD-160, one block: every cell kind in quick (no stride), kinds + stride in thorough
        let c = RipemdCase {
            msg: content("seeded", 1, seed, "ripemd160"),
            content: "seeded".into(),
        };
        let sz = sizes.get(&fs::FsCase::key(&c)).copied();
        let kinds = sz.and_then(|(_, _, k)| vcore::in_pool(1, || fs::trace_kinds(&c, k)));
        add(fs::FsCase::key(&c), sz, tier.pick(0, 600), 4, false, kinds, &|k, i, a| FJob::Rip(c.clone(), k, i, a));
    }
    {
        // SHA-256, one block: a stride plus every cell kind in quick, every assignment in thorough (last: it is the longest sweep)
        let c = zbytes(ByteHash::Sha256, 3, "counter");
        let sz = sizes.get(&c.key()).copied();
        let kinds = sz.and_then(|(_, _, k)| vcore::in_pool(1, || vgad::trace_kinds(&c, k)));
        add(c.key(), sz, tier.pick(400, u64::MAX / 2), 6, thorough, kinds, &|k, i, a| FJob::Z(c.clone(), k, i, a));
    }
    drop(add);
    for n in &stride_notes {
        cx.note(format!("fault indices — {n}"));
    }
    // ---- phase E: region-local alternative-witness search (vgad::laws). For every region of the
    // one-block SHA-256 circuit (quick: the first instances of every region name), every set of
    // <= 3 lookup rows is answered with neighbouring rows of the actual table, gates are repaired
    // through affine region cells, and each locally consistent alternative is replayed on the real
    // circuit with the witness generation continuing from it.
    {
        // SHA-256: quick takes the last three instances of every region name (late rounds work on
        // mixed state), thorough every region. Thorough also takes the last three instances of
        // every region name of the other byte hashes of the standard library.
        let mut subjects: Vec<(ZCase, usize)> = vec![(zbytes(ByteHash::Sha256, 3, "counter"), tier.pick(3usize, usize::MAX))];
        if thorough {
            for h in [ByteHash::Sha512, ByteHash::Sha3_256, ByteHash::Keccak256, ByteHash::Blake2b256] {
                subjects.push((zbytes(h, 1, "seeded"), 3));
            }
        }
        let mut ljobs: Vec<(String, (ZCase, u32, Vec<u32>))> = vec![];
        for (c, per_kind) in subjects {
        if let Some((_, _, k)) = sizes.get(&c.key()).copied() {
            if let Some(regs) = vcore::in_pool(1, || vgad::laws::regions_of(&c, k)) {
                let mut seen: HashMap<String, usize> = HashMap::new();
                let mut picked: Vec<u32> = vec![];
                for (rid, name, _) in regs.iter().rev() {
                    let e = seen.entry(name.clone()).or_default();
                    *e += 1;
                    if *e <= per_kind {
                        picked.push(*rid);
                    }
                }
                cx.note(format!("laws: {} regions of {} names in {}; {} explored", regs.len(), seen.len(), c.key(), picked.len()));
                picked.sort();
                for (ci, ch) in picked.chunks(1).enumerate() {
                    ljobs.push((format!("{}#laws{ci}", c.key()), (c.clone(), k, ch.to_vec())));
                }
            }
        } else {
            cx.note(format!("laws: {} has no accepted honest run in this tier, skipped", c.key()));
        }
        }
        // Poseidon (no lookups): seed moves on free cells with a chain of affine repairs in cell order follow the
        // chain of skipped-round cells of a partial-round batch
        {
            let mut rng = vcore::rng_for(seed, "c07-laws-poseidon");
            let c = ZCase {
                input: ZIn::Poseidon(vec![F::random(&mut rng), F::random(&mut rng)], params.clone()),
                content: "laws-seeded".into(),
            };
            // (the whole permutation is one region: an alternative re-derives every later cell, so
            // the repair chain is long; two candidates per step, eight states per depth)
            let pcfg = vgad::laws::Cfg { max_rows: 1, max_repairs: 200, seed_free_cells: true, max_real_runs: 16, repair_branch: 2, repair_beam: 8, forward_repairs_only: true, repair_in_cell_order: true, instance_pins: false, ..Default::default() };
            let mut pjobs: Vec<(String, (ZCase, u32, Vec<u32>))> = vec![];
            if let Ok(k) = vcore::in_pool(1, || vgad::min_k(&c)) {
                if let Some(regs) = vcore::in_pool(1, || vgad::laws::regions_of(&c, k)) {
                    cx.note(format!("laws: {} regions in {}; all explored with seed moves", regs.len(), c.key()));
                    for (ci, ch) in regs.iter().map(|r| r.0).collect::<Vec<u32>>().chunks(2).enumerate() {
                        pjobs.push((format!("{}#laws{ci}", c.key()), (c.clone(), k, ch.to_vec())));
                    }
                }
            }
            cx.run_cases("laws-poseidon", &pjobs, |(c, k, rids)| {
                let mut out = CaseOut::batch();
                vgad::laws::explore(c, *k, rids, &pcfg, &mut out);
                out
            });
        }
        let cfg = vgad::laws::Cfg::default();
        // RIPEMD-160 (a from-scratch circuit with the same plain/spreaded table design): the last
        // (thorough: the last eight) instance(s) of every region name
        {
            let c = RipemdCase {
                msg: content("seeded", 1, seed, "ripemd160"),
                content: "seeded".into(),
            };
            // (thorough tier only: ~14 s for nine regions is more than the quick tier can spare)
            let per_kind = tier.pick(0usize, 8usize);
            let mut rjobs: Vec<(String, (RipemdCase, u32, Vec<u32>))> = vec![];
            if let Some((_, _, k)) = sizes.get(&fs::FsCase::key(&c)).copied() {
                if let Some(regs) = vcore::in_pool(1, || vgad::laws::regions_of_subject(&fs::FsSubject(&c), k)) {
                    let mut seen: HashMap<String, usize> = HashMap::new();
                    let mut picked: Vec<u32> = vec![];
                    for (rid, name, _) in regs.iter().rev() {
                        let e = seen.entry(name.clone()).or_default();
                        *e += 1;
                        if *e <= per_kind {
                            picked.push(*rid);
                        }
                    }
                    picked.sort();
                    cx.note(format!("laws: {} regions of {} names in {}; {} explored", regs.len(), seen.len(), fs::FsCase::key(&c), picked.len()));
                    for (ci, ch) in picked.chunks(1).enumerate() {
                        rjobs.push((format!("{}#laws{ci}", fs::FsCase::key(&c)), (c.clone(), k, ch.to_vec())));
                    }
                }
            }
            if thorough {
                cx.next_group_share(240.0);
            }
            cx.run_cases("laws-ripemd160", &rjobs, |(c, k, rids)| {
                let mut out = CaseOut::batch();
                vgad::laws::explore_subject(&fs::FsSubject(c), *k, rids, &cfg, &mut out);
                out
            });
        }
        if thorough {
            cx.next_group_share(600.0);
        }
        cx.run_cases("laws", &ljobs, |(c, k, rids)| {
            let mut out = CaseOut::batch();
            vgad::laws::explore(c, *k, rids, &cfg, &mut out);
            out
        });
    }

    let pick = |all: &bool| if *all { &all_faults } else { &quick_faults };
    cx.run_cases("faults", &fjobs, |j| {
        let mut out = CaseOut::batch();
        let op = match j {
            FJob::Z(c, k, idxs, all) => {
                vgad::explore_faults(c, *k, idxs, pick(all), &mut out);
                c.op()
            }
            FJob::PosVar(c, k, idxs, all) => {
                fs::explore_faults(c, *k, idxs, pick(all), &mut out);
                rename_filler_fault_viols(c, *k, &c.data, &all_faults, &mut out);
                fs::FsCase::op(c)
            }
            FJob::Sponge(c, k, idxs, all) => {
                fs::explore_faults(c, *k, idxs, pick(all), &mut out);
                fs::FsCase::op(c)
            }
            FJob::ShaVar(c, k, idxs, all) => {
                fs::explore_faults(c, *k, idxs, pick(all), &mut out);
                let data: Vec<F> = c.data.iter().map(|b| F::from(*b as u64)).collect();
                rename_filler_fault_viols(c, *k, &data, &all_faults, &mut out);
                fs::FsCase::op(c)
            }
            FJob::Rip(c, k, idxs, all) => {
                fs::explore_faults(c, *k, idxs, pick(all), &mut out);
                fs::FsCase::op(c)
            }
        };
        for c in out.classes.iter_mut() {
            c.0 = format!("{op}/{}", c.0);
        }
        out
    });

    // ---- timings (evidence only)
    {
        let t = sh.timings.lock().unwrap();
        let mut v: Vec<_> = t.iter().map(|(k, (n, s))| (k.clone(), *n, *s)).collect();
        v.sort_by(|a, b| b.2.partial_cmp(&a.2).unwrap());
        cx.extra("slowest_job_classes", json!(v.iter().take(12).map(|(k, n, s)| json!({"class": k, "jobs": n, "cpu_s": vcore::round3(*s)})).collect::<Vec<_>>()));
    }
    let unt = cx.counter_value("untamperable_assignments");
    cx.note(format!("advice assignments whose value type is not the field (third-party chips; not reachable by the tamper hook), summed over all honest runs: {unt}"));

    // ---- anti-vacuity
    for g in ["sha2_256", "ripemd160", "sha2_512", "sha3_256", "keccak_256", "blake2b_256", "blake2b_512", "poseidon", "poseidon_sponge", "poseidon_varlen", "sha256_varlen"] {
        let sat = cx.class_count(&format!("circuits:{g}/honest:sat"));
        cx.require(sat > 0 || cx.remaining_s() <= 0.0, &format!("group {g} has at least one accepted honest run"));
    }
    cx.require(["poseidon", "sha2_256", "poseidon_varlen", "poseidon_sponge"].iter().all(|g| cx.class_count(&format!("faults:{g}/fault:unsat")) > 100) || cx.remaining_s() <= 0.0, "faults must be rejected in every fault-explored chip");
    cx.require(cx.class_count("poseidon-cpu:sponge-cpu:equal") + cx.class_count("poseidon-cpu:sponge-cpu:differs") > 500, "the off-circuit grid was evaluated");
    cx.finish()
}
