//! Op-circuit explorer for chips that are only reachable through `FromScratch` (RIPEMD-160, the
//! variable-length SHA-256 / Poseidon gadgets, the Poseidon sponge interface). Same oracle as
//! vgad: honest run, instance binding, exposed-value lies, 1-deviation faults in propagate mode.

use std::cell::RefCell;

use midnight_circuits::{
    field::{decomposition::chip::P2RDecompositionChip, NativeChip, NativeGadget},
    instructions::PublicInputInstructions,
    testing_utils::FromScratch,
    types::{AssignedNative, Instantiable},
};
use midnight_proofs::{
    circuit::{Layouter, SimpleFloorPlanner},
    dev::{CellValue, InstanceValue, MockProver},
    plonk::{Any, Circuit, ConstraintSystem, Error},
    verif::{self, Fault, Mode},
};
use rayon::iter::ParallelIterator;
use serde_json::json;
use vcore::{catch, CaseOut, Viol};
use vgad::{Judgement, Outcome, F};

pub type NG = NativeGadget<F, P2RDecompositionChip<F>, NativeChip<F>>;

pub trait FsCase: Clone + Send + Sync {
    type Chip: FromScratch<F>;
    fn key(&self) -> String;
    fn op(&self) -> String;
    fn synth<L: Layouter<F>>(&self, chip: &Self::Chip, ng: &NG, l: &mut L, ex: &FsExposer) -> Result<(), Error>;
    fn judge(&self, ins: &[Vec<F>], outs: &[Vec<F>]) -> Judgement;
    /// smallest k worth trying
    fn k_hint(&self) -> u32 {
        6
    }
}

#[derive(Default, Clone, Debug)]
struct Log {
    ins: Vec<Vec<Option<F>>>,
    outs: Vec<Vec<Option<F>>>,
    /// (is_output, exposure index, element index) in instance-row order (bound exposures only)
    order: Vec<(bool, usize, usize)>,
    invalid: Option<String>,
}

thread_local! {
    static LOG: RefCell<Log> = RefCell::new(Log::default());
}

pub struct FsExposer;

impl FsExposer {
    fn expose<T, L>(&self, is_out: bool, ng: &NG, l: &mut L, x: &T) -> Result<(), Error>
    where
        L: Layouter<F>,
        T: Instantiable<F>,
        NG: PublicInputInstructions<F, T>,
    {
        let cells: Vec<AssignedNative<F>> = ng.as_public_input(l, x)?;
        let mut vals = vec![];
        for c in &cells {
            let mut v = None;
            c.value().map(|x| v = Some(*x));
            vals.push(v);
        }
        LOG.with(|e| {
            let mut e = e.borrow_mut();
            let idx = if is_out { e.outs.len() } else { e.ins.len() };
            for j in 0..vals.len() {
                e.order.push((is_out, idx, j));
            }
            if is_out {
                e.outs.push(vals)
            } else {
                e.ins.push(vals)
            }
        });
        for c in &cells {
            <NG as PublicInputInstructions<F, AssignedNative<F>>>::constrain_as_public_input(ng, l, c)?;
        }
        Ok(())
    }
    pub fn input<T, L>(&self, ng: &NG, l: &mut L, x: &T) -> Result<(), Error>
    where
        L: Layouter<F>,
        T: Instantiable<F>,
        NG: PublicInputInstructions<F, T>,
    {
        self.expose(false, ng, l, x)
    }
    pub fn output<T, L>(&self, ng: &NG, l: &mut L, x: &T) -> Result<(), Error>
    where
        L: Layouter<F>,
        T: Instantiable<F>,
        NG: PublicInputInstructions<F, T>,
    {
        self.expose(true, ng, l, x)
    }
    /// Records an input that cannot be bound to the instance (the cells are not reachable from
    /// outside the crate): the values are the ones the assigned cells carry, i.e. they follow
    /// propagated faults.
    pub fn record_input(&self, vals: Vec<F>) {
        LOG.with(|e| e.borrow_mut().ins.push(vals.into_iter().map(Some).collect()));
    }
    /// The witness is outside the type's domain in a way the harness cannot even decode.
    pub fn invalid(&self, why: String) {
        LOG.with(|e| e.borrow_mut().invalid = Some(why));
    }
}

struct FsCircuit<C: FsCase>(C);

impl<C: FsCase> Circuit<F> for FsCircuit<C> {
    type Config = (<C::Chip as FromScratch<F>>::Config, <NG as FromScratch<F>>::Config);
    type FloorPlanner = SimpleFloorPlanner;
    type Params = ();

    fn without_witnesses(&self) -> Self {
        unreachable!()
    }

    fn configure(meta: &mut ConstraintSystem<F>) -> Self::Config {
        let committed = meta.instance_column();
        let instance = meta.instance_column();
        let cols = [committed, instance];
        (C::Chip::configure_from_scratch(meta, &cols), NG::configure_from_scratch(meta, &cols))
    }

    fn synthesize(&self, config: Self::Config, mut layouter: impl Layouter<F>) -> Result<(), Error> {
        let chip = C::Chip::new_from_scratch(&config.0);
        let ng = NG::new_from_scratch(&config.1);
        self.0.synth(&chip, &ng, &mut layouter, &FsExposer)?;
        chip.load_from_scratch(&mut layouter)?;
        ng.load_from_scratch(&mut layouter)
    }
}

pub struct FsRun {
    pub outcome: Outcome,
    pub ins: Vec<Vec<F>>,
    pub outs: Vec<Vec<F>>,
    pub flat: Vec<F>,
    order: Vec<(bool, usize, usize)>,
    pub invalid: Option<String>,
    pub n_assign: u64,
    pub untamperable: u64,
    pub applied: Vec<verif::Applied>,
    pub prover: Option<MockProver<F>>,
}

impl FsRun {
    pub fn unflatten(&self, flat: &[F]) -> (Vec<Vec<F>>, Vec<Vec<F>>) {
        let (mut ins, mut outs) = (self.ins.clone(), self.outs.clone());
        for (pos, (o, i, j)) in self.order.iter().enumerate() {
            if *o {
                outs[*i][*j] = flat[pos]
            } else {
                ins[*i][*j] = flat[pos]
            }
        }
        (ins, outs)
    }
    pub fn judge<C: FsCase>(&self, case: &C) -> Judgement {
        if let Some(w) = &self.invalid {
            return Judgement::Wrong(w.clone());
        }
        case.judge(&self.ins, &self.outs)
    }
}

fn summarize(errs: &[midnight_proofs::dev::VerifyFailure]) -> String {
    let mut s: Vec<String> = errs
        .iter()
        .take(3)
        .map(|e| format!("{e:?}").split_whitespace().collect::<Vec<_>>().join(" ").chars().take(120).collect())
        .collect();
    if errs.len() > 3 {
        s.push(format!("… {} failures", errs.len()));
    }
    s.join(" | ")
}

/// A from-scratch case as a subject of the region-local alternative-witness search.
pub struct FsSubject<'a, C: FsCase>(pub &'a C);

impl<'a, C: FsCase> vgad::laws::Subject for FsSubject<'a, C> {
    fn s_key(&self) -> String {
        self.0.key()
    }
    fn s_op(&self) -> String {
        self.0.op()
    }
    fn s_traced(&self, k: u32) -> Option<(MockProver<F>, Vec<String>, Vec<verif::TraceEntry>)> {
        LOG.with(|e| *e.borrow_mut() = Log::default());
        verif::set_plan(vec![]);
        verif::set_tracing(true);
        let circuit = FsCircuit(self.0.clone());
        let r = catch(|| MockProver::run(k, &circuit, vec![vec![], vec![]]));
        let (names, trace) = verif::take_trace();
        verif::reset();
        LOG.with(|e| *e.borrow_mut() = Log::default());
        match r {
            Ok(Ok(p)) => Some((p, names, trace)),
            _ => None,
        }
    }
    fn s_replay(&self, k: u32, plan: Vec<(u64, Fault, Mode)>) -> (Outcome, Vec<Vec<F>>, Vec<Vec<F>>) {
        let r = run_once(self.0, k, plan, false);
        (r.outcome, r.ins, r.outs)
    }
    fn s_judge(&self, ins: &[Vec<F>], outs: &[Vec<F>]) -> Judgement {
        self.0.judge(ins, outs)
    }
}

/// Cell kinds (region name, column, offset) of one traced honest synthesis.
pub fn trace_kinds<C: FsCase>(case: &C, k: u32) -> Option<Vec<(String, Vec<u64>)>> {
    LOG.with(|e| *e.borrow_mut() = Log::default());
    verif::set_plan(vec![]);
    verif::set_tracing(true);
    let circuit = FsCircuit(case.clone());
    let r = catch(|| MockProver::run(k, &circuit, vec![vec![], vec![]]));
    let (names, trace) = verif::take_trace();
    verif::reset();
    LOG.with(|e| *e.borrow_mut() = Log::default());
    match r {
        Ok(Ok(_)) => Some(vgad::kinds_of_trace(&names, &trace)),
        _ => None,
    }
}

pub fn run_once<C: FsCase>(case: &C, k: u32, plan: Vec<(u64, Fault, Mode)>, keep_prover: bool) -> FsRun {
    LOG.with(|e| *e.borrow_mut() = Log::default());
    verif::set_plan(plan);
    let circuit = FsCircuit(case.clone());
    let r = catch(|| MockProver::run(k, &circuit, vec![vec![], vec![]]));
    let (n_assign, untamperable) = verif::counters();
    let applied = verif::applied();
    verif::reset();
    let log = LOG.with(|e| std::mem::take(&mut *e.borrow_mut()));
    let conv = |v: &Vec<Vec<Option<F>>>| -> Vec<Vec<F>> { v.iter().map(|x| x.iter().map(|y| y.unwrap_or(F::from(0))).collect()).collect() };
    let (ins, outs) = (conv(&log.ins), conv(&log.outs));
    let flat: Vec<F> = log.order.iter().map(|(o, i, j)| if *o { outs[*i][*j] } else { ins[*i][*j] }).collect();
    let mut out = FsRun {
        outcome: Outcome::Sat,
        ins,
        outs,
        flat,
        order: log.order,
        invalid: log.invalid,
        n_assign,
        untamperable,
        applied,
        prover: None,
    };
    let mut prover = match r {
        Err(p) => {
            out.outcome = Outcome::Panic(p);
            return out;
        }
        Ok(Err(e)) => {
            out.outcome = Outcome::SynthErr(format!("{e:?}"));
            return out;
        }
        Ok(Ok(p)) => p,
    };
    {
        let inst = prover.instance_mut();
        if out.flat.len() > inst[1].len() {
            out.outcome = Outcome::SynthErr("more exposed values than rows".into());
            return out;
        }
        for (i, v) in out.flat.iter().enumerate() {
            inst[1][i] = InstanceValue::Assigned(*v);
        }
    }
    match catch(|| prover.verify()) {
        Err(p) => out.outcome = Outcome::Panic(format!("verify: {p}")),
        Ok(Err(errs)) => out.outcome = Outcome::Unsat(summarize(&errs)),
        Ok(Ok(())) => {}
    }
    if keep_prover {
        out.prover = Some(prover);
    }
    out
}

/// Smallest k at which the honest run is accepted (tried upwards from the case's hint).
pub fn min_k<C: FsCase>(case: &C, max_k: u32) -> Result<u32, Outcome> {
    let mut last = Outcome::SynthErr("no k tried".into());
    for k in case.k_hint()..=max_k {
        let r = run_once(case, k, vec![], false);
        if r.outcome == Outcome::Sat {
            return Ok(k);
        }
        last = r.outcome;
    }
    Err(last)
}

fn viol_key(case: &impl FsCase, what: &str) -> String {
    format!("{}:{what}", case.op())
}

/// Verdict on an honest run: must be satisfied with the reference result.
pub fn honest_verdict<C: FsCase>(case: &C, k: u32, run: &FsRun, out: &mut CaseOut) -> bool {
    let detail = json!({"case": case.key(), "k": k});
    out.eval(&format!("honest:{}", run.outcome.name()), true);
    match &run.outcome {
        Outcome::Sat => match run.judge(case) {
            Judgement::Holds => true,
            Judgement::Wrong(w) => {
                out.viol(Viol::new(viol_key(case, "honest-result-wrong"), format!("honest circuit is satisfied but its exposed result contradicts the reference: {w}"), detail));
                false
            }
        },
        o => {
            let what = match o {
                Outcome::Unsat(e) => format!("unsatisfiable: {e}"),
                Outcome::SynthErr(e) => format!("synthesis error: {e}"),
                Outcome::Panic(e) => format!("panic: {e}"),
                Outcome::Sat => unreachable!(),
            };
            out.viol(Viol::new(viol_key(case, &format!("completeness:{}", o.name())), format!("honest witness for an admissible input is not accepted — {what}"), detail));
            false
        }
    }
}

/// Instance binding (every single-position edit of the exposed vector must be rejected) and
/// exposed-value lies (an exposed value and every cell copy-constrained to it are changed
/// together: rejected, or the relation still holds) at the exposed positions `positions`.
pub fn binding_checks(
    prover: &mut MockProver<F>,
    flat: &[F],
    positions: &[usize],
    judge_flat: &dyn Fn(&[F]) -> Judgement,
    op: &str,
    detail: &dyn Fn() -> serde_json::Value,
    out: &mut CaseOut,
) {
    let empty = std::iter::empty::<usize>();
    for &pos in positions {
        for (name, newv) in [("+1", InstanceValue::Assigned(flat[pos] + F::from(1))), ("padding", InstanceValue::Padding)] {
            if name == "padding" && flat[pos] == F::from(0) {
                continue;
            }
            let old = prover.instance()[1][pos].clone();
            prover.instance_mut()[1][pos] = newv;
            let ok = catch(|| prover.verify_at_rows(empty.clone(), empty.clone()).is_ok()).unwrap_or(false);
            prover.instance_mut()[1][pos] = old;
            out.eval(if ok { "instance-edit:accepted" } else { "instance-edit:rejected" }, true);
            if ok {
                out.viol(Viol::new(format!("{op}:instance-not-bound"), format!("editing exposed position {pos} ({name}) is not rejected"), detail()));
            }
        }
    }
    let perm = prover.permutation();
    let cols = perm.columns().to_vec();
    let mapping: Vec<Vec<(usize, usize)>> = perm.mapping().map(|c| c.collect()).collect();
    let Some(ici) = cols.iter().position(|c| matches!(c.column_type(), Any::Instance) && c.index() == 1) else {
        return;
    };
    for &pos in positions {
        let mut cycle = vec![];
        let mut cur = (ici, pos);
        loop {
            cycle.push(cur);
            cur = mapping[cur.0][cur.1];
            if cur == (ici, pos) || cycle.len() > 10_000 {
                break;
            }
        }
        for (fname, fault) in [("+1", Fault::Add(1)), ("zero", Fault::Set([0; 4])), ("1-v", Fault::OneMinus)] {
            let newv = verif::apply_fault(&fault, flat[pos]);
            if newv == flat[pos] {
                continue;
            }
            let mut saved = vec![];
            for (ci, row) in &cycle {
                let col = cols[*ci];
                match col.column_type() {
                    Any::Advice(_) => {
                        saved.push((*ci, *row, prover.advice()[col.index()][*row]));
                        prover.advice_mut()[col.index()][*row] = CellValue::Assigned(newv);
                    }
                    Any::Instance => {
                        prover.instance_mut()[col.index()][*row] = InstanceValue::Assigned(newv);
                    }
                    Any::Fixed => {}
                }
            }
            // (a panic of MockProver while *reporting* a failure still means it found one)
            let ok = catch(|| prover.verify().is_ok()).unwrap_or(false);
            for (ci, row, v) in saved {
                prover.advice_mut()[cols[ci].index()][row] = v;
            }
            for (ci, row) in &cycle {
                if *ci == ici {
                    prover.instance_mut()[1][*row] = InstanceValue::Assigned(flat[*row]);
                }
            }
            out.eval(if ok { "cycle-lie:accepted" } else { "cycle-lie:rejected" }, true);
            if ok {
                let mut f2 = flat.to_vec();
                for (ci, row) in &cycle {
                    if *ci == ici {
                        f2[*row] = newv;
                    }
                }
                match judge_flat(&f2) {
                    Judgement::Holds => out.count("cycle-lie:accepted-benign", 1),
                    Judgement::Wrong(w) => out.viol(Viol::new(
                        format!("{op}:exposed-value-not-constrained"),
                        format!("exposed position {pos} and its copy cycle changed by {fname}: still satisfied although {w}"),
                        detail(),
                    )),
                }
            }
        }
    }
}

/// The exposed positions that get the binding checks: all of them, or (for the big circuits in
/// the quick tier) the first input, the first output and the last output.
pub fn pick_positions(n_exposed: usize, n_inputs: usize, all: bool) -> Vec<usize> {
    if all || n_exposed <= 3 {
        return (0..n_exposed).collect();
    }
    let mut v = vec![0, n_inputs.min(n_exposed - 1), n_exposed - 1];
    v.sort();
    v.dedup();
    v
}

/// Instance binding + exposed-value lies on an accepted honest run (which must hold its prover).
pub fn binding_from_run<C: FsCase>(case: &C, k: u32, run: &mut FsRun, all_positions: bool, out: &mut CaseOut) {
    let Some(mut prover) = run.prover.take() else { return };
    let n_in = run.order.iter().filter(|o| !o.0).count();
    let positions = pick_positions(run.flat.len(), n_in, all_positions);
    let key = case.key();
    binding_checks(
        &mut prover,
        &run.flat,
        &positions,
        &|f| {
            let (i, o) = run.unflatten(f);
            case.judge(&i, &o)
        },
        &case.op(),
        &|| json!({"case": key, "k": k}),
        out,
    );
}

/// 1 deviation, propagate mode, for the assignment indices `idxs`.
pub fn explore_faults<C: FsCase>(case: &C, k: u32, idxs: &[u64], faults: &[(&'static str, Fault)], out: &mut CaseOut) {
    for &idx in idxs {
        for (fname, fault) in faults {
            let run = run_once(case, k, vec![(idx, fault.clone(), Mode::Propagate)], false);
            match run.applied.first().map(|a| a.changed) {
                None => {
                    out.count("fault:not-reached", 1);
                    continue;
                }
                Some(false) => {
                    out.count("fault:value-unchanged", 1);
                    continue;
                }
                Some(true) => {}
            }
            out.eval(&format!("fault:{}", run.outcome.name()), true);
            if run.outcome == Outcome::Sat {
                match run.judge(case) {
                    Judgement::Holds => out.count("fault:accepted-benign", 1),
                    Judgement::Wrong(w) => {
                        let a = &run.applied[0];
                        out.viol(Viol::new(
                            viol_key(case, "unsound-under-1-deviation"),
                            format!(
                                "advice assignment #{idx} (column {}, region offset {}) replaced by fault {fname}: circuit still satisfied although {w}",
                                a.column, a.offset
                            ),
                            json!({"case": case.key(), "k": k, "assignment_index": idx, "fault": fname}),
                        ));
                    }
                }
            }
        }
    }
}
